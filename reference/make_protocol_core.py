#!/usr/bin/env python3
"""Authoring aid for reference/protocol_core.json.

The rows below are written by hand from the published protocol documentation
(wiki.vg 'Protocol' page history for each release, 'Protocol version
numbers').  There is no network in this sandbox, so they are written from
memory of those pages; this file shares no code or data with pyCraft.  Run it
to regenerate the JSON (ranges are expanded to explicit protocol numbers).

Signedness: 16- and 64-bit integers carry it ('u16' the handshake port,
'i64' the keep-alive id, the status ping payload, the hashed seed: the
documentation publishes these as Unsigned Short / Long, and a port above
32767 or a negative id is an ordinary value).  8-bit fields are all written
'i8': the published Byte / Unsigned Byte distinction is about small
enumerations and bit fields, changes no byte on the wire, and is not judged."""
import json
import os

RELEASES = [47, 107, 108, 109, 110, 210, 315, 316, 335, 338, 340, 393, 401,
            404, 477, 480, 485, 490, 498, 573, 575, 578, 735, 736, 751, 753,
            754, 755, 756, 757]


def between(lo, hi):
    return [p for p in RELEASES if lo <= p <= hi]


ALL = list(RELEASES)
V18 = [47]
V19_112 = between(107, 340)
V113 = between(393, 404)
V114 = between(477, 498)
V115 = between(573, 578)
V116 = [735, 736]
V1162 = between(751, 754)
V117_118 = between(755, 757)

P = {}


def packet(key, cls, direction, state, rows):
    P[key] = dict(cls=cls, direction=direction, state=state,
                  rows=[dict(protocols=pr, id=i, layout=lay)
                        for pr, i, lay in rows])


PKT = 'minecraft.networking.packets.'

# ---- handshake / status (unchanged since 1.7) ------------------------------
packet('handshake', PKT + 'serverbound.handshake:HandShakePacket',
       'serverbound', 'handshake',
       [(ALL, 0x00, ['varint', 'string', 'u16', 'varint'])])
packet('status request', PKT + 'serverbound.status:RequestPacket',
       'serverbound', 'status', [(ALL, 0x00, [])])
packet('status ping', PKT + 'serverbound.status:PingPacket',
       'serverbound', 'status', [(ALL, 0x01, ['i64'])])
packet('status response', PKT + 'clientbound.status:ResponsePacket',
       'clientbound', 'status', [(ALL, 0x00, ['string'])])
packet('status pong', PKT + 'clientbound.status:PingResponsePacket',
       'clientbound', 'status', [(ALL, 0x01, ['i64'])])

# ---- login -----------------------------------------------------------------
packet('login start', PKT + 'serverbound.login:LoginStartPacket',
       'serverbound', 'login', [(ALL, 0x00, ['string'])])
packet('encryption response',
       PKT + 'serverbound.login:EncryptionResponsePacket',
       'serverbound', 'login', [(ALL, 0x01, ['bytes', 'bytes'])])
packet('login disconnect', PKT + 'clientbound.login:DisconnectPacket',
       'clientbound', 'login', [(ALL, 0x00, ['string'])])
packet('encryption request',
       PKT + 'clientbound.login:EncryptionRequestPacket',
       'clientbound', 'login', [(ALL, 0x01, ['string', 'bytes', 'bytes'])])
packet('login success', PKT + 'clientbound.login:LoginSuccessPacket',
       'clientbound', 'login',
       [(between(47, 578), 0x02, ['string', 'string']),
        (between(735, 757), 0x02, ['uuid', 'string'])])
packet('set compression', PKT + 'clientbound.login:SetCompressionPacket',
       'clientbound', 'login', [(ALL, 0x03, ['varint'])])

# ---- play, clientbound -------------------------------------------------------
packet('keep alive (clientbound)', PKT + 'clientbound.play:KeepAlivePacket',
       'clientbound', 'play',
       [(V18, 0x00, ['varint']),
        (between(107, 338), 0x1F, ['varint']),
        ([340], 0x1F, ['i64']),
        (V113, 0x21, ['i64']),
        (V114, 0x20, ['i64']),
        (V115, 0x21, ['i64']),
        (V116, 0x20, ['i64']),
        (V1162, 0x1F, ['i64']),
        (V117_118, 0x21, ['i64'])])

JG_18 = ['i32', 'i8', 'i8', 'i8', 'i8', 'string', 'bool']
JG_191 = ['i32', 'i8', 'i32', 'i8', 'i8', 'string', 'bool']
JG_114 = ['i32', 'i8', 'i32', 'i8', 'string', 'varint', 'bool']
JG_115 = ['i32', 'i8', 'i32', 'i64', 'i8', 'string', 'varint', 'bool', 'bool']
JG_116 = ['i32', 'i8', 'i8', 'array(varint,string)', 'nbt', 'string',
          'string', 'i64', 'i8', 'varint', 'bool', 'bool', 'bool', 'bool']
JG_1162 = ['i32', 'bool', 'i8', 'i8', 'array(varint,string)', 'nbt', 'nbt',
           'string', 'i64', 'varint', 'varint', 'bool', 'bool', 'bool',
           'bool']
JG_118 = ['i32', 'bool', 'i8', 'i8', 'array(varint,string)', 'nbt', 'nbt',
          'string', 'i64', 'varint', 'varint', 'varint', 'bool', 'bool',
          'bool', 'bool']
packet('join game', PKT + 'clientbound.play.join_game_and_respawn_packets:'
       'JoinGamePacket', 'clientbound', 'play',
       [(V18, 0x01, JG_18),
        ([107], 0x23, JG_18),
        (between(108, 340), 0x23, JG_191),
        (V113, 0x25, JG_191),
        (V114, 0x25, JG_114),
        (V115, 0x26, JG_115),
        (V116, 0x25, JG_116),
        (V1162, 0x24, JG_1162),
        ([755, 756], 0x26, JG_1162),
        ([757], 0x26, JG_118)])

packet('chat message (clientbound)',
       PKT + 'clientbound.play:ChatMessagePacket', 'clientbound', 'play',
       [(V18, 0x02, ['string', 'i8']),
        (V19_112, 0x0F, ['string', 'i8']),
        (V113, 0x0E, ['string', 'i8']),
        (V114, 0x0E, ['string', 'i8']),
        (V115, 0x0F, ['string', 'i8']),
        (V116, 0x0E, ['string', 'i8', 'uuid']),
        (V1162, 0x0E, ['string', 'i8', 'uuid']),
        (V117_118, 0x0F, ['string', 'i8', 'uuid'])])

PPL_18 = ['f64', 'f64', 'f64', 'f32', 'f32', 'i8']
PPL_19 = PPL_18 + ['varint']
PPL_117 = PPL_19 + ['bool']
packet('player position and look (clientbound)',
       PKT + 'clientbound.play.player_position_and_look_packet:'
       'PlayerPositionAndLookPacket', 'clientbound', 'play',
       [(V18, 0x08, PPL_18),
        (between(107, 335), 0x2E, PPL_19),
        ([338, 340], 0x2F, PPL_19),
        (V113, 0x32, PPL_19),
        (V114, 0x35, PPL_19),
        (V115, 0x36, PPL_19),
        (V116, 0x35, PPL_19),
        (V1162, 0x34, PPL_19),
        (V117_118, 0x38, PPL_117)])

packet('disconnect (play)', PKT + 'clientbound.play:DisconnectPacket',
       'clientbound', 'play',
       [(V18, 0x40, ['string']),
        (V19_112, 0x1A, ['string']),
        (V113, 0x1B, ['string']),
        (V114, 0x1A, ['string']),
        (V115, 0x1B, ['string']),
        (V116, 0x1A, ['string']),
        (V1162, 0x19, ['string']),
        (V117_118, 0x1A, ['string'])])

# ---- play, serverbound -------------------------------------------------------
packet('keep alive (serverbound)', PKT + 'serverbound.play:KeepAlivePacket',
       'serverbound', 'play',
       [(V18, 0x00, ['varint']),
        (between(107, 316), 0x0B, ['varint']),
        ([335], 0x0C, ['varint']),
        ([338], 0x0B, ['varint']),
        ([340], 0x0B, ['i64']),
        (V113, 0x0E, ['i64']),
        (V114, 0x0F, ['i64']),
        (V115, 0x0F, ['i64']),
        (V116 + V1162, 0x10, ['i64']),
        (V117_118, 0x0F, ['i64'])])

packet('chat (serverbound)', PKT + 'serverbound.play:ChatPacket',
       'serverbound', 'play',
       [(V18, 0x01, ['string']),
        (between(107, 316), 0x02, ['string']),
        ([335], 0x03, ['string']),
        ([338, 340], 0x02, ['string']),
        (V113, 0x02, ['string']),
        (between(477, 757), 0x03, ['string'])])

POS = ['f64', 'f64', 'f64', 'f32', 'f32', 'bool']
packet('player position and look (serverbound)',
       PKT + 'serverbound.play:PositionAndLookPacket', 'serverbound', 'play',
       [(V18, 0x06, POS),
        (between(107, 316), 0x0D, POS),
        ([335], 0x0F, POS),
        ([338, 340], 0x0E, POS),
        (V113, 0x11, POS),
        (V114 + V115, 0x12, POS),
        (V116 + V1162, 0x13, POS),
        (V117_118, 0x12, POS)])

packet('teleport confirm', PKT + 'serverbound.play:TeleportConfirmPacket',
       'serverbound', 'play', [(between(107, 757), 0x00, ['varint'])])

# ---- layout changes dated by the pre-release changelogs ------------------
# Between two releases the documentation dates some layout changes to a
# particular development version ("Pre-release protocol" pages).  Only the
# ones I can vouch for are listed; each says which wire shape a field has
# before and from the named protocol number (in order of publication).
BOUNDARIES = [
    dict(packet='keep alive (clientbound)', field=0, protocol=339,
         before='varint', since='i64',
         source='1.12.2-pre1 (339): Keep Alive ID changed from VarInt to '
                'Long, both directions'),
    dict(packet='keep alive (serverbound)', field=0, protocol=339,
         before='varint', since='i64',
         source='1.12.2-pre1 (339): Keep Alive ID changed from VarInt to '
                'Long, both directions'),
]

# ---- documented packets outside C07's core list that another property needs
# (checked by that property only: C11's reactor handles the play-state
# set-compression packet, which exists in 1.8 -- compression was negotiated
# in the play state before it moved to login)
EXTRA = {
    'set compression (play)': dict(
        cls=PKT + 'clientbound.play:SetCompressionPacket',
        direction='clientbound', state='play',
        rows=[dict(protocols=[47], id=0x46, layout=['varint'])]),
}

OUT = dict(
    _provenance=(
        'Ids and field layouts of the packets a client needs to connect, '
        'stay connected and chat, per release protocol number, written from '
        'the published protocol documentation (wiki.vg Protocol page '
        'history, Protocol version numbers) from memory -- the sandbox has '
        'no network.  Layouts are wire shapes (i8 i16 i32 i64 f32 f64 bool '
        'varint string uuid bytes nbt array(...)); u16 / i64 carry the '
        'published signedness, 8-bit fields do not.  Shares no code or data '
        'with pyCraft.'),
    releases=RELEASES,
    constants={'STATE_STATUS': 1, 'STATE_PLAYING': 2},
    packets=P,
    boundaries=BOUNDARIES,
    extra_packets=EXTRA,
    omitted=['Entries for the two 1.7.x protocol numbers (4, 5): the README '
             'does not list them as supported.'])

if __name__ == '__main__':
    here = os.path.dirname(os.path.abspath(__file__))
    with open(os.path.join(here, 'protocol_core.json'), 'w') as fh:
        json.dump(OUT, fh, indent=1)
    n = sum(len(r['protocols']) for p in P.values() for r in p['rows'])
    print('%d packets, %d (packet, protocol) rows' % (len(P), n))
