#!/usr/bin/env python
"""D10 (C16): the exception dispatch of a dying networking thread can close
the *next* connection.

History: connect(); the server sends half a frame, so the networking thread
blocks inside the read; the user calls disconnect() and then connect() again.
Schedule: the old thread is preempted between the test
`(new_networking_thread or networking_thread).interrupt` and the call
`self.disconnect(immediate=True)` in Connection._handle_exception (forced here
by delaying that very call -- a thread may be descheduled at any call).

Expected (C16: "after a connection ends for any reason the same object can
connect again"): the second connection stays up.  Observed on the defective
code: it is closed and its thread interrupted by the old thread.

Not part of any check (the checks are static); kept as the demonstration that
the finding R16.8 reports is a real schedule of the real code.
Usage: PYTHONPATH=<repo> python D10_close_race.py   (exit 0 = holds, 1 = broken)
"""
import socket
import sys
import threading
import time

from minecraft.networking.connection import Connection

srv = socket.socket()
srv.bind(('127.0.0.1', 0))
srv.listen(5)
port = srv.getsockname()[1]
peers = []


def serve():
    while True:
        try:
            s, _ = srv.accept()
        except OSError:
            return
        peers.append(s)
        # half a frame: length prefix 10, two bytes of body, then silence
        s.sendall(b'\x0a\x00\x00')


threading.Thread(target=serve, daemon=True).start()

conn = Connection('127.0.0.1', port, username='u', allowed_versions={47},
                  handle_exception=False)
gate = threading.Event()
first = {}
orig = Connection.disconnect


def delayed(self, immediate=False):
    if immediate and threading.current_thread() is first.get('t'):
        gate.wait(3)        # the old thread is descheduled right here
    return orig(self, immediate)


Connection.disconnect = delayed
conn.connect()
first['t'] = conn.networking_thread
time.sleep(0.5)             # the thread now blocks inside the frame read
conn.disconnect()           # user disconnect: the read ends, EOFError
time.sleep(0.3)             # old thread: dispatch, flag test passed, delayed
conn.connect()              # the reconnect the property promises
second = conn.new_networking_thread or conn.networking_thread
gate.set()
first['t'].join(5)
time.sleep(0.5)
ok = conn.connected and conn.socket is not None and not second.interrupt
print('second connection: connected=%s socket=%s thread.interrupt=%s'
      % (conn.connected, 'open' if conn.socket is not None else None,
         second.interrupt))
Connection.disconnect = orig
conn.disconnect(immediate=True)
srv.close()
print('C16 HOLDS' if ok else
      'C16 BROKEN: the old thread\'s dispatch closed the new connection')
sys.exit(0 if ok else 1)
