"""E9 -- interval domain with open/closed ends, a sign domain and a
monomial (scaling-coefficient) domain over arithmetic expressions."""
import ast
import math
from fractions import Fraction

INF = float('inf')


class Iv(object):
    """Interval of reals; is_int says every member is an integer."""
    __slots__ = ('lo', 'hi', 'lo_c', 'hi_c', 'is_int')

    def __init__(self, lo=-INF, hi=INF, lo_c=True, hi_c=True, is_int=False):
        self.lo, self.hi = lo, hi
        self.lo_c = lo_c and lo != -INF
        self.hi_c = hi_c and hi != INF
        self.is_int = is_int

    @property
    def top(self):
        return self.lo == -INF and self.hi == INF

    @property
    def bounded(self):
        return self.lo != -INF and self.hi != INF

    def within(self, lo, hi):
        """Every member lies in the closed range [lo, hi]."""
        if not self.bounded:
            return False
        if self.is_int:
            eff_hi = self.hi if self.hi_c else math.ceil(self.hi) - 1
            eff_lo = self.lo if self.lo_c else math.floor(self.lo) + 1
            return eff_lo >= lo and eff_hi <= hi
        return self.lo >= lo and self.hi <= hi

    def __repr__(self):
        return '%s%s, %s%s%s' % ('[' if self.lo_c else '(', self.lo, self.hi,
                                 ']' if self.hi_c else ')',
                                 ' int' if self.is_int else '')


TOP = Iv()


def const(c):
    return Iv(c, c, True, True, isinstance(c, int) and not isinstance(c, bool))


def _mul_bound(a, ac, b, bc):
    if a == 0 or b == 0:
        return 0, True
    return a * b, ac and bc


def mul(x, y):
    if not (x.bounded and y.bounded):
        # scaling an unbounded interval by a constant stays unbounded
        return Iv(is_int=x.is_int and y.is_int)
    cands = []
    for a, ac in ((x.lo, x.lo_c), (x.hi, x.hi_c)):
        for b, bc in ((y.lo, y.lo_c), (y.hi, y.hi_c)):
            cands.append(_mul_bound(a, ac, b, bc))
    lo = min(c[0] for c in cands)
    hi = max(c[0] for c in cands)
    lo_c = any(c[1] for c in cands if c[0] == lo)
    hi_c = any(c[1] for c in cands if c[0] == hi)
    return Iv(lo, hi, lo_c, hi_c, x.is_int and y.is_int)


def add(x, y, sign=1):
    if sign == -1:
        y = Iv(-y.hi, -y.lo, y.hi_c, y.lo_c, y.is_int)
    return Iv(x.lo + y.lo, x.hi + y.hi, x.lo_c and y.lo_c, x.hi_c and y.hi_c,
              x.is_int and y.is_int)


def div(x, y):
    if y.lo == y.hi and y.lo not in (0,) and y.bounded:
        return mul(x, Iv(1.0 / y.lo, 1.0 / y.lo, True, True, False)) \
            if x.bounded else Iv()
    return Iv()


def mod(x, y):
    if y.lo == y.hi and y.bounded and y.lo > 0:
        m = y.lo
        return Iv(0, m, True, False, x.is_int and y.is_int)
    return Iv()


def round_(x):
    if not x.bounded:
        return Iv(is_int=True)
    lo = math.floor(x.lo + 0.5) if x.lo_c else math.floor(x.lo + 0.5)
    # round-half-even: the largest reachable integer for an open upper end
    # h is round(h - eps) = ceil(h - 0.5) when h - 0.5 is not an integer,
    # else h - 0.5 rounded towards even is still <= h
    if x.hi_c:
        hi = round(x.hi)
    else:
        hi = math.ceil(x.hi - 0.5)
        if x.hi - 0.5 == math.floor(x.hi - 0.5):
            # values just below k+0.5 round to k
            hi = int(x.hi - 0.5)
    lo = round(x.lo) if x.lo_c else math.floor(x.lo + 0.5)
    return Iv(lo, hi, True, True, True)


def int_(x):
    if not x.bounded:
        return Iv(is_int=True)
    lo = math.trunc(x.lo) if x.lo_c or x.lo != math.trunc(x.lo) \
        else math.trunc(x.lo)
    if x.hi_c or x.hi != math.floor(x.hi):
        hi = math.trunc(x.hi)
    else:
        hi = x.hi - 1 if x.hi > 0 else x.hi
    return Iv(lo, hi, True, True, True)


def band(x, y):
    """x & y where one side is a non-negative constant mask."""
    for m in (x, y):
        if m.bounded and m.lo == m.hi and m.is_int and m.lo >= 0:
            return Iv(0, m.lo, True, True, True)
    return Iv(is_int=True)


def bor(x, y):
    if x.bounded and y.bounded and x.is_int and y.is_int and x.lo >= 0 \
            and y.lo >= 0:
        hi = (1 << max(int(x.hi).bit_length(), int(y.hi).bit_length())) - 1
        return Iv(min(x.lo, y.lo), hi, True, True, True)
    return Iv(is_int=True)


def shl(x, y):
    if y.bounded and y.lo == y.hi and x.bounded and x.is_int and x.lo >= 0:
        k = int(y.lo)
        return Iv(int(x.lo) << k, int(x.hi) << k, True, True, True)
    return Iv(is_int=True)


def shr(x, y):
    if y.bounded and y.lo == y.hi and x.bounded and x.is_int and x.lo >= 0:
        k = int(y.lo)
        return Iv(int(x.lo) >> k, int(x.hi) >> k, True, True, True)
    return Iv(is_int=True)


def eval_interval(expr, env=None, consts=None):
    """Interval of an arithmetic expression.  `env` maps local names to
    intervals; `consts` evaluates constant sub-expressions (callable
    node -> value or None)."""
    env = env or {}

    def ev(n):
        if consts is not None and not isinstance(n, ast.Name):
            c = consts(n)
            if isinstance(c, (int, float)) and not isinstance(c, bool):
                return const(c)
        if isinstance(n, ast.Constant):
            if isinstance(n.value, (int, float)) and \
                    not isinstance(n.value, bool):
                return const(n.value)
            if isinstance(n.value, bool):
                return Iv(0, 1, True, True, True)
            return Iv()
        if isinstance(n, ast.Name):
            if n.id in env:
                return env[n.id]
            if consts is not None:
                c = consts(n)
                if isinstance(c, (int, float)) and not isinstance(c, bool):
                    return const(c)
            return Iv()
        if isinstance(n, ast.BinOp):
            a, b = ev(n.left), ev(n.right)
            if isinstance(n.op, ast.Mult):
                return mul(a, b)
            if isinstance(n.op, ast.Add):
                return add(a, b)
            if isinstance(n.op, ast.Sub):
                return add(a, b, -1)
            if isinstance(n.op, ast.Div):
                return div(a, b)
            if isinstance(n.op, ast.Mod):
                return mod(a, b)
            if isinstance(n.op, ast.BitAnd):
                return band(a, b)
            if isinstance(n.op, ast.BitOr):
                return bor(a, b)
            if isinstance(n.op, ast.LShift):
                return shl(a, b)
            if isinstance(n.op, ast.RShift):
                return shr(a, b)
            if isinstance(n.op, ast.FloorDiv):
                d = div(a, b)
                if d.bounded:
                    return Iv(math.floor(d.lo), math.floor(d.hi), True, True,
                              True)
                return Iv(is_int=True)
            return Iv()
        if isinstance(n, ast.UnaryOp) and isinstance(n.op, ast.USub):
            a = ev(n.operand)
            return Iv(-a.hi, -a.lo, a.hi_c, a.lo_c, a.is_int)
        if isinstance(n, ast.Call) and isinstance(n.func, ast.Name) \
                and len(n.args) >= 1:
            if n.func.id == 'round' and len(n.args) == 1:
                return round_(ev(n.args[0]))
            if n.func.id == 'int' and len(n.args) == 1:
                return int_(ev(n.args[0]))
            if n.func.id == 'len':
                return Iv(0, INF, True, False, True)
            if n.func.id == 'abs':
                a = ev(n.args[0])
                if a.bounded:
                    return Iv(0, max(abs(a.lo), abs(a.hi)), True, True,
                              a.is_int)
                return Iv(0, INF, True, False, a.is_int)
            if n.func.id in ('min', 'max') and len(n.args) == 2:
                a, b = ev(n.args[0]), ev(n.args[1])
                if n.func.id == 'min':
                    return Iv(min(a.lo, b.lo), min(a.hi, b.hi), True, True,
                              a.is_int and b.is_int)
                return Iv(max(a.lo, b.lo), max(a.hi, b.hi), True, True,
                          a.is_int and b.is_int)
        if isinstance(n, ast.IfExp):
            a, b = ev(n.body), ev(n.orelse)
            return Iv(min(a.lo, b.lo), max(a.hi, b.hi), True, True,
                      a.is_int and b.is_int)
        return Iv()
    return ev(expr)


# ---------------------------------------------------------------------------
class Mono(object):
    """coef * prod(sym**pow) * X  -- the multiplicative factor applied to
    the single data input X of a scaling expression."""
    def __init__(self, coef=Fraction(1), syms=None, has_x=False):
        self.coef = Fraction(coef)
        self.syms = dict(syms or {})
        self.has_x = has_x

    def mul(self, o, inv=False):
        s = dict(self.syms)
        for k, p in o.syms.items():
            s[k] = s.get(k, 0) + (-p if inv else p)
            if s[k] == 0:
                del s[k]
        coef = self.coef / o.coef if inv else self.coef * o.coef
        if inv and o.has_x:
            return None
        return Mono(coef, s, self.has_x or o.has_x)

    def key(self):
        return (self.coef, tuple(sorted(self.syms.items())))

    def __repr__(self):
        return 'Mono(%s, %s%s)' % (self.coef, self.syms,
                                   ', X' if self.has_x else '')


def scaling(expr, is_input, sym_of):
    """Multiplicative coefficient of the data input inside `expr`;
    wrappers int()/round()/float() and `% const` are transparent.
    Returns Mono or None if the expression is not a pure scaling."""
    def ev(n):
        if is_input(n):
            return Mono(1, {}, True)
        if isinstance(n, ast.Constant) and isinstance(n.value, (int, float)) \
                and not isinstance(n.value, bool):
            return Mono(Fraction(n.value).limit_denominator(10 ** 9))
        s = sym_of(n)
        if s is not None:
            return Mono(1, {s: 1})
        if isinstance(n, ast.BinOp):
            if isinstance(n.op, ast.Mod):
                return ev(n.left)
            a, b = ev(n.left), ev(n.right)
            if a is None or b is None:
                return None
            if isinstance(n.op, ast.Mult):
                if a.has_x and b.has_x:
                    return None
                return a.mul(b)
            if isinstance(n.op, ast.Div):
                return a.mul(b, inv=True)
            return None
        if isinstance(n, ast.Call) and isinstance(n.func, ast.Name) and \
                n.func.id in ('int', 'round', 'float') and len(n.args) == 1:
            return ev(n.args[0])
        return None
    return ev(expr)
