"""E8 -- value-graph extraction for straight-line helpers: substitute locals,
inline in-repo callees, obtain one expression over parameters and library
primitives.  Def-use/value numbering, not path exploration."""
import ast
import copy

from .common import AnalysisError, rel
from .srcdb import FuncInfo, ClassInfo, Module, External


class Subst(ast.NodeTransformer):
    def __init__(self, mapping):
        self.mapping = mapping

    def visit_Name(self, node):
        if isinstance(node.ctx, ast.Load) and node.id in self.mapping:
            return copy.deepcopy(self.mapping[node.id])
        return node

    def visit_Lambda(self, node):
        return node


def substitute(expr, mapping):
    return Subst(mapping).visit(copy.deepcopy(expr))


def straight_line_value(fi):
    """For a function whose body is assignments to simple names, expression
    statements and one final return: the returned expression with locals
    substituted (calls are kept as calls; order of *effectful* statements
    is returned separately).  Returns (expr, effects) where effects is the
    list of expression statements in order, each with locals substituted."""
    env = {}
    effects = []
    body = list(fi.body)
    for st in body:
        if isinstance(st, ast.Expr) and isinstance(st.value, ast.Constant):
            continue
        if isinstance(st, ast.Assign) and len(st.targets) == 1 and \
                isinstance(st.targets[0], ast.Name):
            env[st.targets[0].id] = substitute(st.value, env)
        elif isinstance(st, ast.Expr):
            effects.append(substitute(st.value, env))
        elif isinstance(st, ast.If) and not st.orelse and st.body and \
                isinstance(st.body[-1], ast.Raise) and all(
                    isinstance(x, (ast.Raise, ast.Expr, ast.Assign))
                    for x in st.body):
            # a guard that only raises: does not change the value computed
            # on the paths that return
            continue
        elif isinstance(st, ast.Return):
            val = substitute(st.value, env) if st.value is not None else \
                ast.Constant(value=None)
            return val, effects, env
        else:
            raise AnalysisError('not a straight-line helper: %s in %s' % (
                type(st).__name__, fi.qualname), st, rel(fi.path))
    return ast.Constant(value=None), effects, env


def callee_of(db, module, call, cls_scope=None):
    ent = db.resolve_dotted(module, call.func, class_scope=cls_scope)
    ent = db.deref(ent) if isinstance(ent, tuple) else ent
    return ent


def map_args(fi, call, skip_first=False):
    """Map a call's arguments onto the callee's parameter names (positional
    and keyword; defaults for the rest).  Returns dict or None."""
    a = fi.node.args
    names = [x.arg for x in a.posonlyargs + a.args]
    if skip_first:
        names = names[1:]
    if a.vararg or a.kwarg or any(isinstance(x, ast.Starred)
                                  for x in call.args):
        return None
    if len(call.args) > len(names):
        return None
    m = {}
    for nm, v in zip(names, call.args):
        m[nm] = v
    for kw in call.keywords:
        if kw.arg is None or kw.arg not in names or kw.arg in m:
            return None
        m[kw.arg] = kw.value
    defaults = a.defaults
    all_names = [x.arg for x in a.posonlyargs + a.args]
    first_default = len(all_names) - len(defaults)
    for i, nm in enumerate(all_names):
        if skip_first and i == 0:
            continue
        if nm not in m:
            if i >= first_default:
                m[nm] = defaults[i - first_default]
            else:
                return None
    return m


def inline(db, module, expr, cls_scope=None, depth=6):
    """Replace calls to in-repo *straight-line* functions by their returned
    expression (arguments substituted), recursively."""
    class T(ast.NodeTransformer):
        def visit_Call(self, node):
            node = self.generic_visit(node)
            if depth <= 0:
                return node
            ent = callee_of(db, module, node, cls_scope)
            if isinstance(ent, FuncInfo) and ent.kind in (
                    'function', 'static'):
                m = map_args(ent, node)
                if m is None:
                    return node
                try:
                    val, effects, _ = straight_line_value(ent)
                except AnalysisError:
                    return node
                if effects:
                    return node
                val = substitute(val, m)
                return inline(db, ent.module, val, ent.cls, depth - 1)
            return node
    return T().visit(copy.deepcopy(expr))


def dump(expr):
    return ast.unparse(expr)
