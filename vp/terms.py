"""E8 -- value-graph extraction for straight-line helpers: substitute locals,
inline in-repo callees, obtain one expression over parameters and library
primitives.  Def-use/value numbering, not path exploration."""
import ast
import copy

from .common import AnalysisError, rel
from .srcdb import FuncInfo, ClassInfo, Module, External


class Subst(ast.NodeTransformer):
    def __init__(self, mapping):
        self.mapping = mapping

    def visit_Name(self, node):
        if isinstance(node.ctx, ast.Load) and node.id in self.mapping:
            return copy.deepcopy(self.mapping[node.id])
        return node

    def visit_Lambda(self, node):
        return node


def substitute(expr, mapping):
    return Subst(mapping).visit(copy.deepcopy(expr))


def _always_raises(stmts):
    if not stmts:
        return False
    st = stmts[-1]
    if isinstance(st, ast.Raise):
        return True
    if isinstance(st, ast.If):
        return bool(st.orelse) and _always_raises(st.body) and \
            _always_raises(st.orelse)
    return False


def _returning_sequences(stmts, fi, limit=4):
    """Statement sequences (guards removed) of the paths of `stmts` that end
    in a return or fall off the end; paths that raise are dropped.  Each
    sequence is (list of simple statements, terminated?)."""
    seqs = [([], False)]
    for i, st in enumerate(stmts):
        nxt = []
        for seq, done in seqs:
            if done:
                nxt.append((seq, True))
                continue
            if isinstance(st, ast.Expr) and isinstance(st.value,
                                                       ast.Constant):
                nxt.append((seq, False))
            elif isinstance(st, (ast.Assign, ast.Expr, ast.AugAssign,
                                 ast.Pass)):
                nxt.append((seq + [st], False))
            elif isinstance(st, ast.Return):
                nxt.append((seq + [st], True))
            elif isinstance(st, ast.Raise):
                pass        # this path raises
            elif isinstance(st, ast.If):
                for arm in (st.body, st.orelse):
                    if _always_raises(arm):
                        continue
                    for s2, d2 in _returning_sequences(arm, fi, limit):
                        nxt.append((seq + s2, d2))
            else:
                raise AnalysisError('not a straight-line helper: %s in %s'
                                    % (type(st).__name__, fi.qualname), st,
                                    rel(fi.path))
        seqs = nxt
        if len(seqs) > limit:
            raise AnalysisError('not a straight-line helper: %s has more '
                                'than %d returning paths' % (fi.qualname,
                                                             limit),
                                st, rel(fi.path))
    return seqs


def straight_line_value(fi):
    """For a function with exactly one path that returns (guards that only
    raise, in either polarity, do not count): the returned expression with
    locals substituted (calls are kept as calls; order of *effectful*
    statements is returned separately).  Returns (expr, effects, env) where
    effects is the list of expression statements in order, each with locals
    substituted."""
    seqs = _returning_sequences(list(fi.body), fi)
    if len(seqs) != 1:
        raise AnalysisError('not a straight-line helper: %s has %d returning '
                            'paths' % (fi.qualname, len(seqs)), fi.node,
                            rel(fi.path))
    env = {}
    effects = []
    for st in seqs[0][0]:
        if isinstance(st, ast.Assign) and len(st.targets) == 1 and \
                isinstance(st.targets[0], ast.Name):
            env[st.targets[0].id] = substitute(st.value, env)
        elif isinstance(st, ast.Expr):
            effects.append(substitute(st.value, env))
        elif isinstance(st, ast.Pass):
            continue
        elif isinstance(st, ast.Return):
            val = substitute(st.value, env) if st.value is not None else \
                ast.Constant(value=None)
            return val, effects, env
        else:
            raise AnalysisError('not a straight-line helper: %s in %s' % (
                type(st).__name__, fi.qualname), st, rel(fi.path))
    return ast.Constant(value=None), effects, env


def callee_of(db, module, call, cls_scope=None):
    ent = db.resolve_dotted(module, call.func, class_scope=cls_scope)
    ent = db.deref(ent) if isinstance(ent, tuple) else ent
    return ent


def map_args(fi, call, skip_first=False):
    """Map a call's arguments onto the callee's parameter names (positional
    and keyword; defaults for the rest).  Returns dict or None."""
    a = fi.node.args
    names = [x.arg for x in a.posonlyargs + a.args]
    if skip_first:
        names = names[1:]
    if a.vararg or a.kwarg or any(isinstance(x, ast.Starred)
                                  for x in call.args):
        return None
    if len(call.args) > len(names):
        return None
    m = {}
    for nm, v in zip(names, call.args):
        m[nm] = v
    for kw in call.keywords:
        if kw.arg is None or kw.arg not in names or kw.arg in m:
            return None
        m[kw.arg] = kw.value
    defaults = a.defaults
    all_names = [x.arg for x in a.posonlyargs + a.args]
    first_default = len(all_names) - len(defaults)
    for i, nm in enumerate(all_names):
        if skip_first and i == 0:
            continue
        if nm not in m:
            if i >= first_default:
                m[nm] = defaults[i - first_default]
            else:
                return None
    return m


def inline(db, module, expr, cls_scope=None, depth=6):
    """Replace calls to in-repo *straight-line* functions by their returned
    expression (arguments substituted), recursively."""
    class T(ast.NodeTransformer):
        def visit_Call(self, node):
            node = self.generic_visit(node)
            if depth <= 0:
                return node
            ent = callee_of(db, module, node, cls_scope)
            if isinstance(ent, FuncInfo) and ent.kind in (
                    'function', 'static'):
                m = map_args(ent, node)
                if m is None:
                    return node
                try:
                    val, effects, _ = straight_line_value(ent)
                except AnalysisError:
                    return node
                if effects:
                    return node
                val = substitute(val, m)
                return inline(db, ent.module, val, ent.cls, depth - 1)
            return node
    return T().visit(copy.deepcopy(expr))


def dump(expr):
    return ast.unparse(expr)


# ---------------------------------------------------------------------------
# symbolic value extraction (E8 proper): one term over parameters and
# library primitives, in-repo callees inlined, effects on local objects kept
# in order.
class Sym(object):
    def __init__(self, name):
        self.name = name

    def key(self):
        return ('sym', self.name)

    def __repr__(self):
        return self.name


class Const(object):
    def __init__(self, v):
        self.v = v

    def key(self):
        return ('const', repr(self.v))

    def __repr__(self):
        return repr(self.v)


class CallT(object):
    """call of something outside the repository (dotted name resolved
    through the module's imports)"""
    def __init__(self, func, args, kwargs):
        self.func = func
        self.args = tuple(args)
        self.kwargs = tuple(sorted(kwargs.items()))

    def kw(self, name, default=None):
        for k, v in self.kwargs:
            if k == name:
                return v
        return default

    def key(self):
        return ('call', self.func, tuple(a.key() for a in self.args),
                tuple((k, v.key()) for k, v in self.kwargs))

    def __repr__(self):
        parts = [repr(a) for a in self.args] + ['%s=%r' % kv
                                                for kv in self.kwargs]
        return '%s(%s)' % (self.func, ', '.join(parts))


class MethT(object):
    def __init__(self, recv, name, args, kwargs):
        self.recv = recv
        self.name = name
        self.args = tuple(args)
        self.kwargs = tuple(sorted(kwargs.items()))

    def kw(self, name, default=None):
        for k, v in self.kwargs:
            if k == name:
                return v
        return default

    def key(self):
        return ('meth', self.recv.key(), self.name,
                tuple(a.key() for a in self.args),
                tuple((k, v.key()) for k, v in self.kwargs))

    def __repr__(self):
        parts = [repr(a) for a in self.args] + ['%s=%r' % kv
                                                for kv in self.kwargs]
        return '%r.%s(%s)' % (self.recv, self.name, ', '.join(parts))


class ObjT(object):
    """a local object created by an external constructor; `effects` are the
    mutating method calls applied to it so far, in order"""
    def __init__(self, ctor, effects=()):
        self.ctor = ctor
        self.effects = tuple(effects)

    def key(self):
        return ('obj', self.ctor.key(),
                tuple((m, tuple(a.key() for a in args))
                      for m, args in self.effects))

    def __repr__(self):
        return '%r%s' % (self.ctor, ''.join(
            '.%s(%s)' % (m, ', '.join(map(repr, a)))
            for m, a in self.effects))


class TupleT(object):
    def __init__(self, items):
        self.items = tuple(items)

    def key(self):
        return ('tuple', tuple(i.key() for i in self.items))

    def __repr__(self):
        return '(%s)' % ', '.join(map(repr, self.items))


class OpT(object):
    def __init__(self, op, args):
        self.op = op
        self.args = tuple(args)

    def key(self):
        return ('op', self.op, tuple(a.key() for a in self.args))

    def __repr__(self):
        return '%s(%s)' % (self.op, ', '.join(map(repr, self.args)))


class AttrT(object):
    def __init__(self, base, attr):
        self.base = base
        self.attr = attr

    def key(self):
        return ('attr', self.base.key(), self.attr)

    def __repr__(self):
        return '%r.%s' % (self.base, self.attr)


MUTATORS = ('update', 'append', 'extend', 'write')


class SymEval(object):
    def __init__(self, db):
        self.db = db

    def run(self, fi, args=None, depth=0):
        """Term returned by fi when called with symbolic arguments (default:
        one Sym per parameter)."""
        params = fi.params
        env = {}
        args = list(args) if args is not None else [Sym(p) for p in params]
        a = fi.node.args
        defaults = a.defaults
        first_default = len(params) - len(defaults)
        for i, p in enumerate(params):
            if i < len(args):
                env[p] = args[i]
            elif i >= first_default:
                env[p] = self.ev(defaults[i - first_default], {}, fi, depth)
            else:
                env[p] = Sym(p)
        if isinstance(args, dict):
            pass
        self.objs = getattr(self, 'objs', {})
        return self.block(fi.body, env, fi, depth)

    def run_kw(self, fi, pos, kw, depth):
        params = fi.params
        vals = list(pos)
        a = fi.node.args
        defaults = a.defaults
        first_default = len(params) - len(defaults)
        for i in range(len(vals), len(params)):
            p = params[i]
            if p in kw:
                vals.append(kw[p])
            elif i >= first_default:
                vals.append(self.ev(defaults[i - first_default], {}, fi,
                                    depth))
            else:
                vals.append(Sym(p))
        return self.run(fi, vals, depth)

    def block(self, stmts, env, fi, depth):
        for st in stmts:
            if isinstance(st, ast.Expr):
                if isinstance(st.value, ast.Constant):
                    continue
                self.ev(st.value, env, fi, depth)
            elif isinstance(st, ast.Assign):
                v = self.ev(st.value, env, fi, depth)
                for t in st.targets:
                    if isinstance(t, ast.Name):
                        env[t.id] = v
                    elif isinstance(t, ast.Tuple) and isinstance(v, TupleT) \
                            and len(t.elts) == len(v.items):
                        for e, x in zip(t.elts, v.items):
                            if isinstance(e, ast.Name):
                                env[e.id] = x
                    else:
                        raise AnalysisError('symeval: unsupported target',
                                            st, rel(fi.path))
            elif isinstance(st, ast.Return):
                return self.ev(st.value, env, fi, depth) if st.value \
                    else Const(None)
            elif isinstance(st, ast.Try):
                # `except AttributeError` around int.from_bytes is the
                # unreachable py2 fallback: the try body decides
                hs = [ast.unparse(h.type) if h.type is not None else ''
                      for h in st.handlers]
                if hs == ['AttributeError'] and not st.finalbody:
                    r = self.block(st.body, env, fi, depth)
                    if r is not None:
                        return r
                    continue
                raise AnalysisError('symeval: unsupported try', st,
                                    rel(fi.path))
            elif isinstance(st, ast.If) and not st.orelse and st.body and \
                    isinstance(st.body[-1], ast.Raise):
                continue
            elif isinstance(st, ast.Pass):
                continue
            else:
                raise AnalysisError('symeval: unsupported statement %s'
                                    % type(st).__name__, st, rel(fi.path))
        return None

    def dotted(self, fi, e):
        ent = self.db.resolve_dotted(fi.module, e)
        if isinstance(ent, tuple):
            ent = self.db.deref(ent)
        return ent

    def ev(self, e, env, fi, depth):
        if isinstance(e, ast.Constant):
            return Const(e.value)
        if isinstance(e, ast.Name):
            if e.id in env:
                v = env[e.id]
                if isinstance(v, ObjT) and id(v) in self.objs:
                    return v
                return v
            ent = self.dotted(fi, e)
            if isinstance(ent, External):
                return Sym(ent.dotted)
            if isinstance(ent, (FuncInfo, ClassInfo)):
                return Sym(getattr(ent, 'qualname', str(ent)))
            if e.id in ('int', 'format', 'bytes', 'str', 'len', 'hex',
                        'bytearray'):
                return Sym('builtins.' + e.id)
            return Sym(e.id)
        if isinstance(e, ast.Tuple):
            return TupleT([self.ev(x, env, fi, depth) for x in e.elts])
        if isinstance(e, ast.BinOp):
            return OpT(type(e.op).__name__, [self.ev(e.left, env, fi, depth),
                                             self.ev(e.right, env, fi,
                                                     depth)])
        if isinstance(e, ast.Attribute):
            # dotted external name?
            ent = None
            try:
                ent = self.dotted(fi, e)
            except Exception:
                ent = None
            base_is_local = isinstance(e.value, ast.Name) and \
                e.value.id in env
            if isinstance(ent, External) and not base_is_local:
                return Sym(ent.dotted)
            return AttrT(self.ev(e.value, env, fi, depth), e.attr)
        if isinstance(e, ast.Call):
            return self.call(e, env, fi, depth)
        if isinstance(e, ast.Subscript):
            return OpT('index', [self.ev(e.value, env, fi, depth),
                                 self.ev(e.slice, env, fi, depth)])
        if isinstance(e, ast.JoinedStr):
            return Sym('<fstring>')
        if isinstance(e, ast.Slice):
            return OpT('slice', [self.ev(x, env, fi, depth) if x is not None
                                 else Const(None)
                                 for x in (e.lower, e.upper, e.step)])
        if isinstance(e, ast.UnaryOp):
            return OpT(type(e.op).__name__, [self.ev(e.operand, env, fi,
                                                     depth)])
        raise AnalysisError('symeval: unsupported expression %s'
                            % type(e).__name__, e, rel(fi.path))

    def call(self, e, env, fi, depth):
        args = [self.ev(a, env, fi, depth) for a in e.args]
        kwargs = {k.arg: self.ev(k.value, env, fi, depth)
                  for k in e.keywords if k.arg}
        f = e.func
        # method call on a local value
        if isinstance(f, ast.Attribute):
            base_local = isinstance(f.value, ast.Name) and f.value.id in env
            ent = None
            if not base_local:
                ent = self.dotted(fi, f)
            if isinstance(ent, FuncInfo) and depth < 6 and \
                    ent.kind in ('function', 'static'):
                return self.run_kw(ent, args, kwargs, depth + 1)
            if isinstance(ent, External):
                return self.ext_call(ent.dotted, args, kwargs)
            recv = self.ev(f.value, env, fi, depth)
            if isinstance(recv, Sym) and recv.name in (
                    'builtins.int',) and f.attr == 'from_bytes':
                return CallT('int.from_bytes', args, kwargs)
            if isinstance(recv, ObjT) and f.attr in MUTATORS and \
                    isinstance(f.value, ast.Name):
                new = ObjT(recv.ctor, recv.effects + ((f.attr,
                                                       tuple(args)),))
                env[f.value.id] = new
                return Const(None)
            return MethT(recv, f.attr, args, kwargs)
        if isinstance(f, ast.Name):
            if f.id in env:
                return MethT(env[f.id], '__call__', args, kwargs)
            ent = self.dotted(fi, f)
            if isinstance(ent, FuncInfo) and ent in getattr(self, 'opaque',
                                                            ()):
                return CallT(ent.qualname, args, kwargs)
            if isinstance(ent, FuncInfo) and depth < 6:
                return self.run_kw(ent, args, kwargs, depth + 1)
            if isinstance(ent, External):
                return self.ext_call(ent.dotted, args, kwargs)
            if isinstance(ent, ClassInfo):
                return CallT(ent.qualname, args, kwargs)
            return CallT('builtins.' + f.id, args, kwargs)
        raise AnalysisError('symeval: unsupported call', e, rel(fi.path))

    def ext_call(self, dotted, args, kwargs):
        c = CallT(dotted, args, kwargs)
        if dotted.split('.')[-1] in ('sha1', 'sha256', 'md5', 'new',
                                     'BytesIO'):
            return ObjT(c)
        return c
