"""E0 -- semantics-preserving normalisation of the parsed program.

The rules of /verif/vp reason about *units* (functions they name as anchors)
and about the expressions inside them.  Ordinary maintenance moves code
between those units without changing behaviour: a block becomes a private
helper, an attribute chain is hoisted into a local, a literal becomes a module
constant, a nested call is split through a temporary.  Rather than teach every
rule every such shape, the parsed trees are brought to one normal form before
any rule sees them:

  N1  helper inlining     a call that resolves (statically, uniquely) to an
                          in-repo function which is *not* a known unit (see
                          known_units.json: the functions of the confirmed
                          tree, i.e. the units the rules were written against)
                          is replaced by the callee's body, parameters bound to
                          the arguments, early returns turned into structured
                          if/else.  Generators consumed by a `for` are inlined
                          by substituting the loop body for the `yield`.
                          Bound: depth 4, same module, no recursion.
  N2  module constants    a module-level NAME = <literal | re.compile(literal)>
                          that is not a known global is substituted into its
                          uses; re.compile(P).m(S) becomes re.m(P, S).
  N3  copy propagation    a local assigned once to a call-free expression over
                          *stable* places (attributes that the whole program
                          only ever stores in __init__) is substituted into
                          its uses; a local used once, in the statement that
                          directly follows its definition and before anything
                          else is evaluated there, is substituted whatever its
                          definition (splitting/merging of nested calls).
                          Unstable places (socket, file_object, reactor, ...)
                          are deliberately not propagated: hoisting one of
                          those is a behavioural change the rules must see.

Every step preserves the behaviour of the program (under the usual reading
that attribute reads have no side effects), so a rule that holds on the
normal form holds on the source.  Inlined statements keep the line numbers of
the helper they came from, so reports still point into the real file."""
import ast
import copy
import json
import os

from .common import AnalysisError

HERE = os.path.dirname(os.path.abspath(__file__))
MAX_DEPTH = 4


def known_units():
    p = os.path.join(HERE, 'known_units.json')
    try:
        d = json.load(open(p))
    except Exception as e:
        raise AnalysisError('known_units.json unreadable: %s' % e)
    return ({m: set(v) for m, v in d['functions'].items()},
            {m: set(v) for m, v in d['globals'].items()})


class NotInlinable(Exception):
    pass


# ----------------------------------------------------------------------
# small ast helpers
def walk_shallow(nodes):
    """Nodes of a statement list without entering nested defs / classes /
    lambdas (those are yielded, not entered)."""
    stack = list(reversed(nodes))
    while stack:
        n = stack.pop()
        yield n
        if isinstance(n, (ast.FunctionDef, ast.AsyncFunctionDef, ast.ClassDef,
                          ast.Lambda)):
            continue
        stack.extend(reversed(list(ast.iter_child_nodes(n))))


def contains(nodes, types, shallow=True):
    it = walk_shallow(nodes) if shallow else (
        x for n in nodes for x in ast.walk(n))
    return any(isinstance(n, types) for n in it)


def has_call(e):
    return any(isinstance(n, (ast.Call, ast.Await, ast.Yield, ast.YieldFrom,
                              ast.NamedExpr))
               for n in ast.walk(e))


def eval_order(e, out=None):
    """Nodes of an expression in the order their evaluation *completes*."""
    out = [] if out is None else out
    if isinstance(e, (ast.Lambda, ast.GeneratorExp)):
        out.append(e)
        return out
    if isinstance(e, ast.IfExp):
        eval_order(e.test, out)
        eval_order(e.body, out)
        eval_order(e.orelse, out)
    elif isinstance(e, ast.Dict):
        for k, v in zip(e.keys, e.values):
            if k is not None:
                eval_order(k, out)
            eval_order(v, out)
    else:
        for c in ast.iter_child_nodes(e):
            if isinstance(c, (ast.expr_context, ast.operator, ast.boolop,
                              ast.unaryop, ast.cmpop)):
                continue
            eval_order(c, out)
    out.append(e)
    return out


def conditional_positions(e, acc=None, cond=False):
    """ids of sub-expressions that are only conditionally evaluated (right
    operands of and/or, arms of a conditional expression, comprehension
    bodies, lambda bodies)."""
    acc = set() if acc is None else acc
    if cond:
        acc.add(id(e))
    if isinstance(e, ast.BoolOp):
        for i, v in enumerate(e.values):
            conditional_positions(v, acc, cond or i > 0)
    elif isinstance(e, ast.IfExp):
        conditional_positions(e.test, acc, cond)
        conditional_positions(e.body, acc, True)
        conditional_positions(e.orelse, acc, True)
    elif isinstance(e, (ast.Lambda, ast.GeneratorExp, ast.ListComp,
                        ast.SetComp, ast.DictComp)):
        first = True
        for c in ast.iter_child_nodes(e):
            if isinstance(e, ast.Lambda):
                conditional_positions(c, acc, True)
            elif isinstance(c, ast.comprehension):
                conditional_positions(c.iter, acc, cond or not first)
                for x in c.ifs:
                    conditional_positions(x, acc, True)
                conditional_positions(c.target, acc, True)
                first = False
            else:
                conditional_positions(c, acc, True)
    else:
        for c in ast.iter_child_nodes(e):
            if isinstance(c, ast.AST) and not isinstance(
                    c, (ast.expr_context, ast.operator, ast.boolop,
                        ast.unaryop, ast.cmpop)):
                conditional_positions(c, acc, cond)
    return acc


class Subst(ast.NodeTransformer):
    """Replace loads of the given names by copies of expressions and rename
    bound names."""

    def __init__(self, exprs, renames):
        self.exprs = exprs
        self.renames = renames

    def visit_Name(self, n):
        if isinstance(n.ctx, ast.Load) and n.id in self.exprs:
            return copy.deepcopy(self.exprs[n.id])
        if n.id in self.renames:
            return ast.copy_location(
                ast.Name(id=self.renames[n.id], ctx=n.ctx), n)
        return n

    def visit_arg(self, n):
        if n.arg in self.renames:
            n.arg = self.renames[n.arg]
        return n


def replace_node(root, old, new):
    class R(ast.NodeTransformer):
        def visit(self, n):
            if n is old:
                return new
            return self.generic_visit(n)
    return R().visit(root)


def header_exprs(st):
    """Expressions evaluated once when the statement is reached, before any
    nested block runs (the places a hoisted temporary may feed)."""
    if isinstance(st, (ast.Expr, ast.Return)):
        return [st.value] if st.value is not None else []
    if isinstance(st, ast.Assign):
        return [st.value] + [t for t in st.targets
                             if not isinstance(t, ast.Name)]
    if isinstance(st, ast.AugAssign):
        return [st.value]
    if isinstance(st, ast.AnnAssign):
        return [st.value] if st.value is not None else []
    if isinstance(st, ast.If):
        return [st.test]
    if isinstance(st, ast.For):
        return [st.iter]
    if isinstance(st, ast.With):
        return [st.items[0].context_expr] if st.items else []
    if isinstance(st, ast.Raise):
        return [x for x in (st.exc, st.cause) if x is not None]
    if isinstance(st, ast.Assert):
        return [st.test]
    if isinstance(st, ast.Delete):
        return []
    return []


BLOCK_FIELDS = ('body', 'orelse', 'finalbody')


def sub_blocks(st):
    out = []
    for f in BLOCK_FIELDS:
        b = getattr(st, f, None)
        if isinstance(b, list) and b and isinstance(b[0], ast.stmt):
            out.append((st, f))
    if isinstance(st, ast.Try):
        for h in st.handlers:
            out.append((h, 'body'))
    if isinstance(st, ast.Match):
        for c in st.cases:
            out.append((c, 'body'))
    return out


# ----------------------------------------------------------------------
class Normalizer(object):
    def __init__(self, db):
        self.db = db
        self.known_funcs, self.known_globals = known_units()
        self.by_node = {id(f.node): f for f in db.funcs}
        self.cls_by_node = {id(c.node): c for c in db.classes}
        self.counter = 0
        self.stats = dict(inlined_calls=0, inlined_generators=0,
                          constants=0, copies=0, temps=0, helpers=set())
        self.unstable = self._unstable_attrs()

    # -- whole-program fact: attribute names stored outside __init__ ------
    def _unstable_attrs(self):
        un = set()
        for fi in self.db.funcs:
            if isinstance(fi.node, ast.Lambda):
                continue
            init = fi.name == '__init__'
            for n in walk_shallow(fi.node.body):
                tg = []
                if isinstance(n, ast.Assign):
                    tg = n.targets
                elif isinstance(n, (ast.AugAssign, ast.AnnAssign)):
                    tg = [n.target]
                elif isinstance(n, ast.Delete):
                    tg = n.targets
                elif isinstance(n, (ast.For, ast.comprehension)):
                    tg = [n.target]
                elif isinstance(n, ast.With):
                    tg = [i.optional_vars for i in n.items
                          if i.optional_vars is not None]
                elif isinstance(n, ast.Call) and isinstance(
                        n.func, ast.Name) and n.func.id == 'setattr' and \
                        len(n.args) >= 2 and isinstance(
                            n.args[1], ast.Constant):
                    un.add(n.args[1].value)
                for t in tg:
                    for x in ast.walk(t):
                        if isinstance(x, ast.Attribute) and isinstance(
                                x.ctx, (ast.Store, ast.Del)):
                            if init and isinstance(x.value, ast.Name) and \
                                    x.value.id == 'self' and isinstance(
                                        n, (ast.Assign, ast.AnnAssign)):
                                continue
                            un.add(x.attr)
        return un

    def is_known(self, fi):
        return fi.qualname in self.known_funcs.get(fi.module.name, ())

    def fresh(self, base):
        self.counter += 1
        return '%s__%d' % (base.strip('_') or 'v', self.counter)

    # ------------------------------------------------------------------
    def run(self):
        for m in self.db.modules.values():
            self.constants(m)
        for m in self.db.modules.values():
            self.visit_scope(m.tree, m, None, None)
        self.stats['helpers'] = sorted(self.stats['helpers'])
        self.stats['removed'] = self.remove_dead_helpers()
        return self.stats

    def remove_dead_helpers(self):
        """A helper every call of which was inlined is no longer part of the
        program: drop its definition so that whole-program rules do not see
        its body a second time."""
        removed = []
        for key in self.stats['helpers']:
            modname, qual = key.split(':')
            name = qual.split('.')[-1]
            m = self.db.modules[modname]
            target = None
            for f in self.db.funcs:
                if f.module is m and f.qualname == qual:
                    target = f
            if target is None:
                continue
            used = False
            # `self.name` inside a method of an unrelated class is that
            # class's own `name`, not this helper
            foreign = set()
            if target.cls is not None:
                for g in self.db.funcs:
                    if g.cls is None or g.cls is target.cls or \
                            isinstance(g.node, ast.Lambda) or \
                            not g.params or g.kind not in (
                                'instance', 'class', 'property'):
                        continue
                    if target.cls in self.db.mro(g.cls) or \
                            g.cls in self.db.mro(target.cls):
                        continue
                    for n in ast.walk(g.node):
                        if isinstance(n, ast.Attribute) and \
                                n.attr == name and isinstance(
                                    n.value, ast.Name) and \
                                n.value.id == g.params[0]:
                            foreign.add(id(n))
            for mm in self.db.modules.values():
                for n in ast.walk(mm.tree):
                    if n is target.node or id(n) in foreign:
                        continue
                    if isinstance(n, ast.Attribute) and n.attr == name:
                        used = True
                    elif isinstance(n, ast.Name) and n.id == name and \
                            isinstance(n.ctx, ast.Load):
                        used = True
                    elif isinstance(n, ast.Constant) and n.value == name:
                        used = True
            if used:
                # references from inside its own body do not count
                own = set(id(x) for x in ast.walk(target.node))
                used = False
                for mm in self.db.modules.values():
                    for n in ast.walk(mm.tree):
                        if id(n) in own or id(n) in foreign:
                            continue
                        if (isinstance(n, ast.Attribute) and n.attr == name)\
                                or (isinstance(n, ast.Name) and n.id == name
                                    and isinstance(n.ctx, ast.Load)) or (
                                        isinstance(n, ast.Constant)
                                        and n.value == name):
                            used = True
            if used:
                continue
            for mm in (m,):
                for parent in ast.walk(mm.tree):
                    for fld in ('body', 'orelse'):
                        b = getattr(parent, fld, None)
                        if isinstance(b, list) and target.node in b:
                            b.remove(target.node)
                            if not b:
                                b.append(ast.Pass())
                            removed.append(key)
        return removed

    # -- N2 ----------------------------------------------------------------
    def constants(self, m):
        known = self.known_globals.get(m.name, set())
        cands = {}
        for st in m.tree.body:
            if isinstance(st, ast.Assign) and len(st.targets) == 1 and \
                    isinstance(st.targets[0], ast.Name):
                nm = st.targets[0].id
                if nm in known or nm.startswith('__'):
                    continue
                if len(m.bindings.get(nm, [])) != 1:
                    continue
                v = st.value
                if isinstance(v, ast.Constant) and isinstance(
                        v.value, (int, float, str, bytes)) or \
                        self._is_re_compile(v):
                    cands[nm] = v
        if not cands:
            return
        # never rebound through `global`
        for n in ast.walk(m.tree):
            if isinstance(n, ast.Global):
                for nm in n.names:
                    cands.pop(nm, None)
        if not cands:
            return

        norm = self

        class C(ast.NodeTransformer):
            def __init__(self):
                self.shadow = [set()]

            def _func(self, n):
                loc = set(a.arg for a in ast.walk(n.args)
                          if isinstance(a, ast.arg))
                body = n.body if isinstance(n.body, list) else [n.body]
                for x in walk_shallow(body):
                    if isinstance(x, ast.Name) and isinstance(
                            x.ctx, (ast.Store, ast.Del)):
                        loc.add(x.id)
                self.shadow.append(self.shadow[-1] | loc)
                self.generic_visit(n)
                self.shadow.pop()
                return n
            visit_FunctionDef = visit_Lambda = _func

            def visit_Name(self, n):
                if isinstance(n.ctx, ast.Load) and n.id in cands and \
                        n.id not in self.shadow[-1]:
                    norm.stats['constants'] += 1
                    return ast.copy_location(copy.deepcopy(cands[n.id]), n)
                return n

            def visit_Call(self, n):
                self.generic_visit(n)
                # re.compile(P, ...).m(S, ...) -> re.m(P, S, ...)
                f = n.func
                if isinstance(f, ast.Attribute) and norm._is_re_compile(
                        f.value) and f.attr in ('match', 'search',
                                                'fullmatch', 'findall',
                                                'sub', 'split', 'finditer'):
                    comp = f.value
                    if len(comp.args) == 1 and not comp.keywords and \
                            not n.keywords:
                        return ast.copy_location(ast.Call(
                            func=ast.Attribute(value=comp.func.value,
                                               attr=f.attr, ctx=ast.Load()),
                            args=[comp.args[0]] + n.args, keywords=[]), n)
                return n
        for st in m.tree.body:
            if isinstance(st, ast.Assign) and len(st.targets) == 1 and \
                    isinstance(st.targets[0], ast.Name) and \
                    st.targets[0].id in cands:
                continue
            C().visit(st)
        ast.fix_missing_locations(m.tree)

    @staticmethod
    def _is_re_compile(v):
        return isinstance(v, ast.Call) and isinstance(
            v.func, ast.Attribute) and v.func.attr == 'compile' and \
            isinstance(v.func.value, ast.Name) and v.func.value.id == 're' \
            and v.args and all(isinstance(a, ast.Constant) for a in v.args) \
            and not v.keywords

    # ------------------------------------------------------------------
    def visit_scope(self, node, module, cls, func):
        """Walk defs; normalise each function body."""
        for st in getattr(node, 'body', []):
            if isinstance(st, ast.ClassDef):
                ci = self.cls_by_node.get(id(st))
                self.visit_scope(st, module, ci, func)
            elif isinstance(st, (ast.FunctionDef, ast.AsyncFunctionDef)):
                fi = self.by_node.get(id(st))
                if fi is not None:
                    self.norm_function(fi)
                self._nested(st, module, cls, fi)
            elif isinstance(st, (ast.If,)) and cls is not None:
                self.visit_scope(st, module, cls, func)
                self.visit_scope(ast.Module(body=st.orelse, type_ignores=[]),
                                 module, cls, func)

    def _nested(self, fnode, module, cls, fi):
        for n in walk_shallow(fnode.body):
            if isinstance(n, (ast.FunctionDef, ast.AsyncFunctionDef)):
                sub = self.by_node.get(id(n))
                if sub is not None:
                    self.norm_function(sub)
                self._nested(n, module, cls, sub)
            elif isinstance(n, ast.ClassDef):
                ci = self.cls_by_node.get(id(n))
                self.visit_scope(n, module, ci, fi)

    def norm_function(self, fi):
        node = fi.node
        if isinstance(node, ast.Lambda):
            return
        ctx = dict(fi=fi, names=self._all_names(node), stack=[fi])
        self._cur_fi = fi
        node.body = self.inline_block(node.body, ctx, 0)
        self.canonical_statements(node, fi, ctx)
        changed = True
        rounds = 0
        while changed and rounds < 20:
            rounds += 1
            changed = self.split_tuple_assigns(node)
            changed |= self.scalarise_records(node, fi, ctx)
            if self.scalarise_objects(node, fi, ctx):
                # calls through the object's methods are plain calls now
                node.body = self.inline_block(node.body, ctx, 0)
                changed = True
            if self.copy_prop(node):
                # a generator / helper call propagated into a loop header or
                # a call position can be inlined now
                node.body = self.inline_block(node.body, ctx, 0)
                changed = True
            if self.splice_stars(node):
                # f(*(a, b)) is f(a, b) now: a helper call that can be bound
                node.body = self.inline_block(node.body, ctx, 0)
                changed = True
            if self.canonical_statements(node, fi, ctx):
                # the canonical spelling may expose calls of helpers
                node.body = self.inline_block(node.body, ctx, 0)
                changed = True
        if not node.body:
            node.body = [ast.Pass()]
        ast.fix_missing_locations(node)

    # -- N25: zip of a sequence with a generator expression over it ------------
    def zip_same_source(self, st, before, fnode):
        """for a, p in zip(S, (E(x) for x in S)): B   ->   for a in S:
                                                              p = E(a); B
        The generator expression is lazy: zip takes the next a, then the
        expression takes the same element as x and computes E.  (A list
        comprehension computes every E first and is left alone.)  S is a
        plain name / attribute chain B does not rebind; the generator may
        also be a local bound by the statement just before and used nowhere
        else.  Returns (statements before, new loop) or None."""
        if not (isinstance(st, ast.For) and not st.orelse and
                isinstance(st.iter, ast.Call) and
                isinstance(st.iter.func, ast.Name) and
                st.iter.func.id == 'zip' and len(st.iter.args) == 2 and
                not st.iter.keywords and
                isinstance(st.target, (ast.Tuple, ast.List)) and
                len(st.target.elts) == 2 and
                isinstance(st.target.elts[0], ast.Name)):
            return None
        src, gen = st.iter.args
        pre = list(before)
        if isinstance(gen, ast.Name) and pre and isinstance(
                pre[-1], ast.Assign) and len(pre[-1].targets) == 1 and \
                isinstance(pre[-1].targets[0], ast.Name) and \
                pre[-1].targets[0].id == gen.id and isinstance(
                    pre[-1].value, ast.GeneratorExp):
            uses = [x for x in ast.walk(fnode) if isinstance(x, ast.Name)
                    and x.id == gen.id]
            if len(uses) != 2:
                return None
            gen = pre[-1].value
            pre = pre[:-1]
        if not isinstance(gen, ast.GeneratorExp) or len(
                gen.generators) != 1 or gen.generators[0].ifs or \
                gen.generators[0].is_async or not isinstance(
                    gen.generators[0].target, ast.Name):
            return None

        def plain(e):
            return isinstance(e, ast.Name) or (
                isinstance(e, ast.Attribute) and plain(e.value))
        if not plain(src) or ast.dump(src) != ast.dump(
                gen.generators[0].iter):
            return None
        root = src
        while isinstance(root, ast.Attribute):
            root = root.value
        if any(isinstance(x, ast.Name) and x.id == root.id and
               isinstance(x.ctx, ast.Store) for b in st.body
               for x in ast.walk(b)):
            return None
        a = st.target.elts[0]
        x = gen.generators[0].target.id
        elt = Subst({x: ast.Name(id=a.id, ctx=ast.Load())}, {}).visit(
            copy.deepcopy(gen.elt))
        first = ast.copy_location(ast.Assign(targets=[st.target.elts[1]],
                                             value=elt), st)
        loop = ast.copy_location(ast.For(target=a, iter=src,
                                         body=[first] + list(st.body),
                                         orelse=[]), st)
        ast.fix_missing_locations(loop)
        self.stats['zip_same'] = self.stats.get('zip_same', 0) + 1
        return pre, loop

    # -- N22: zip of a range with a generator ----------------------------------
    def zip_range_loop(self, st, ctx, fi):
        """for i, y in zip(range(a, b), G(..)): B
             ->  k = a
                 if k < b:
                     for y in G(..):
                         i = k;  B;  k = k + 1
                         if not k < b: break
           for y, i in zip(G(..), range(a, b)): B
             ->  k = a
                 for y in G(..):
                     if not k < b: break
                     i = k;  B;  k = k + 1
        zip advances its arguments left to right and stops at the first one
        that is exhausted: with the range first the generator is not advanced
        once the range has run out, with the generator first it is (and what
        it produced is dropped).  G must be a generator function of the
        program; B without `continue`; no else clause."""
        if not (isinstance(st, ast.For) and not st.orelse and
                isinstance(st.iter, ast.Call) and
                isinstance(st.iter.func, ast.Name) and
                st.iter.func.id == 'zip' and len(st.iter.args) == 2 and
                not st.iter.keywords and
                isinstance(st.target, (ast.Tuple, ast.List)) and
                len(st.target.elts) == 2) or 'zip' in self._locals(ctx):
            return None
        if contains(st.body, (ast.Continue,)):
            return None

        def range_args(e):
            if isinstance(e, ast.Call) and isinstance(e.func, ast.Name) and \
                    e.func.id == 'range' and not e.keywords and \
                    len(e.args) in (1, 2) and \
                    'range' not in self._locals(ctx) and not any(
                        has_call(a) or isinstance(a, ast.Starred)
                        for a in e.args):
                return ([ast.Constant(value=0)] + list(e.args))[-2:]
            return None

        def is_gen(e):
            if not isinstance(e, ast.Call):
                return False
            r = self.resolve_call(e, ctx)
            return r is not None and any(
                isinstance(x, (ast.Yield, ast.YieldFrom))
                for x in walk_shallow(r[0].node.body))
        a0, a1 = st.iter.args
        if range_args(a0) is not None and is_gen(a1):
            (lo, hi), gen, first = range_args(a0), a1, True
            ti, ty = st.target.elts
        elif range_args(a1) is not None and is_gen(a0):
            (lo, hi), gen, first = range_args(a1), a0, False
            ty, ti = st.target.elts
        else:
            return None
        k = self.fresh('k')
        ctx['names'].add(k)

        def name(ctx_):
            return ast.Name(id=k, ctx=ctx_)

        def below():
            return ast.Compare(left=name(ast.Load()), ops=[ast.Lt()],
                               comparators=[copy.deepcopy(hi)])
        init = ast.Assign(targets=[name(ast.Store())], value=lo)
        take = ast.Assign(targets=[ti], value=name(ast.Load()))
        step = ast.Assign(targets=[name(ast.Store())], value=ast.BinOp(
            left=name(ast.Load()), op=ast.Add(),
            right=ast.Constant(value=1)))
        stop = ast.If(test=ast.UnaryOp(op=ast.Not(), operand=below()),
                      body=[ast.Break()], orelse=[])
        if first:
            loop = ast.For(target=ty, iter=gen, body=[take] + list(st.body)
                           + [step, stop], orelse=[])
            new = [init, ast.If(test=below(), body=[loop], orelse=[])]
        else:
            loop = ast.For(target=ty, iter=gen, body=[stop, take] + list(
                st.body) + [step], orelse=[])
            new = [init, loop]
        for x in new:
            for y in ast.walk(x):
                if isinstance(y, (ast.stmt, ast.expr)) and \
                        not hasattr(y, 'lineno'):
                    ast.copy_location(y, st)
            ast.fix_missing_locations(x)
        self.stats['zip_loops'] = self.stats.get('zip_loops', 0) + 1
        return new

    # -- N19: an assignment expression evaluated unconditionally ---------------
    WALRUS_HEADS = {ast.If: 'test', ast.Expr: 'value', ast.Assign: 'value',
                    ast.Return: 'value', ast.AnnAssign: 'value'}

    def hoist_walrus(self, st):
        """if f(x := e): B   ->   x = e; if f(x): B
        when the assignment expression is always evaluated and everything
        evaluated before it is a plain name / constant / attribute chain that
        does not read x.  (Loop tests are left alone: the engines read those
        themselves.)"""
        field = self.WALRUS_HEADS.get(type(st))
        if field is None:
            return []
        e = getattr(st, field)
        if e is None or not any(isinstance(x, ast.NamedExpr)
                                for x in ast.walk(e)):
            return []
        order = eval_order(e)
        cond = conditional_positions(e)
        for k, n in enumerate(order):
            if not isinstance(n, ast.NamedExpr):
                continue
            if id(n) in cond or not isinstance(n.target, ast.Name):
                return []
            own = set(id(x) for x in ast.walk(n))
            for m in order[:k]:
                if id(m) in own:
                    continue
                if isinstance(m, ast.Name):
                    if m.id == n.target.id:
                        return []
                elif not isinstance(m, (ast.Constant, ast.Attribute)):
                    return []
            asg = ast.copy_location(ast.Assign(
                targets=[ast.Name(id=n.target.id, ctx=ast.Store())],
                value=n.value), st)
            use = ast.copy_location(ast.Name(id=n.target.id,
                                             ctx=ast.Load()), n)
            if e is n:
                setattr(st, field, use)
            else:
                replace_node(e, n, use)
            ast.fix_missing_locations(asg)
            self.stats['walrus'] = self.stats.get('walrus', 0) + 1
            return [asg]
        return []

    # -- N5: statement idioms with one canonical spelling ---------------------
    def canonical_statements(self, fnode, fi, ctx):
        """L.acquire(); try: B finally: L.release()   ->  with L: B
        with suppress(E...): B                        ->  try: B except E: pass
        for x in iter(f, S): B                        ->  while True:
                                                            x = f()
                                                            if x == S: break
                                                            B"""
        changed = [False]
        db = self.db

        def same(a, b):
            return ast.dump(a) == ast.dump(b)

        def lock_call(st, name):
            if isinstance(st, ast.Expr) and isinstance(st.value, ast.Call) \
                    and isinstance(st.value.func, ast.Attribute) and \
                    st.value.func.attr == name and not st.value.args and \
                    not st.value.keywords and not has_call(
                        st.value.func.value):
                return st.value.func.value
            return None

        def is_suppress(e):
            if not isinstance(e, ast.Call) or e.keywords or not e.args:
                return False
            try:
                ent = db.resolve_dotted(fi.module, e.func)
            except AnalysisError:
                return False
            return getattr(ent, 'dotted', None) == 'contextlib.suppress'

        def is_iter2(e):
            return isinstance(e, ast.Call) and isinstance(e.func, ast.Name) \
                and e.func.id == 'iter' and len(e.args) == 2 and \
                not e.keywords and 'iter' not in self._locals(ctx) and \
                not has_call(e.args[0]) and not has_call(e.args[1])

        def block(stmts):
            out = []
            i = 0
            while i < len(stmts):
                st = stmts[i]
                nxt = stmts[i + 1] if i + 1 < len(stmts) else None
                lk = lock_call(st, 'acquire')
                if lk is not None and isinstance(nxt, ast.Try) and \
                        not nxt.handlers and not nxt.orelse and \
                        len(nxt.finalbody) == 1:
                    rl = lock_call(nxt.finalbody[0], 'release')
                    if rl is not None and same(lk, rl):
                        w = ast.With(items=[ast.withitem(
                            context_expr=lk, optional_vars=None)],
                            body=nxt.body)
                        out.append(ast.copy_location(w, st))
                        changed[0] = True
                        i += 2
                        continue
                if isinstance(st, ast.With) and len(st.items) == 1 and \
                        st.items[0].optional_vars is None and \
                        is_suppress(st.items[0].context_expr):
                    args = st.items[0].context_expr.args
                    typ = args[0] if len(args) == 1 else ast.Tuple(
                        elts=list(args), ctx=ast.Load())
                    t = ast.Try(body=st.body, handlers=[ast.copy_location(
                        ast.ExceptHandler(type=typ, name=None, body=[
                            ast.copy_location(ast.Pass(), st)]), st)],
                        orelse=[], finalbody=[])
                    out.append(ast.copy_location(t, st))
                    changed[0] = True
                    i += 1
                    continue
                if isinstance(st, ast.For) and not st.orelse and \
                        is_iter2(st.iter) and not contains(
                            st.body, (ast.Continue,)):
                    f, sent = st.iter.args
                    call = ast.copy_location(ast.Call(func=f, args=[],
                                                      keywords=[]), st.iter)
                    tgt = st.target
                    fetch = ast.copy_location(ast.Assign(targets=[tgt],
                                                         value=call), st)
                    tload = copy.deepcopy(tgt)
                    for x in ast.walk(tload):
                        if hasattr(x, 'ctx'):
                            x.ctx = ast.Load()
                    stop = ast.copy_location(ast.If(test=ast.Compare(
                        left=tload, ops=[ast.Eq()], comparators=[sent]),
                        body=[ast.copy_location(ast.Break(), st)],
                        orelse=[]), st)
                    body = [b for b in st.body if not isinstance(b, ast.Pass)]
                    w = ast.While(test=ast.Constant(value=True),
                                  body=[fetch, stop] + body, orelse=[])
                    out.append(ast.copy_location(w, st))
                    changed[0] = True
                    i += 1
                    continue
                if isinstance(st, ast.Try) and not st.handlers and \
                        not st.orelse and st.finalbody and \
                        len(st.body) == 1 and isinstance(
                            st.body[0], ast.Try) and st.body[0].handlers \
                        and not st.body[0].finalbody:
                    # N18: try: (try: B except H: ..) finally: F  is one
                    # statement  try: B except H: .. finally: F
                    inner = st.body[0]
                    t = ast.Try(body=inner.body, handlers=inner.handlers,
                                orelse=inner.orelse, finalbody=st.finalbody)
                    out.append(ast.copy_location(t, st))
                    changed[0] = True
                    i += 1
                    continue
                rows = table_rows(st) if isinstance(st, ast.For) else None
                if rows is not None:
                    # N15: a loop over a constant table of the class / module
                    # is that many copies of its body, the loop variables
                    # replaced by the row's entries
                    names = [st.target.id] if isinstance(
                        st.target, ast.Name) else [t.id for t in
                                                   st.target.elts]
                    for row in rows:
                        sub = Subst(dict(zip(names, row)), {})
                        out.extend(sub.visit(b)
                                   for b in copy.deepcopy(st.body))
                    self.stats['table_loops'] = self.stats.get(
                        'table_loops', 0) + 1
                    changed[0] = True
                    i += 1
                    continue
                if isinstance(st, ast.For) and is_stage_loop(st):
                    for e in st.iter.elts:
                        nm = self.fresh(st.target.id)
                        ctx['names'].add(nm)
                        out.append(ast.copy_location(ast.Assign(
                            targets=[ast.Name(id=nm, ctx=ast.Store())],
                            value=e), st))
                        sub = Subst({}, {st.target.id: nm})
                        out.extend(sub.visit(b)
                                   for b in copy.deepcopy(st.body))
                    changed[0] = True
                    i += 1
                    continue
                zs = self.zip_same_source(st, out, fnode)
                if zs is not None:
                    out[:] = zs[0]
                    out.append(zs[1])
                    changed[0] = True
                    i += 1
                    continue
                zr = self.zip_range_loop(st, ctx, fi)
                if zr is not None:
                    out.extend(zr)
                    changed[0] = True
                    i += 1
                    continue
                pre = self.hoist_walrus(st)
                if pre:
                    out.extend(pre)
                    changed[0] = True
                out.append(st)
                i += 1
            for st in out:
                if isinstance(st, (ast.FunctionDef, ast.AsyncFunctionDef,
                                   ast.ClassDef)):
                    continue
                for owner, f in sub_blocks(st):
                    setattr(owner, f, block(getattr(owner, f)))
            return out

        def ext(e):
            try:
                return getattr(db.resolve_dotted(fi.module, e), 'dotted',
                               None)
            except AnalysisError:
                return None

        def unshadowed(e):
            try:
                return db.resolve_dotted(fi.module, e) is None
            except AnalysisError:
                return False

        def plain(e, first=False):
            # `first`: evaluated before any stage has run, so what it reads
            # cannot have been changed by an earlier stage
            if isinstance(e, (ast.Constant, ast.Name)):
                return True
            if isinstance(e, ast.Attribute):
                return (first or e.attr not in self.unstable) and \
                    plain(e.value, first)
            return False

        def stage(e, first=False):
            if plain(e, first) and not isinstance(e, ast.Constant):
                return True
            if isinstance(e, ast.Lambda):
                return True
            return isinstance(e, ast.Call) and isinstance(
                e.func, (ast.Name, ast.Attribute)) and \
                ext(e.func) == 'functools.partial' and all(
                    plain(a, first) for a in e.args) and all(
                        k.arg is not None and plain(k.value, first)
                        for k in e.keywords)

        def table_value(e):
            """the literal a loop iterates when it names a constant of the
            method's class (cls.X, self.X, Class.X) or of the module that
            nothing in the package rebinds or overrides"""
            from .srcdb import ClassInfo
            locs = me._locals(ctx)
            if isinstance(e, ast.Name):
                if e.id in locs:
                    return None
                try:
                    ent = db.resolve_dotted(fi.module, e)
                except AnalysisError:
                    return None
                if isinstance(ent, tuple) and ent[0] == 'value' and \
                        len(fi.module.bindings.get(e.id, [])) == 1:
                    return ent[1], None
                return None
            if isinstance(e, ast.Attribute) and isinstance(e.value,
                                                           ast.Name):
                ci = None
                b = e.value.id
                if fi.cls is not None and fi.params and b == fi.params[0] \
                        and fi.kind in ('class', 'instance') and \
                        b not in (locs - set(fi.params)):
                    ci = fi.cls
                elif b not in locs:
                    try:
                        ent = db.deref(db.resolve_dotted(fi.module, e.value))
                    except AnalysisError:
                        ent = None
                    if isinstance(ent, ClassInfo):
                        ci = ent
                if ci is None:
                    return None
                defs = ci.attrs.get(e.attr)
                if not defs or len(defs) != 1 or defs[0].kind != 'assign':
                    return None
                if any(e.attr in k.attrs for k in db.subclasses(ci)):
                    return None     # a subclass may bring its own table
                return defs[0].value, ci
            return None

        def table_elem(x, ci):
            """an entry that means the same written inside the method"""
            locs = me._locals(ctx)
            if isinstance(x, ast.Constant):
                return True
            if isinstance(x, ast.Name):
                if x.id in locs or (ci is not None and x.id in ci.attrs):
                    return False
                return True
            if isinstance(x, ast.Attribute):
                return table_elem(x.value, ci)
            if isinstance(x, ast.Lambda):
                bound = {a.arg for a in ast.walk(x.args)
                         if isinstance(a, ast.arg)}
                return all(table_elem(n, ci) for n in ast.walk(x.body)
                           if isinstance(n, ast.Name) and n.id not in bound)
            if isinstance(x, ast.Call) and isinstance(
                    x.func, (ast.Name, ast.Attribute)) and ext(x.func) in (
                        'operator.attrgetter', 'operator.itemgetter',
                        'operator.methodcaller', 'functools.partial'):
                return all(table_elem(a, ci) for a in x.args) and all(
                    k.arg is not None and table_elem(k.value, ci)
                    for k in x.keywords)
            if isinstance(x, ast.Call) and me.namedtuple_fields(
                    x.func, fi.module) is not None and \
                    table_elem(x.func, ci):
                # a record of constants: a tuple, the same wherever built
                return all(isinstance(a, ast.Constant) for a in x.args) and \
                    all(k.arg is not None and isinstance(
                        k.value, ast.Constant) for k in x.keywords)
            return False

        def table_rows(st):
            if st.orelse or contains(st.body, (
                    ast.Break, ast.Continue, ast.Yield, ast.YieldFrom)):
                return None
            tv = table_value(st.iter)
            if tv is None:
                return None
            val, ci = tv
            if not isinstance(val, (ast.Tuple, ast.List)) or \
                    not (1 <= len(val.elts) <= 8) or len(st.body) > 6:
                return None
            if isinstance(st.target, ast.Name):
                names = [st.target.id]
                rows = [[e] for e in val.elts]
            elif isinstance(st.target, ast.Tuple) and all(
                    isinstance(t, ast.Name) for t in st.target.elts):
                names = [t.id for t in st.target.elts]
                rows = []
                for e in val.elts:
                    if not isinstance(e, ast.Tuple) or \
                            len(e.elts) != len(names):
                        return None
                    rows.append(list(e.elts))
            else:
                return None
            if not all(table_elem(x, ci) for r in rows for x in r):
                return None
            mine = set(id(x) for x in ast.walk(st))
            for nm in names:
                if any(isinstance(x, ast.Name) and x.id == nm and isinstance(
                        x.ctx, ast.Store) for b in st.body
                        for x in ast.walk(b)):
                    return None
                if any(isinstance(x, ast.Name) and x.id == nm and
                       id(x) not in mine for x in ast.walk(fnode)):
                    return None
            return rows

        def table_rows_expr(fake, gen):
            """table_rows for a generator expression: the loop variables must
            not be used outside it"""
            tv = table_value(fake.iter)
            if tv is None:
                return None
            val, ci = tv
            if not isinstance(val, (ast.Tuple, ast.List)) or \
                    not (1 <= len(val.elts) <= 8):
                return None
            t = fake.target
            if isinstance(t, ast.Name):
                rows = [[e] for e in val.elts]
            elif isinstance(t, ast.Tuple) and all(
                    isinstance(x, ast.Name) for x in t.elts):
                rows = []
                for e in val.elts:
                    if not isinstance(e, ast.Tuple) or \
                            len(e.elts) != len(t.elts):
                        return None
                    rows.append(list(e.elts))
            else:
                return None
            if not all(table_elem(x, ci) for r in rows for x in r):
                return None
            return rows

        def fold_consts(e):
            """constant conditions a substituted table row leaves behind:
            `458 is None`, `None is None or X`, `not True`"""
            if isinstance(e, ast.Compare) and len(e.ops) == 1 and \
                    isinstance(e.left, ast.Constant) and isinstance(
                        e.comparators[0], ast.Constant):
                a, b = e.left.value, e.comparators[0].value
                op = e.ops[0]
                if isinstance(op, ast.Is):
                    if a is None or b is None or isinstance(a, bool) or \
                            isinstance(b, bool):
                        return ast.Constant(value=a is b)
                elif isinstance(op, ast.IsNot):
                    if a is None or b is None or isinstance(a, bool) or \
                            isinstance(b, bool):
                        return ast.Constant(value=a is not b)
                elif isinstance(op, ast.Eq):
                    return ast.Constant(value=a == b)
                elif isinstance(op, ast.NotEq):
                    return ast.Constant(value=a != b)
                return e
            if isinstance(e, ast.UnaryOp) and isinstance(e.op, ast.Not):
                v = fold_consts(e.operand)
                if isinstance(v, ast.Constant) and isinstance(v.value, bool):
                    return ast.Constant(value=not v.value)
                return ast.UnaryOp(op=ast.Not(), operand=v)
            if isinstance(e, ast.BoolOp):
                vals = [fold_consts(v) for v in e.values]
                is_and = isinstance(e.op, ast.And)
                out = []
                for v in vals:
                    if isinstance(v, ast.Constant) and isinstance(
                            v.value, bool):
                        if v.value is (not is_and):
                            # True in an `or` / False in an `and`: decided,
                            # provided nothing before it had an effect
                            if not out:
                                return ast.Constant(value=v.value)
                            out.append(v)
                            break
                        continue        # neutral element
                    out.append(v)
                if not out:
                    return ast.Constant(value=is_and)
                if len(out) == 1:
                    return out[0]
                return ast.BoolOp(op=e.op, values=out)
            return e

        def is_stage_loop(st):
            # for f in (stage, stage, ...): ... f(...) ...   -- a pipeline
            # of callables, run in order: that many copies of the body
            if st.orelse or not isinstance(st.iter, (ast.Tuple, ast.List)) \
                    or not isinstance(st.target, ast.Name):
                return False
            elts = st.iter.elts
            if not (1 <= len(elts) <= 6) or len(st.body) > 4 or \
                    not all(stage(e, i == 0) for i, e in enumerate(elts)):
                return False
            if contains(st.body, (ast.Break, ast.Continue, ast.Return,
                                  ast.Yield, ast.YieldFrom)):
                return False
            nm = st.target.id
            if any(isinstance(x, ast.Name) and x.id == nm and isinstance(
                    x.ctx, ast.Store) for b in st.body for x in ast.walk(b)):
                return False
            mine = set(id(x) for x in ast.walk(st))
            if any(isinstance(x, ast.Name) and x.id == nm and
                   id(x) not in mine for x in ast.walk(fnode)):
                return False        # the last value is read after the loop
            return any(isinstance(x, ast.Call) and isinstance(
                x.func, ast.Name) and x.func.id == nm
                for b in st.body for x in ast.walk(b))

        class E(ast.NodeTransformer):
            def visit_FunctionDef(self, n):
                return n if n is not fnode else self.generic_visit(n)
            visit_AsyncFunctionDef = visit_FunctionDef

            def visit_ListComp(self, n):
                # [E for row in TABLE] over a constant table is the list of
                # its instances (a list comprehension is eager anyway)
                self.generic_visit(n)
                if len(n.generators) == 1 and not n.generators[0].ifs and \
                        not n.generators[0].is_async:
                    g = n.generators[0]
                    fake = ast.For(target=g.target, iter=g.iter, body=[],
                                   orelse=[])
                    rows = table_rows_expr(fake, n)
                    if rows is not None:
                        names = [g.target.id] if isinstance(
                            g.target, ast.Name) else [t.id for t in
                                                      g.target.elts]
                        elts = []
                        for row in rows:
                            sub = Subst(dict(zip(names, row)), {})
                            elts.append(self.visit(sub.visit(
                                copy.deepcopy(n.elt))))
                        changed[0] = True
                        return ast.copy_location(
                            ast.List(elts=elts, ctx=ast.Load()), n)
                return n

            def visit_Call(self, n):
                self.generic_visit(n)
                f = n.func
                # partial(g, a..)(b..)  ->  g(a.., b..)
                if isinstance(f, ast.Call) and isinstance(
                        f.func, (ast.Name, ast.Attribute)) and f.args and \
                        ext(f.func) == 'functools.partial' and not (
                            set(k.arg for k in f.keywords)
                            & set(k.arg for k in n.keywords)) and all(
                                k.arg is not None
                                for k in f.keywords + n.keywords):
                    changed[0] = True
                    return ast.copy_location(ast.Call(
                        func=f.args[0], args=f.args[1:] + n.args,
                        keywords=f.keywords + n.keywords), n)
                # struct.Struct(F).pack(a..) -> struct.pack(F, a..), etc.
                if isinstance(f, ast.Attribute) and f.attr in (
                        'pack', 'unpack', 'unpack_from', 'pack_into',
                        'iter_unpack') and isinstance(f.value, ast.Call) \
                        and isinstance(f.value.func, (ast.Name,
                                                      ast.Attribute)) and \
                        ext(f.value.func) == 'struct.Struct' and \
                        len(f.value.args) == 1 and not f.value.keywords:
                    changed[0] = True
                    base = f.value.func
                    mod = base.value if isinstance(base, ast.Attribute) \
                        else None
                    if mod is not None:
                        return ast.copy_location(ast.Call(
                            func=ast.Attribute(value=mod, attr=f.attr,
                                               ctx=ast.Load()),
                            args=[f.value.args[0]] + n.args,
                            keywords=n.keywords), n)
                # next(E for row in TABLE if C [, default]) over a constant
                # table: the first row whose condition holds -- a chain of
                # conditional expressions (N16)
                if isinstance(f, ast.Name) and f.id == 'next' and \
                        unshadowed(f) and 'next' not in me._locals(ctx) and \
                        1 <= len(n.args) <= 2 and not n.keywords and \
                        isinstance(n.args[0], ast.GeneratorExp) and \
                        len(n.args[0].generators) == 1 and \
                        not n.args[0].generators[0].is_async:
                    g = n.args[0].generators[0]
                    fake = ast.For(target=g.target, iter=g.iter,
                                   body=[ast.Expr(value=n.args[0].elt)],
                                   orelse=[])
                    rows = table_rows_expr(fake, n.args[0])
                    if rows is not None:
                        names = [g.target.id] if isinstance(
                            g.target, ast.Name) else [t.id for t in
                                                      g.target.elts]
                        chain = n.args[1] if len(n.args) == 2 else None
                        ok = True
                        for row in reversed(rows):
                            sub = Subst(dict(zip(names, row)), {})
                            cond = None
                            for c in g.ifs:
                                c2 = sub.visit(copy.deepcopy(c))
                                cond = c2 if cond is None else ast.BoolOp(
                                    op=ast.And(), values=[cond, c2])
                            cond = fold_consts(cond) if cond is not None \
                                else ast.Constant(value=True)
                            val = sub.visit(copy.deepcopy(n.args[0].elt))
                            if isinstance(cond, ast.Constant) and cond.value \
                                    is True:
                                chain = val
                            elif isinstance(cond, ast.Constant) and \
                                    cond.value is False:
                                pass
                            elif chain is None:
                                ok = False      # may run off the end
                                break
                            else:
                                chain = ast.IfExp(test=cond, body=val,
                                                  orelse=chain)
                        if ok and chain is not None:
                            changed[0] = True
                            return ast.copy_location(chain, n)
                # (lambda p..: E)(a..)  ->  E[a../p..]  for plain arguments
                if isinstance(f, ast.Lambda) and not n.keywords and \
                        not f.args.vararg and not f.args.kwarg and \
                        not f.args.kwonlyargs and not f.args.defaults and \
                        len(f.args.args) == len(n.args) and all(
                            plain(a, True) for a in n.args):
                    changed[0] = True
                    sub = Subst({p.arg: a for p, a in
                                 zip(f.args.args, n.args)}, {})
                    return ast.copy_location(
                        sub.visit(copy.deepcopy(f.body)), n)
                # attrgetter('k')(x) -> x.k ; itemgetter(c)(x) -> x[c]
                if isinstance(f, ast.Call) and isinstance(
                        f.func, (ast.Name, ast.Attribute)) and \
                        len(f.args) == 1 and not f.keywords and \
                        len(n.args) == 1 and not n.keywords and isinstance(
                            f.args[0], ast.Constant):
                    which = ext(f.func)
                    k = f.args[0].value
                    if which == 'operator.attrgetter' and isinstance(
                            k, str) and k.isidentifier():
                        changed[0] = True
                        return ast.copy_location(ast.Attribute(
                            value=n.args[0], attr=k, ctx=ast.Load()), n)
                    if which == 'operator.itemgetter':
                        changed[0] = True
                        return ast.copy_location(ast.Subscript(
                            value=n.args[0], slice=f.args[0],
                            ctx=ast.Load()), n)
                # getattr(o, 'name')  ->  o.name
                if isinstance(f, ast.Name) and f.id == 'getattr' and \
                        len(n.args) == 2 and not n.keywords and \
                        isinstance(n.args[1], ast.Constant) and isinstance(
                            n.args[1].value, str) and \
                        n.args[1].value.isidentifier() and \
                        'getattr' not in me._locals(ctx) and \
                        unshadowed(f):
                    changed[0] = True
                    return ast.copy_location(ast.Attribute(
                        value=n.args[0], attr=n.args[1].value,
                        ctx=ast.Load()), n)
                return n
        class A(ast.NodeTransformer):
            # struct.Struct('<fmt>').size is a constant
            def visit_FunctionDef(self, n):
                return n if n is not fnode else self.generic_visit(n)
            visit_AsyncFunctionDef = visit_FunctionDef

            def visit_Attribute(self, n):
                self.generic_visit(n)
                v = n.value
                if n.attr == 'size' and isinstance(n.ctx, ast.Load) and \
                        isinstance(v, ast.Call) and isinstance(
                            v.func, (ast.Name, ast.Attribute)) and \
                        ext(v.func) == 'struct.Struct' and \
                        len(v.args) == 1 and isinstance(
                            v.args[0], ast.Constant) and isinstance(
                                v.args[0].value, (str, bytes)):
                    import struct as _struct
                    try:
                        size = _struct.calcsize(v.args[0].value)
                    except _struct.error:
                        return n
                    changed[0] = True
                    return ast.copy_location(ast.Constant(value=size), n)
                return n
        me = self
        fnode.body = block(fnode.body)
        E().visit(fnode)
        A().visit(fnode)
        if changed[0]:
            ast.fix_missing_locations(fnode)
            self.stats['idioms'] = self.stats.get('idioms', 0) + 1
        return changed[0]

    # -- N4: argument lists ---------------------------------------------------
    def splice_stars(self, fnode):
        """f(*(a, b)) is f(a, b); f(*(A if c else B)) with literal A, B is
        f(*A) if c else f(*B) when nothing with an effect is evaluated before
        c; as a statement, that is `if c: f(*A) / else: f(*B)`."""
        changed = [False]
        me = self

        def pure_prefix(call, star):
            # everything evaluated before the starred argument
            parts = [call.func]
            for a in call.args:
                if a is star:
                    break
                parts.append(a)
            return not any(has_call(x) for x in parts)

        class T(ast.NodeTransformer):
            def visit_FunctionDef(self, n):
                return n if n is not fnode else self.generic_visit(n)
            visit_AsyncFunctionDef = visit_FunctionDef

            def visit_Lambda(self, n):
                return n

            def visit_Call(self, n):
                self.generic_visit(n)
                if isinstance(n.func, ast.IfExp):
                    # (A if c else B)(x) is A(x) if c else B(x): the test
                    # is evaluated first either way
                    f = n.func
                    changed[0] = True
                    return ast.copy_location(ast.IfExp(
                        test=f.test,
                        body=self.visit_Call(ast.copy_location(ast.Call(
                            func=f.body, args=copy.deepcopy(n.args),
                            keywords=copy.deepcopy(n.keywords)), n)),
                        orelse=self.visit_Call(ast.copy_location(ast.Call(
                            func=f.orelse, args=copy.deepcopy(n.args),
                            keywords=copy.deepcopy(n.keywords)), n))), n)
                for i, a in enumerate(n.args):
                    if not isinstance(a, ast.Starred):
                        continue
                    v = a.value
                    if isinstance(v, (ast.Tuple, ast.List)) and not any(
                            isinstance(x, ast.Starred) for x in v.elts):
                        n.args[i:i + 1] = v.elts
                        changed[0] = True
                        return self.visit_Call(n)
                    if isinstance(v, ast.IfExp) and all(
                            isinstance(x, (ast.Tuple, ast.List))
                            for x in (v.body, v.orelse)) and \
                            pure_prefix(n, a) and not has_call(v.test):
                        def arm(x):
                            c = copy.deepcopy(n)
                            c.args[i] = ast.Starred(value=copy.deepcopy(x),
                                                    ctx=ast.Load())
                            return self.visit_Call(c)
                        changed[0] = True
                        return ast.copy_location(ast.IfExp(
                            test=v.test, body=arm(v.body),
                            orelse=arm(v.orelse)), n)
                return n
        T().visit(fnode)

        # an expression statement that is a conditional expression of calls
        def blocks(owner):
            for f in BLOCK_FIELDS:
                b = getattr(owner, f, None)
                if isinstance(b, list) and b and isinstance(b[0], ast.stmt):
                    yield owner, f
            for h in getattr(owner, 'handlers', []) or []:
                yield h, 'body'
        work = [fnode]
        while work:
            o = work.pop()
            for owner, f in blocks(o):
                out = []
                for st in getattr(owner, f):
                    if isinstance(st, ast.Expr) and isinstance(
                            st.value, ast.IfExp) and all(
                                isinstance(x, ast.Call)
                                for x in (st.value.body, st.value.orelse)):
                        v = st.value
                        st = ast.copy_location(ast.If(
                            test=v.test,
                            body=[ast.copy_location(ast.Expr(value=v.body),
                                                    st)],
                            orelse=[ast.copy_location(
                                ast.Expr(value=v.orelse), st)]), st)
                        changed[0] = True
                    out.append(st)
                    if not isinstance(st, (ast.FunctionDef, ast.ClassDef,
                                           ast.AsyncFunctionDef)):
                        work.append(st)
                setattr(owner, f, out)
        if changed[0]:
            self.stats['stars'] = self.stats.get('stars', 0) + 1
        return changed[0]

    @staticmethod
    def _all_names(fnode):
        s = set()
        for n in ast.walk(fnode):
            if isinstance(n, ast.Name):
                s.add(n.id)
            elif isinstance(n, ast.arg):
                s.add(n.arg)
        return s

    # -- N1 ----------------------------------------------------------------
    def resolve_call(self, call, ctx):
        """FuncInfo of an in-repo, statically unique, not-known callee, plus
        the expression bound to its first parameter (or None)."""
        fi = ctx['fi']
        db = self.db
        f = call.func
        recv = None
        target = None
        owner = fi
        while owner is not None and owner.cls is None and \
                owner.outer is not None:
            owner = owner.outer
        cls = owner.cls if owner is not None else None
        recv_name = None
        if cls is not None and owner.kind in ('instance', 'class',
                                              'class_and_instance',
                                              'property') and owner.params:
            recv_name = owner.params[0]
        if isinstance(f, ast.Attribute) and isinstance(f.value, ast.Name) \
                and recv_name is not None and f.value.id == recv_name and \
                owner is fi:
            target = db.find_method(cls, f.attr)
            if target is None:
                return None
            # dynamic dispatch: no subclass may rebind the name
            for sub in db.subclasses(cls):
                if f.attr in sub.attrs:
                    return None
            if target.kind in ('instance', 'class', 'class_and_instance'):
                if owner.kind == 'class' and target.kind == 'instance':
                    return None
                recv = f.value
        elif isinstance(f, ast.Attribute) and isinstance(
                f.value, ast.Name) and f.value.id in self.object_locals(ctx):
            # a method of a small in-repo object that lives in this local
            # and nowhere else (N23)
            ci = self.object_locals(ctx)[f.value.id]
            target = db.find_method(ci, f.attr)
            if target is None or target.kind != 'instance' or \
                    target.cls is not ci:
                return None
            recv = f.value
        elif isinstance(f, (ast.Name, ast.Attribute)):
            try:
                ent = db.resolve_dotted(fi.module, f, class_scope=None)
            except AnalysisError:
                return None
            ent = db.deref(ent) if isinstance(ent, tuple) else ent
            if isinstance(f, ast.Name) and f.id in self._locals(ctx):
                return None
            if ent.__class__.__name__ != 'FuncInfo':
                return None
            target = ent
            if target.kind == 'class' and isinstance(f, ast.Attribute):
                recv = f.value
            elif target.kind == 'class_and_instance':
                return None
        else:
            return None
        if target is None or self.is_known(target):
            return None
        if target.module is not fi.module:
            return None
        if isinstance(target.node, ast.Lambda) or target.outer is not None:
            return None
        if target.kind not in ('function', 'instance', 'static', 'class'):
            return None
        if any(t is target for t in ctx['stack']):
            return None
        exp = ctx.setdefault('expanded', {})
        if exp.get(id(target), 0) > 6:
            return None
        return target, recv

    def resolve_prop(self, node, ctx):
        """`self.<p>` read in a method, p a property of the class that is
        not a known unit and that no subclass rebinds: (getter, self)."""
        fi = ctx['fi']
        db = self.db
        if not (isinstance(node, ast.Attribute) and isinstance(
                node.ctx, ast.Load) and isinstance(node.value, ast.Name)):
            return None
        if fi.cls is None or not fi.params or fi.kind not in (
                'instance', 'property') or node.value.id != fi.params[0]:
            return None
        if node.value.id in ctx.get('rebound_self', ()):
            return None
        ad = db.find_attr(fi.cls, node.attr)
        if ad is None or ad.kind != 'def' or ad.value.kind != 'property':
            return None
        target = ad.value
        if len([d for d in ad.owner.attrs.get(node.attr, [])]) != 1:
            return None
        for sub in db.subclasses(fi.cls):
            if node.attr in sub.attrs:
                return None
        if self.is_known(target) or target.module is not fi.module:
            return None
        if any(t is target for t in ctx['stack']) or target is fi:
            return None
        exp = ctx.setdefault('expanded', {})
        if exp.get(id(target), 0) > 6:
            return None
        return target, node.value

    def object_locals(self, ctx):
        """{local name: class} for locals bound once, to `C(...)` with C a
        small plain class of this module (no bases, no subclasses, only
        ordinary methods), and mentioned otherwise only as `v.name`: the
        object cannot be seen from anywhere else."""
        key = '_objlocals'
        if key in ctx:
            return ctx[key]
        out = ctx[key] = {}
        fi = ctx['fi']
        fnode = fi.node
        if isinstance(fnode, ast.Lambda):
            return out
        db = self.db
        par = {}
        for x in ast.walk(fnode):
            for c in ast.iter_child_nodes(x):
                par[id(c)] = x
        nested = set()
        for x in ast.walk(fnode):
            if x is not fnode and isinstance(x, (
                    ast.FunctionDef, ast.AsyncFunctionDef, ast.Lambda,
                    ast.ClassDef, ast.ListComp, ast.SetComp, ast.DictComp,
                    ast.GeneratorExp)):
                nested.update(y.id for y in ast.walk(x)
                              if isinstance(y, ast.Name))
        names = {}
        for x in ast.walk(fnode):
            if isinstance(x, ast.Name):
                names.setdefault(x.id, []).append(x)
        params = set(a.arg for a in ast.walk(fnode.args)
                     if isinstance(a, ast.arg))
        for v, occ in names.items():
            if v in nested or v in params:
                continue
            stores = [x for x in occ if isinstance(x.ctx, (ast.Store,
                                                           ast.Del))]
            if len(stores) != 1:
                continue
            a = par.get(id(stores[0]))
            if not (isinstance(a, ast.Assign) and len(a.targets) == 1 and
                    a.targets[0] is stores[0] and
                    isinstance(a.value, ast.Call) and
                    isinstance(a.value.func, ast.Name)):
                continue
            try:
                ci = db.deref(db.resolve_dotted(fi.module, a.value.func))
            except AnalysisError:
                continue
            if ci.__class__.__name__ != 'ClassInfo' or \
                    ci.module is not fi.module or a.value.func.id in \
                    self._locals(ctx):
                continue
            if [b for b in (ci.bases or []) if getattr(
                    b, 'dotted', None) not in ('object', 'builtins.object')] \
                    or db.subclasses(ci) or ci.node.keywords or \
                    ci.node.decorator_list:
                continue
            okk = True
            for nm, defs in ci.attrs.items():
                d = defs[-1]
                if d.kind == 'def':
                    if d.value.kind != 'instance' or \
                            d.value.node.decorator_list or (
                                nm.startswith('__') and nm != '__init__'):
                        okk = False
                elif d.kind == 'assign':
                    if nm not in ('__slots__', '__doc__'):
                        okk = False
                else:
                    okk = False
            if not okk:
                continue
            if all(isinstance(par.get(id(u)), ast.Attribute) and
                   par[id(u)].value is u
                   for u in occ if u is not stores[0]):
                out[v] = ci
        return out

    def scalarise_objects(self, fnode, fi, ctx):
        """N23: v = C(args) for an object local (see object_locals) whose
        method calls have all been inlined: the constructor's body in its
        place, and every `v.name` a local `v_name`."""
        ctx.pop('_objlocals', None)
        ctx.pop('_locals', None)
        objs = self.object_locals(ctx)
        for v, ci in sorted(objs.items()):
            par = {}
            for x in ast.walk(fnode):
                for c in ast.iter_child_nodes(x):
                    par[id(c)] = x
            uses = [x for x in ast.walk(fnode) if isinstance(x, ast.Name)
                    and x.id == v]
            attrs = [par[id(u)] for u in uses
                     if isinstance(par.get(id(u)), ast.Attribute)]
            if any(isinstance(par.get(id(a)), ast.Call) and
                   par[id(a)].func is a for a in attrs):
                continue        # a method call that was not inlined
            if any(a.attr in ci.attrs and ci.attrs[a.attr][-1].kind == 'def'
                   for a in attrs):
                continue        # a bound method taken as a value
            store = [u for u in uses if isinstance(u.ctx, ast.Store)][0]
            asg = par[id(store)]
            init = self.db.find_method(ci, '__init__')
            new = []
            if init is not None:
                if contains(init.node.body, (ast.Return, ast.Yield,
                                             ast.YieldFrom)):
                    continue
                try:
                    prefix, body = self.instantiate(
                        init, ast.Name(id=v, ctx=ast.Load()), asg.value, ctx)
                except NotInlinable:
                    continue
                new = prefix + body
            elif asg.value.args or asg.value.keywords:
                continue
            names = {}

            def local(attr):
                if attr not in names:
                    nm = '%s_%s' % (v, attr)
                    if nm in ctx['names']:
                        nm = self.fresh(nm)
                    ctx['names'].add(nm)
                    names[attr] = nm
                return names[attr]
            placed = False
            for owner, f, block in self._blocks(fnode):
                for k, b in enumerate(block):
                    if b is asg:
                        block[k:k + 1] = new or [ast.copy_location(
                            ast.Pass(), asg)]
                        placed = True
                        break
                if placed:
                    break
            if not placed:
                continue
            for x in list(ast.walk(fnode)):
                if isinstance(x, ast.Attribute) and isinstance(
                        x.value, ast.Name) and x.value.id == v:
                    replace_node(fnode, x, ast.copy_location(ast.Name(
                        id=local(x.attr), ctx=x.ctx), x))
            self.stats['objects'] = self.stats.get('objects', 0) + 1
            ast.fix_missing_locations(fnode)
            ctx.pop('_objlocals', None)
            ctx.pop('_locals', None)
            return True
        return False

    def _locals(self, ctx):
        key = '_locals'
        if key not in ctx:
            node = ctx['fi'].node
            loc = set(a.arg for a in ast.walk(node.args)
                      if isinstance(a, ast.arg))
            for x in walk_shallow(node.body):
                if isinstance(x, ast.Name) and isinstance(
                        x.ctx, (ast.Store, ast.Del)):
                    loc.add(x.id)
            ctx[key] = loc
        return ctx[key]

    def bind_args(self, target, recv, call):
        """param name -> argument expression (defaults filled in)."""
        a = target.node.args
        if a.vararg or a.kwarg or a.kwonlyargs and any(
                d is None for d in a.kw_defaults):
            pass
        if a.kwarg:
            raise NotInlinable('variadic helper')
        if any(isinstance(x, ast.Starred) for x in call.args) or any(
                k.arg is None for k in call.keywords):
            raise NotInlinable('star arguments')
        params = [x.arg for x in a.posonlyargs + a.args]
        defaults = dict(zip(params[len(params) - len(a.defaults):],
                            a.defaults))
        for x, d in zip(a.kwonlyargs, a.kw_defaults):
            if d is not None:
                defaults[x.arg] = d
        allp = params + [x.arg for x in a.kwonlyargs]
        bound = {}
        pos = list(call.args)
        if recv is not None:
            pos = [recv] + pos
        if len(pos) > len(params) and not a.vararg:
            raise NotInlinable('too many arguments')
        for p, v in zip(params, pos):
            bound[p] = v
        if a.vararg:
            # *rest is the tuple of the surplus positional arguments
            allp = allp + [a.vararg.arg]
            bound[a.vararg.arg] = ast.Tuple(
                elts=list(pos[len(params):]), ctx=ast.Load())
        for k in call.keywords:
            if k.arg not in allp or k.arg in bound:
                raise NotInlinable('bad keyword')
            bound[k.arg] = k.value
        for p in allp:
            if p not in bound:
                if p not in defaults:
                    raise NotInlinable('missing argument')
                bound[p] = defaults[p]
        return bound, allp

    def instantiate(self, target, recv, call, ctx):
        """(prefix statements, body statements) of the callee with parameters
        bound; body still contains Return / Yield."""
        node = target.node
        if contains(node.body, (ast.Global, ast.Nonlocal)):
            raise NotInlinable('global statement')
        def plain_deco(d):
            if isinstance(d, ast.Name) and d.id in (
                    'staticmethod', 'classmethod', 'property'):
                return True
            return getattr(self, '_cm_ok', False) and self._is_cm_deco(
                d, target.module)
        if any(not plain_deco(d) for d in node.decorator_list):
            raise NotInlinable('decorated helper')
        bound, allp = self.bind_args(target, recv, call)
        body = copy.deepcopy(node.body)
        if body and isinstance(body[0], ast.Expr) and isinstance(
                body[0].value, ast.Constant) and isinstance(
                    body[0].value.value, str):
            body = body[1:]
        stored = set()
        loaded = {}
        for x in walk_shallow(body):
            if isinstance(x, ast.Name):
                if isinstance(x.ctx, (ast.Store, ast.Del)):
                    stored.add(x.id)
        for x in body:
            for y in ast.walk(x):
                if isinstance(y, ast.Name) and isinstance(y.ctx, ast.Load):
                    loaded[y.id] = loaded.get(y.id, 0) + 1
                elif isinstance(y, ast.arg):
                    stored.add(y.arg)
        exprs = {}
        prefix = []
        renames = {}
        for p in allp:
            v = bound[p]
            simple = isinstance(v, (ast.Name, ast.Constant)) or (
                isinstance(v, ast.Attribute) and not has_call(v)
                and not any(isinstance(x, ast.Attribute)
                            and x.attr in self.unstable
                            for x in ast.walk(v)))
            if p in stored or not (simple or loaded.get(p, 0) <= 1
                                   and not has_call(v)):
                nm = self.fresh(p)
                renames[p] = nm
                prefix.append(ast.copy_location(ast.Assign(
                    targets=[ast.Name(id=nm, ctx=ast.Store())],
                    value=copy.deepcopy(v)), call))
                ctx['names'].add(nm)
            else:
                exprs[p] = v
        for nm in sorted(stored):
            if nm in allp:
                continue
            if nm in ctx['names']:
                renames[nm] = self.fresh(nm)
                ctx['names'].add(renames[nm])
            else:
                ctx['names'].add(nm)
        sub = Subst(exprs, renames)
        body = [sub.visit(st) for st in body]
        return prefix, body

    def as_expression(self, body):
        """The body as one expression, when it is a chain of
        `if c: return e` closed by `return e` (else None)."""
        if not body:
            return ast.Constant(value=None)
        st = body[0]
        if isinstance(st, ast.Return):
            return st.value if st.value is not None else \
                ast.Constant(value=None)
        if isinstance(st, ast.If):
            a = self.as_expression(st.body)
            if a is None:
                return None
            if st.orelse:
                b = self.as_expression(st.orelse)
                if b is None:
                    return None
                if not self._terminates(st.orelse):
                    return None
            else:
                b = None
            if not self._terminates(st.body):
                return None
            if b is None:
                b = self.as_expression(body[1:])
                if b is None or not body[1:]:
                    return None
            return ast.copy_location(ast.IfExp(test=st.test, body=a,
                                               orelse=b), st)
        return None

    @staticmethod
    def _terminates(stmts):
        if not stmts:
            return False
        st = stmts[-1]
        if isinstance(st, (ast.Return, ast.Raise)):
            return True
        if isinstance(st, ast.If):
            return bool(st.orelse) and Normalizer._terminates(st.body) and \
                Normalizer._terminates(st.orelse)
        return False

    def structure_returns(self, stmts, k, res, top=True):
        """CPS restructuring: every fall-through path continues with k, every
        `return e` becomes `res = e` (or the bare expression) and skips k."""
        if not stmts:
            return copy.deepcopy(k)
        st, rest = stmts[0], stmts[1:]
        if isinstance(st, ast.Return):
            out = []
            if res is not None:
                out.append(ast.copy_location(ast.Assign(
                    targets=[ast.Name(id=res, ctx=ast.Store())],
                    value=st.value or ast.Constant(value=None)), st))
            elif st.value is not None and has_call(st.value):
                out.append(ast.copy_location(ast.Expr(value=st.value), st))
            return out
        if isinstance(st, ast.Raise):
            return [st]
        if not contains([st], (ast.Return,)):
            return [st] + self.structure_returns(rest, k, res, top)
        if isinstance(st, ast.If):
            kk = self.structure_returns(rest, k, res, top)
            b = self.structure_returns(st.body, kk, res, False)
            o = self.structure_returns(st.orelse, kk, res, False)
            if not b and not o:
                if has_call(st.test):
                    return [ast.copy_location(ast.Expr(value=st.test), st)]
                return []
            if not b:
                new = ast.If(test=ast.UnaryOp(op=ast.Not(), operand=st.test),
                             body=o, orelse=[])
            else:
                new = ast.If(test=st.test, body=b, orelse=o)
            return [ast.copy_location(new, st)]
        def all_return(t):
            """every way through the try statement ends in return / raise:
            nothing falls out of it, so what would follow is never reached"""
            if not isinstance(t, ast.Try) or t.finalbody:
                return False
            tail = t.orelse or t.body
            return self._terminates(tail) and all(
                self._terminates(h.body) for h in t.handlers) and (
                    not t.orelse or not contains(t.body, (ast.Return,)))
        if isinstance(st, (ast.With, ast.Try)) and not rest and (
                not k or all_return(st)):
            if isinstance(st, ast.With):
                st.body = self.structure_returns(st.body, [], res, False) \
                    or [ast.Pass()]
                return [st]
            if not contains(st.finalbody, (ast.Return,)):
                st.body = self.structure_returns(st.body, [], res, False) \
                    or [ast.Pass()]
                for h in st.handlers:
                    h.body = self.structure_returns(h.body, [], res, False) \
                        or [ast.Pass()]
                if st.orelse:
                    st.orelse = self.structure_returns(
                        st.orelse, [], res, False) or [ast.Pass()]
                return [st]
        raise NotInlinable('return inside %s' % type(st).__name__)

    def inline_call(self, call, st, ctx, depth, value_used):
        """-> (prefix statements, replacement expression or None)."""
        if isinstance(call, ast.Attribute):
            r = self.resolve_prop(call, ctx)
            call = ast.copy_location(ast.Call(func=call, args=[],
                                              keywords=[]), call)
        else:
            r = self.resolve_call(call, ctx)
        if r is None:
            return None
        target, recv = r
        if depth >= MAX_DEPTH:
            return None
        try:
            if contains(target.node.body, (ast.Yield, ast.YieldFrom)):
                raise NotInlinable('generator')
            prefix, body = self.instantiate(target, recv, call, ctx)
            expr = self.as_expression(body)
            if expr is not None and not prefix:
                self._note(target, ctx)
                return [], expr
            if not value_used:
                stmts = self.structure_returns(body, [], None)
                self._note(target)
                return prefix + stmts, None
            # single trailing return: body + expression
            if body and isinstance(body[-1], ast.Return) and not contains(
                    body[:-1], (ast.Return,)):
                self._note(target)
                return prefix + body[:-1], (
                    body[-1].value or ast.Constant(value=None))
            res = self.fresh('r')
            ctx['names'].add(res)
            k = [ast.copy_location(ast.Assign(
                targets=[ast.Name(id=res, ctx=ast.Store())],
                value=ast.Constant(value=None)), call)]
            stmts = self.structure_returns(body, k, res)
            self._note(target)
            return prefix + stmts, ast.copy_location(
                ast.Name(id=res, ctx=ast.Load()), call)
        except NotInlinable:
            return None

    def _note(self, target, ctx=None):
        if ctx is not None:
            exp = ctx.setdefault('expanded', {})
            exp[id(target)] = exp.get(id(target), 0) + 1
        self.stats['inlined_calls'] += 1
        self.stats['helpers'].add('%s:%s' % (target.module.name,
                                             target.qualname))

    def inline_block(self, stmts, ctx, depth):
        out = []
        for st in stmts:
            out.extend(self.inline_stmt(st, ctx, depth))
        return out

    def inline_stmt(self, st, ctx, depth):
        if isinstance(st, (ast.FunctionDef, ast.AsyncFunctionDef,
                           ast.ClassDef)):
            return [st]
        # N13: an empty separator joining what an in-repo generator yields
        # is the concatenation of the items: `t = b''.join(g(a))` becomes
        # `t = b''; for _x in g(a): t += _x` (then the generator is inlined)
        if isinstance(st, ast.Assign) and len(st.targets) == 1 and \
                isinstance(st.targets[0], ast.Name) and \
                self._empty_join(st.value, ctx):
            sep = st.value.func.value
            tmp = self.fresh('_joined')
            first = ast.copy_location(ast.Assign(
                targets=[st.targets[0]], value=sep), st)
            loop = ast.copy_location(ast.For(
                target=ast.Name(id=tmp, ctx=ast.Store()),
                iter=st.value.args[0],
                body=[ast.copy_location(ast.AugAssign(
                    target=ast.Name(id=st.targets[0].id, ctx=ast.Store()),
                    op=ast.Add(), value=ast.Name(id=tmp, ctx=ast.Load())),
                    st)],
                orelse=[]), st)
            ast.fix_missing_locations(loop)
            self.stats['joins'] = self.stats.get('joins', 0) + 1
            return [first] + self.inline_stmt(loop, ctx, depth)
        # N13b: `bytearray(g(a))` / `bytes(bytearray(g(a)))` / `list(g(a))`
        # with g a generator of the program, as the first thing the
        # statement evaluates: `t = bytearray(); for x in g(a): t.append(x)`
        # in front and t in its place (then the generator is inlined)
        if isinstance(st, (ast.Expr, ast.Assign, ast.Return)) and \
                getattr(st, 'value', None) is not None:
            hit = None
            order = eval_order(st.value)
            condpos = conditional_positions(st.value)
            for n in order:
                if isinstance(n, ast.Call) and isinstance(
                        n.func, ast.Name) and n.func.id in (
                            'bytearray', 'list') and len(n.args) == 1 \
                        and not n.keywords and isinstance(
                            n.args[0], ast.Call) and \
                        n.func.id not in self._locals(ctx) and \
                        id(n) not in condpos:
                    r = self.resolve_call(n.args[0], ctx)
                    if r is not None and contains(r[0].node.body,
                                                  (ast.Yield,)):
                        own = set(id(x) for x in ast.walk(n))
                        before_ = [m for m in order[:order.index(n)]
                                   if id(m) not in own]
                        if all(isinstance(m, (ast.Name, ast.Constant,
                                              ast.Attribute))
                               for m in before_):
                            hit = n
                    break
            if hit is not None:
                tmp = self.fresh('_items')
                item = self.fresh('_item')
                ctx['names'].update((tmp, item))
                first = ast.copy_location(ast.Assign(
                    targets=[ast.Name(id=tmp, ctx=ast.Store())],
                    value=ast.Call(func=ast.Name(id=hit.func.id,
                                                 ctx=ast.Load()),
                                   args=[], keywords=[])), st)
                loop = ast.copy_location(ast.For(
                    target=ast.Name(id=item, ctx=ast.Store()),
                    iter=hit.args[0],
                    body=[ast.copy_location(ast.Expr(value=ast.Call(
                        func=ast.Attribute(value=ast.Name(
                            id=tmp, ctx=ast.Load()), attr='append',
                            ctx=ast.Load()),
                        args=[ast.Name(id=item, ctx=ast.Load())],
                        keywords=[])), st)],
                    orelse=[]), st)
                new_st = replace_node(st, hit, ast.copy_location(
                    ast.Name(id=tmp, ctx=ast.Load()), hit))
                for x in (first, loop, new_st):
                    ast.fix_missing_locations(x)
                self.stats['joins'] = self.stats.get('joins', 0) + 1
                return [first] + self.inline_stmt(loop, ctx, depth) + \
                    self.inline_stmt(new_st, ctx, depth)
        # N17: `with cm(args) [as v]: BODY` where cm is an in-repo generator
        # decorated with contextlib.contextmanager: the generator's body with
        # its one `yield x` replaced by `v = x; BODY` (an exception in BODY
        # is raised at the yield, so the generator's own try/except/finally
        # around it apply to BODY)
        if isinstance(st, ast.With) and len(st.items) == 1 and isinstance(
                st.items[0].context_expr, ast.Call):
            w = self.inline_context_manager(st, ctx, depth)
            if w is not None:
                return self.inline_block(w, dict(ctx), depth + 1) \
                    if depth + 1 < MAX_DEPTH else w
        # generator consumed by a for loop
        if isinstance(st, ast.For) and isinstance(st.iter, ast.Call) and \
                not st.orelse:
            g = self.inline_generator(st, ctx, depth)
            if g is not None:
                return self.inline_block(g, dict(ctx), depth + 1) \
                    if depth + 1 < MAX_DEPTH else g
        pre = []
        guard = 0
        while guard < 12:
            guard += 1
            found = None
            hdrs = header_exprs(st)
            for h in hdrs:
                order = eval_order(h)
                condpos = conditional_positions(h)
                earlier = []
                for n in order:
                    if isinstance(n, (ast.Lambda, ast.GeneratorExp)):
                        earlier.append(n)
                        continue
                    if isinstance(n, ast.Call):
                        if id(n) not in condpos:
                            r = self.resolve_call(n, ctx)
                            if r is not None:
                                # calls completed before this one that are
                                # not its own arguments
                                own = set(id(x) for x in ast.walk(n))
                                found = (n, h, any(id(x) not in own
                                                   for x in earlier))
                                break
                        earlier.append(n)
                    elif isinstance(n, ast.Attribute) and \
                            id(n) not in condpos and \
                            self.resolve_prop(n, ctx) is not None:
                        found = (n, h, bool(earlier))
                        break
                if found:
                    break
                if any(isinstance(n, ast.Call) for n in order):
                    break       # later headers evaluate after these calls
            if not found:
                break
            call, h, after_call = found
            value_used = not (isinstance(st, ast.Expr) and st.value is call)
            res = self.inline_call(call, st, ctx, depth, value_used)
            if res is None:
                break
            prefix, expr = res
            if prefix and after_call:
                # hoisting would reorder evaluations; leave the call
                break
            prefix = self.inline_block(prefix, ctx, depth + 1)
            pre.extend(prefix)
            if expr is None:
                return pre
            st = replace_node(st, call, expr)
        # nested blocks
        for owner, f in sub_blocks(st):
            setattr(owner, f, self.inline_block(getattr(owner, f), ctx,
                                                depth))
        # expression-bodied helpers in a while test (re-evaluated each time)
        if isinstance(st, ast.While):
            st.test = self.inline_pure_expr(st.test, ctx, depth)
        return pre + [st]

    def inline_pure_expr(self, e, ctx, depth):
        for n in list(ast.walk(e)):
            if isinstance(n, ast.Call):
                r = self.resolve_call(n, ctx)
                if r is None:
                    continue
                target, recv = r
                try:
                    if contains(target.node.body, (ast.Yield, ast.YieldFrom)):
                        continue
                    prefix, body = self.instantiate(target, recv, n, ctx)
                    expr = self.as_expression(body)
                    if expr is not None and not prefix:
                        self._note(target)
                        if n is e:
                            return expr
                        e = replace_node(e, n, expr)
                except NotInlinable:
                    continue
        return e

    def _is_cm_deco(self, d, module):
        try:
            ent = self.db.resolve_dotted(module, d)
        except AnalysisError:
            return False
        return getattr(ent, 'dotted', None) == 'contextlib.contextmanager'

    def inline_context_manager(self, st, ctx, depth):
        call = st.items[0].context_expr
        r = self.resolve_call(call, ctx)
        if r is None:
            return None
        target, recv = r
        node = target.node
        if not any(self._is_cm_deco(d, target.module)
                   for d in node.decorator_list):
            return None
        ys = [n for n in walk_shallow(node.body)
              if isinstance(n, (ast.Yield, ast.YieldFrom))]
        if len(ys) != 1 or not isinstance(ys[0], ast.Yield) or contains(
                node.body, (ast.Return,)):
            return None
        as_var = st.items[0].optional_vars
        if as_var is not None and not isinstance(as_var, ast.Name):
            return None
        # the with-body must not leave by return / break / continue: inside
        # the generator's frame those would mean something else
        if contains(st.body, (ast.Return, ast.Break, ast.Continue)):
            return None
        self._cm_ok = True
        try:
            prefix, gbody = self.instantiate(target, recv, call, ctx)
        except NotInlinable:
            return None
        finally:
            self._cm_ok = False
        done = [False]

        def place(stmts):
            out = []
            for s_ in stmts:
                if isinstance(s_, ast.Expr) and isinstance(s_.value,
                                                           ast.Yield):
                    if as_var is not None:
                        out.append(ast.copy_location(ast.Assign(
                            targets=[as_var], value=s_.value.value or
                            ast.Constant(value=None)), s_))
                    elif s_.value.value is not None and has_call(
                            s_.value.value):
                        out.append(ast.copy_location(
                            ast.Expr(value=s_.value.value), s_))
                    out.extend(st.body)
                    done[0] = True
                    continue
                if contains([s_], (ast.Yield,)):
                    if isinstance(s_, (ast.For, ast.While)):
                        raise NotInlinable('yield inside a loop')
                    for owner, f in sub_blocks(s_):
                        setattr(owner, f, place(getattr(owner, f)))
                    if not done[0]:
                        raise NotInlinable('yield in expression position')
                out.append(s_)
            return out
        try:
            new = place(gbody)
        except NotInlinable:
            return None
        if not done[0]:
            return None
        self.stats['context_managers'] = self.stats.get(
            'context_managers', 0) + 1
        self.stats['helpers'].add('%s:%s' % (target.module.name,
                                             target.qualname))
        out = prefix + new
        for x in out:
            ast.fix_missing_locations(x)
        return out

    def _empty_join(self, e, ctx):
        if not (isinstance(e, ast.Call) and isinstance(e.func, ast.Attribute)
                and e.func.attr == 'join' and len(e.args) == 1
                and not e.keywords and isinstance(e.args[0], ast.Call)):
            return False
        sep = e.func.value
        empty = (isinstance(sep, ast.Constant) and sep.value in (b'', '')) \
            or (isinstance(sep, ast.Call) and isinstance(sep.func, ast.Name)
                and sep.func.id in ('bytes', 'str') and not sep.args
                and not sep.keywords)
        if not empty:
            return False
        r = self.resolve_call(e.args[0], ctx)
        if r is None:
            return False
        return contains(r[0].node.body, (ast.Yield,))

    @staticmethod
    def _returns_as_breaks(body):
        """A generator whose last statement is its only loop and whose bare
        `return`s all sit directly in that loop (not in a nested one) stops
        exactly where a `break` would: the body with those returns turned
        into breaks, or None."""
        rets = [n for n in walk_shallow(body) if isinstance(n, ast.Return)]
        if not rets:
            return body
        if any(r.value is not None for r in rets):
            return None
        if not body or not isinstance(body[-1], (ast.While, ast.For)) or \
                body[-1].orelse:
            return None
        if any(isinstance(n, ast.Return) for n in walk_shallow(body[:-1])):
            return None
        loop = body[-1]

        def conv(stmts):
            out = []
            for st in stmts:
                if isinstance(st, ast.Return):
                    out.append(ast.copy_location(ast.Break(), st))
                    continue
                if isinstance(st, (ast.While, ast.For)):
                    if any(isinstance(n, ast.Return)
                           for n in walk_shallow([st])):
                        raise NotInlinable('return inside a nested loop')
                    out.append(st)
                    continue
                if isinstance(st, ast.Try) and any(
                        isinstance(n, ast.Return)
                        for n in walk_shallow([st])):
                    raise NotInlinable('return inside try')
                for owner, f in sub_blocks(st):
                    setattr(owner, f, conv(getattr(owner, f)))
                out.append(st)
            return out
        try:
            loop.body = conv(loop.body)
        except NotInlinable:
            return None
        return body

    def inline_generator(self, loop, ctx, depth):
        r = self.resolve_call(loop.iter, ctx)
        if r is None:
            return None
        target, recv = r
        body = target.node.body
        ys = [n for n in walk_shallow(body)
              if isinstance(n, (ast.Yield, ast.YieldFrom))]
        if not ys or not all(isinstance(y, ast.Yield) for y in ys):
            return None
        if len(ys) > 1 and (len(ys) > 4 or len(loop.body) > 2 or contains(
                loop.body, (ast.Break, ast.Continue, ast.Return, ast.For,
                            ast.While, ast.Try, ast.With))):
            # several yields: the consumer's body is copied to each, which
            # is only done for a small straight-line body
            return None
        bare_returns = contains(body, (ast.Return,))
        # a `break` of the consumer abandons the generator: as a `break`
        # placed at the yield it leaves one loop only, so the yield must sit
        # directly in the body of a loop that is the generator's last
        # statement (nothing of the generator runs after it either way) and
        # in no try / with of the generator (their clean-up runs on close)
        brk = False
        depth_ = [0]

        def own_breaks(stmts):
            for x in stmts:
                if isinstance(x, ast.Break):
                    return True
                if isinstance(x, (ast.For, ast.While, ast.FunctionDef,
                                  ast.AsyncFunctionDef, ast.ClassDef)):
                    if isinstance(x, (ast.For, ast.While)) and \
                            own_breaks(x.orelse):
                        return True
                    continue
                for owner, f in sub_blocks(x):
                    if own_breaks(getattr(owner, f)):
                        return True
            return False
        if own_breaks(loop.body):
            last = body[-1] if body else None
            if not (isinstance(last, (ast.For, ast.While)) and
                    not last.orelse and any(
                        isinstance(x, ast.Expr) and x.value is ys[0]
                        for x in last.body)) or contains(
                            body[:-1], (ast.Yield, ast.YieldFrom)):
                return None
        try:
            prefix, gbody = self.instantiate(target, recv, loop.iter, ctx)
        except NotInlinable:
            return None
        if bare_returns:
            gbody = self._returns_as_breaks(gbody)
            if gbody is None:
                return None
        state = dict(done=False)

        def place(stmts, in_loop):
            out = []
            for i, st in enumerate(stmts):
                if isinstance(st, ast.Expr) and isinstance(
                        st.value, ast.Yield):
                    last = i == len(stmts) - 1
                    has_continue = any(isinstance(n, ast.Continue)
                                       for n in walk_shallow(loop.body))
                    if has_continue and not (in_loop and last):
                        raise NotInlinable('continue past the yield')
                    val = st.value.value or ast.Constant(value=None)
                    out.append(ast.copy_location(ast.Assign(
                        targets=[copy.deepcopy(loop.target)], value=val),
                        st))
                    out.extend(copy.deepcopy(loop.body) if state['done']
                               else loop.body)
                    state['done'] = True
                    continue
                if contains([st], (ast.Yield,)):
                    for owner, f in sub_blocks(st):
                        inl = in_loop if not isinstance(
                            st, (ast.For, ast.While)) else (f == 'body')
                        setattr(owner, f, place(getattr(owner, f), inl))
                    if not state['done']:
                        raise NotInlinable('yield in expression position')
                out.append(st)
            return out
        try:
            new = place(gbody, False)
        except NotInlinable:
            return None
        if not state['done']:
            return None
        self.stats['inlined_generators'] += 1
        self.stats['helpers'].add('%s:%s' % (target.module.name,
                                             target.qualname))
        return prefix + new

    # -- N21: a namedtuple local that is only taken apart --------------------
    def namedtuple_fields(self, e, module):
        """field names if the expression names a plain module-level
        `X = namedtuple('X', fields)` of the program, else None"""
        if not isinstance(e, (ast.Name, ast.Attribute)):
            return None
        try:
            ent = self.db.resolve_dotted(module, e)
            ent = self.db.deref(ent) if isinstance(ent, tuple) else ent
        except AnalysisError:
            return None
        if not (isinstance(ent, tuple) and ent[0] == 'value'):
            return None
        v, vm = ent[1], ent[2]
        if not (isinstance(v, ast.Call) and len(v.args) == 2 and
                not v.keywords):
            return None
        try:
            mk = self.db.resolve_dotted(vm, v.func)
        except AnalysisError:
            return None
        if getattr(mk, 'dotted', None) != 'collections.namedtuple':
            return None
        f = v.args[1]
        if isinstance(f, ast.Constant) and isinstance(f.value, str):
            return tuple(f.value.replace(',', ' ').split())
        if isinstance(f, (ast.Tuple, ast.List)) and all(
                isinstance(x, ast.Constant) and isinstance(x.value, str)
                for x in f.elts):
            return tuple(x.value for x in f.elts)
        return None

    def scalarise_records(self, fnode, fi, ctx):
        """v = NT(f1=e1, f2=e2)  (every assignment of v of that form) with
        every other mention of v one of  `v.f1`,  `v[0]`,  `f(*v)`,
        `a, b = v`   ->   v_f1 = e1; v_f2 = e2  and the mentions become the
        locals.  (The record never escapes, so nothing can tell.)"""
        nested = set()
        for x in ast.walk(fnode):
            if x is not fnode and isinstance(x, (
                    ast.FunctionDef, ast.AsyncFunctionDef, ast.Lambda,
                    ast.ClassDef, ast.ListComp, ast.SetComp, ast.DictComp,
                    ast.GeneratorExp)):
                for y in ast.walk(x):
                    if isinstance(y, ast.Name):
                        nested.add(y.id)
            elif isinstance(x, (ast.Global, ast.Nonlocal)):
                nested.update(x.names)
        par = {}
        for x in ast.walk(fnode):
            for c in ast.iter_child_nodes(x):
                par[id(c)] = x
        stores, loads = {}, {}
        for x in ast.walk(fnode):
            if isinstance(x, ast.Name):
                (stores if isinstance(x.ctx, (ast.Store, ast.Del))
                 else loads).setdefault(x.id, []).append(x)
        params = set(a.arg for a in ast.walk(fnode.args)
                     if isinstance(a, ast.arg))

        def given_fields(call, fields):
            if any(isinstance(a, ast.Starred) for a in call.args) or \
                    any(k.arg is None for k in call.keywords):
                return None
            given = list(fields[:len(call.args)]) + [
                k.arg for k in call.keywords]
            if len(call.args) > len(fields) or sorted(given) != sorted(
                    fields):
                return None
            return given

        for v, sts in sorted(stores.items()):
            if v in nested or v in params or v not in loads:
                continue
            fields = None
            defs = []
            for t in sts:
                a = par.get(id(t))
                if not (isinstance(a, ast.Assign) and len(a.targets) == 1
                        and a.targets[0] is t and
                        isinstance(a.value, ast.Call)):
                    defs = None
                    break
                fs = self.namedtuple_fields(a.value.func, fi.module)
                if fs is None or (fields is not None and fs != fields) or \
                        given_fields(a.value, fs) is None:
                    defs = None
                    break
                fields = fs
                defs.append(a)
            if not defs:
                continue
            plan = []
            for u in loads[v]:
                a = par.get(id(u))
                if isinstance(a, ast.Attribute) and a.value is u and \
                        isinstance(a.ctx, ast.Load) and a.attr in fields:
                    plan.append(('attr', a, a.attr))
                elif isinstance(a, ast.Subscript) and a.value is u and \
                        isinstance(a.ctx, ast.Load) and isinstance(
                            a.slice, ast.Constant) and isinstance(
                                a.slice.value, int) and not isinstance(
                                    a.slice.value, bool) and \
                        -len(fields) <= a.slice.value < len(fields):
                    plan.append(('attr', a, fields[a.slice.value]))
                elif isinstance(a, ast.Starred) and isinstance(
                        par.get(id(a)), ast.Call) and \
                        a in par[id(a)].args:
                    plan.append(('star', a, par[id(a)]))
                elif isinstance(a, ast.Assign) and a.value is u and \
                        len(a.targets) == 1 and isinstance(
                            a.targets[0], (ast.Tuple, ast.List)) and \
                        len(a.targets[0].elts) == len(fields) and not any(
                            isinstance(t, ast.Starred)
                            for t in a.targets[0].elts):
                    plan.append(('unpack', a, None))
                else:
                    plan = None
                    break
            if not plan:
                continue
            names = {}
            for fn_ in fields:
                nm = '%s_%s' % (v, fn_)
                if nm in ctx['names']:
                    nm = self.fresh(nm)
                ctx['names'].add(nm)
                names[fn_] = nm

            def load(fn_, at):
                return ast.copy_location(ast.Name(id=names[fn_],
                                                  ctx=ast.Load()), at)
            for kind, node, extra in plan:
                if kind == 'attr':
                    replace_node(fnode, node, load(extra, node))
                elif kind == 'star':
                    k = extra.args.index(node)
                    extra.args[k:k + 1] = [load(f_, node) for f_ in fields]
                else:
                    node.value = ast.copy_location(ast.Tuple(
                        elts=[load(f_, node) for f_ in fields],
                        ctx=ast.Load()), node)
            for owner, f, block in self._blocks(fnode):
                for a in defs:
                    if not any(b is a for b in block):
                        continue
                    call = a.value
                    new = []
                    for fn_, val in zip(given_fields(call, fields),
                                        list(call.args) + [
                                            k.value for k in call.keywords]):
                        new.append(ast.copy_location(ast.Assign(
                            targets=[ast.Name(id=names[fn_],
                                              ctx=ast.Store())],
                            value=val), a))
                    k = [n for n, b in enumerate(block) if b is a][0]
                    block[k:k + 1] = new
            self.stats['records'] = self.stats.get('records', 0) + 1
            ast.fix_missing_locations(fnode)
            return True     # one at a time: the tables above are stale
        return False

    # -- N26: a tuple made in every arm and taken apart right after ----------
    def sink_unpacking(self, fnode):
        """try: t = (a, b)  except E: t = (c, d)        try: x, y = (a, b)
           x, y = t                                 ->  except E: x, y = (c, d)
        (likewise if / else), when t is assigned only as the last statement
        of those arms, always a tuple display of the right length, and read
        only by the unpacking."""
        changed = False
        for owner, f, block in self._blocks(fnode):
            for i in range(len(block) - 1):
                st, nx = block[i], block[i + 1]
                if not (isinstance(st, (ast.Try, ast.If)) and
                        isinstance(nx, ast.Assign) and len(nx.targets) == 1
                        and isinstance(nx.targets[0], ast.Tuple) and
                        isinstance(nx.value, ast.Name) and all(
                            isinstance(t, ast.Name)
                            for t in nx.targets[0].elts)):
                    continue
                t = nx.value.id
                n = len(nx.targets[0].elts)
                occ = [x for x in ast.walk(fnode) if isinstance(x, ast.Name)
                       and x.id == t]
                loads = [x for x in occ if isinstance(x.ctx, ast.Load)]
                if len(loads) != 1:
                    continue
                arms = [st.body] + ([h.body for h in st.handlers] + (
                    [st.orelse] if st.orelse else [])
                    if isinstance(st, ast.Try) else [st.orelse])
                if isinstance(st, ast.Try) and (st.finalbody or st.orelse):
                    continue
                lasts = []
                okk = True
                for arm in arms:
                    if not arm:
                        okk = False
                        break
                    a = arm[-1]
                    if isinstance(a, ast.Assign) and len(a.targets) == 1 \
                            and isinstance(a.targets[0], ast.Name) and \
                            a.targets[0].id == t and isinstance(
                                a.value, ast.Tuple) and \
                            len(a.value.elts) == n:
                        lasts.append(a)
                    else:
                        okk = False
                        break
                if not okk or len(lasts) != len(occ) - 1:
                    continue
                for a in lasts:
                    a.targets = [copy.deepcopy(nx.targets[0])]
                del block[i + 1]
                changed = True
                break
        return changed

    # -- N3 ----------------------------------------------------------------
    def split_tuple_assigns(self, fnode):
        changed = self.sink_unpacking(fnode)
        for owner, f, block in self._blocks(fnode):
            out = []
            for st in block:
                if isinstance(st, ast.Assign) and len(st.targets) == 1 and \
                        isinstance(st.targets[0], ast.Tuple) and isinstance(
                            st.value, ast.Tuple) and \
                        len(st.targets[0].elts) == len(st.value.elts) and \
                        all(isinstance(t, ast.Name)
                            for t in st.targets[0].elts) and \
                        not any(has_call(v) for v in st.value.elts):
                    tn = set(t.id for t in st.targets[0].elts)
                    used = set(n.id for v in st.value.elts
                               for n in ast.walk(v)
                               if isinstance(n, ast.Name))
                    if not (tn & used) and len(tn) == len(st.value.elts):
                        for t, v in zip(st.targets[0].elts, st.value.elts):
                            out.append(ast.copy_location(ast.Assign(
                                targets=[t], value=v), st))
                        changed = True
                        continue
                # q, r = divmod(a, b)  ->  q = a // b ; r = a % b  (a name
                # nothing reads is dropped)
                if isinstance(st, ast.Assign) and len(st.targets) == 1 and \
                        isinstance(st.targets[0], ast.Tuple) and \
                        len(st.targets[0].elts) == 2 and all(
                            isinstance(t, ast.Name)
                            for t in st.targets[0].elts) and isinstance(
                                st.value, ast.Call) and isinstance(
                                    st.value.func, ast.Name) and \
                        st.value.func.id == 'divmod' and \
                        len(st.value.args) == 2 and not st.value.keywords \
                        and 'divmod' not in self._all_names_stored(fnode):
                    a, b = st.value.args
                    q, r = st.targets[0].elts
                    reads = {}
                    for x in ast.walk(fnode):
                        if isinstance(x, ast.Name) and isinstance(
                                x.ctx, ast.Load):
                            reads[x.id] = reads.get(x.id, 0) + 1
                    pure = not any(
                        isinstance(x, ast.Call) and not (isinstance(
                            x.func, ast.Name) and x.func.id in (
                                'round', 'int', 'abs', 'len', 'float'))
                        for v in (a, b) for x in ast.walk(v))
                    want_q, want_r = reads.get(q.id, 0) > 0, \
                        reads.get(r.id, 0) > 0
                    if pure and q.id != r.id and (want_q + want_r == 1
                                                  or not has_call(st.value.args[0])
                                                  and not has_call(st.value.args[1])):
                        if want_q:
                            out.append(ast.copy_location(ast.Assign(
                                targets=[q], value=ast.BinOp(
                                    left=copy.deepcopy(a), op=ast.FloorDiv(),
                                    right=copy.deepcopy(b))), st))
                        if want_r:
                            out.append(ast.copy_location(ast.Assign(
                                targets=[r], value=ast.BinOp(
                                    left=copy.deepcopy(a), op=ast.Mod(),
                                    right=copy.deepcopy(b))), st))
                        ast.fix_missing_locations(out[-1]) if out else None
                        changed = True
                        continue
                out.append(st)
            setattr(owner, f, out)
        if changed:
            ast.fix_missing_locations(fnode)
        return changed

    @staticmethod
    def _all_names_stored(fnode):
        return set(x.id for x in ast.walk(fnode) if isinstance(x, ast.Name)
                   and isinstance(x.ctx, ast.Store)) | set(
                       x.arg for x in ast.walk(fnode)
                       if isinstance(x, ast.arg))

    def _blocks(self, fnode):
        """(owner, field, list) of every statement list of the function
        (not entering nested defs)."""
        out = []
        stack = [(fnode, 'body')]
        while stack:
            owner, f = stack.pop()
            block = getattr(owner, f)
            out.append((owner, f, block))
            for st in block:
                if isinstance(st, (ast.FunctionDef, ast.AsyncFunctionDef,
                                   ast.ClassDef)):
                    continue
                stack.extend(sub_blocks(st))
        return out

    IMMUTABLE_MAKERS = ('struct.Struct', 're.compile')

    def _immutable_value(self, e):
        """struct.Struct('<fmt>') / re.compile('<pattern>'[, flags]): an
        immutable object made from constants -- every copy is as good as
        the one bound to the name"""
        fi = getattr(self, '_cur_fi', None)
        if not (isinstance(e, ast.Call) and fi is not None and isinstance(
                e.func, (ast.Name, ast.Attribute)) and e.args and
                not e.keywords and all(isinstance(a, ast.Constant)
                                       for a in e.args)):
            return False
        try:
            ent = self.db.resolve_dotted(fi.module, e.func)
        except AnalysisError:
            return False
        return getattr(ent, 'dotted', None) in self.IMMUTABLE_MAKERS

    def stable(self, e, stores):
        """Call-free expression over places nothing re-binds."""
        if self._immutable_value(e):
            return True
        for n in ast.walk(e):
            if isinstance(n, (ast.Call, ast.Await, ast.Yield, ast.YieldFrom,
                              ast.NamedExpr, ast.Lambda, ast.GeneratorExp,
                              ast.ListComp, ast.SetComp, ast.DictComp,
                              ast.Starred, ast.JoinedStr)):
                return False
            if isinstance(n, ast.Attribute) and n.attr in self.unstable:
                return False
            if isinstance(n, ast.Name) and stores.get(n.id, 0) > 1:
                return False
            if isinstance(n, ast.Subscript) and not isinstance(
                    n.value, ast.Name):
                return False
            if isinstance(n, (ast.List, ast.Dict, ast.Set)):
                return False
        return True

    def copy_prop(self, fnode):
        # counts over the whole function (nested scopes included: a name
        # captured by a closure is left alone)
        stores = {}
        for a in ast.walk(fnode.args):
            if isinstance(a, ast.arg):
                stores[a.arg] = stores.get(a.arg, 0) + 1
        loads = {}
        nested_use = set()
        for n in walk_shallow(fnode.body):
            if isinstance(n, ast.Name):
                if isinstance(n.ctx, ast.Load):
                    loads.setdefault(n.id, []).append(n)
                else:
                    stores[n.id] = stores.get(n.id, 0) + 1
            elif isinstance(n, (ast.FunctionDef, ast.AsyncFunctionDef,
                                ast.ClassDef, ast.Lambda)):
                for x in ast.walk(n):
                    if isinstance(x, ast.Name):
                        nested_use.add(x.id)
                    elif isinstance(x, ast.arg):
                        nested_use.add(x.arg)
                if not isinstance(n, ast.Lambda):
                    stores[n.name] = stores.get(n.name, 0) + 1
            elif isinstance(n, (ast.Global, ast.Nonlocal)):
                for nm in n.names:
                    stores[nm] = stores.get(nm, 0) + 2
            elif isinstance(n, ast.ExceptHandler) and n.name:
                stores[n.name] = stores.get(n.name, 0) + 1
            elif isinstance(n, (ast.Import, ast.ImportFrom)):
                for a in n.names:
                    nm = (a.asname or a.name).split('.')[0]
                    stores[nm] = stores.get(nm, 0) + 1
        comp_targets = set()
        for n in walk_shallow(fnode.body):
            if isinstance(n, ast.comprehension):
                for x in ast.walk(n.target):
                    if isinstance(x, ast.Name):
                        comp_targets.add(x.id)
        for owner, f, block in self._blocks(fnode):
            for i, st in enumerate(block):
                if not (isinstance(st, ast.Assign) and len(st.targets) == 1
                        and isinstance(st.targets[0], ast.Name)):
                    continue
                v = st.targets[0].id
                if stores.get(v, 0) != 1 or v in nested_use or \
                        v in comp_targets:
                    continue
                uses = loads.get(v, [])
                if not uses:
                    continue
                after = block[i + 1:]
                inside = set()
                for s in after:
                    for x in ast.walk(s):
                        inside.add(id(x))
                if not all(id(u) in inside for u in uses):
                    continue
                if any(isinstance(n, ast.Name) and n.id == v
                       for n in ast.walk(st.value)):
                    continue
                if self.stable(st.value, stores):
                    # (P1) stable place: substitute everywhere
                    if any(self._aug_target(fnode, v) for _ in (0,)):
                        continue
                    for s in after:
                        Subst({v: st.value}, {}).visit(s)
                    del block[i]
                    self.stats['copies'] += 1
                    return True
                # (P2) single use at the start of the next statement
                if len(uses) == 1 and after:
                    nxt = after[0]
                    holder = None
                    while isinstance(nxt, ast.Try) and nxt.body and \
                            self._cannot_raise(st.value):
                        # entering a try block evaluates nothing
                        holder = nxt
                        nxt = nxt.body[0]
                    if isinstance(nxt, ast.While):
                        continue
                    ok = False
                    for h in header_exprs(nxt):
                        order = eval_order(h)
                        if not any(n is uses[0] for n in order):
                            if any(isinstance(n, (ast.Call, ast.Lambda,
                                                  ast.GeneratorExp))
                                   for n in order):
                                break
                            continue
                        condpos = conditional_positions(h)
                        if id(uses[0]) in condpos:
                            break
                        for n in order:
                            if n is uses[0]:
                                ok = True
                                break
                            if isinstance(n, (ast.Call, ast.Lambda,
                                              ast.GeneratorExp, ast.ListComp,
                                              ast.SetComp, ast.DictComp)):
                                break
                        break
                    if ok and not self._reads_unstable_after_call(
                            st.value, nxt, uses[0]):
                        if holder is not None:
                            holder.body[0] = replace_node(
                                nxt, uses[0], st.value)
                        else:
                            block[i + 1] = replace_node(
                                nxt, uses[0], st.value)
                        del block[i]
                        self.stats['temps'] += 1
                        return True
        return False

    def _cannot_raise(self, e):
        """names, constants, stable attribute reads, displays of those and
        functools.partial(...) of those: moving the evaluation into a try
        block shows the handlers nothing new."""
        fi = self._cur_fi
        if isinstance(e, (ast.Constant, ast.Name)):
            return True
        if isinstance(e, ast.Attribute):
            return e.attr not in self.unstable and self._cannot_raise(e.value)
        if isinstance(e, (ast.Tuple, ast.List)):
            return all(self._cannot_raise(x) for x in e.elts)
        if isinstance(e, ast.Call) and isinstance(
                e.func, (ast.Name, ast.Attribute)) and fi is not None:
            try:
                ent = self.db.resolve_dotted(fi.module, e.func)
            except AnalysisError:
                return False
            return getattr(ent, 'dotted', None) == 'functools.partial' and \
                all(self._cannot_raise(a) for a in e.args) and all(
                    k.arg is not None and self._cannot_raise(k.value)
                    for k in e.keywords)
        return False

    @staticmethod
    def _aug_target(fnode, v):
        return False

    @staticmethod
    def _reads_unstable_after_call(value, nxt, use):
        return False


def materialise_factories(db):
    """N11.  `name = factory(consts...)` (or `a, b = factory(consts...)`) in
    a class body, where factory is a module-level function (not a known
    unit) that only binds a few locals from pure expressions, defines nested
    functions and returns them (possibly wrapped in staticmethod /
    classmethod, possibly as a tuple): the class gets those functions as
    ordinary methods, the closure variables replaced by the constant
    arguments and the factory's locals recomputed at the top of each.
    Returns the names of the methods made."""
    known = known_units()[0]
    made = []

    def unwrap(e, inners):
        wrap = None
        if isinstance(e, ast.Call) and isinstance(e.func, ast.Name) and \
                e.func.id in ('staticmethod', 'classmethod') and \
                len(e.args) == 1 and not e.keywords:
            wrap, e = e.func.id, e.args[0]
        if isinstance(e, ast.Name) and e.id in inners:
            return inners[e.id], wrap
        return None

    def pure_expr(e, m):
        """no in-repo call, no comprehension side doors: library
        constructors, arithmetic, names, constants"""
        for x in ast.walk(e):
            if isinstance(x, (ast.Yield, ast.YieldFrom, ast.Await,
                              ast.NamedExpr, ast.Lambda)):
                return False
            if isinstance(x, ast.Call):
                if not isinstance(x.func, (ast.Name, ast.Attribute)):
                    return False
                try:
                    ent = db.resolve_dotted(m, x.func)
                except AnalysisError:
                    return False
                if ent is not None and getattr(ent, 'dotted', None) is None:
                    return False
        return True
    for m in db.modules.values():
        factories = {}
        for st in m.tree.body:
            if not isinstance(st, ast.FunctionDef) or st.decorator_list or \
                    st.name in known.get(m.name, ()):
                continue
            body = list(st.body)
            if body and isinstance(body[0], ast.Expr) and isinstance(
                    body[0].value, ast.Constant) and isinstance(
                        body[0].value.value, str):
                body = body[1:]
            if len(body) < 2 or not isinstance(body[-1], ast.Return) or \
                    body[-1].value is None:
                continue
            pre, inners, okk = [], {}, True
            for x in body[:-1]:
                if isinstance(x, ast.Assign) and len(x.targets) == 1 and \
                        isinstance(x.targets[0], ast.Name) and not inners \
                        and pure_expr(x.value, m):
                    pre.append(x)
                elif isinstance(x, ast.FunctionDef) and \
                        not x.decorator_list and not contains(
                            x.body, (ast.Global, ast.Nonlocal)):
                    inners[x.name] = x
                else:
                    okk = False
            if not okk or not inners:
                continue
            ret = body[-1].value
            outs = [unwrap(e, inners) for e in ret.elts] if isinstance(
                ret, ast.Tuple) else [unwrap(ret, inners)]
            if any(o is None for o in outs):
                continue
            a = st.args
            if a.kwonlyargs or a.kwarg or a.defaults or a.posonlyargs:
                continue
            factories[st.name] = (st, pre, outs, isinstance(ret, ast.Tuple))
        if not factories:
            continue
        for cls in [n for n in ast.walk(m.tree) if isinstance(n,
                                                              ast.ClassDef)]:
            i = -1
            while i + 1 < len(cls.body):
                i += 1
                st = cls.body[i]
                if not (isinstance(st, ast.Assign) and len(st.targets) == 1):
                    continue
                tg = st.targets[0]
                names = [tg.id] if isinstance(tg, ast.Name) else (
                    [x.id for x in tg.elts] if isinstance(
                        tg, (ast.Tuple, ast.List)) and all(
                            isinstance(x, ast.Name) for x in tg.elts)
                    else None)
                if names is None:
                    continue
                v = st.value
                outer_wrap = None
                if isinstance(v, ast.Call) and isinstance(
                        v.func, ast.Name) and v.func.id in (
                            'staticmethod', 'classmethod') and \
                        len(v.args) == 1 and not v.keywords and \
                        isinstance(tg, ast.Name):
                    outer_wrap, v = v.func.id, v.args[0]
                if not (isinstance(v, ast.Call) and isinstance(
                        v.func, ast.Name) and v.func.id in factories):
                    continue
                fdef, pre, outs, is_tuple = factories[v.func.id]
                if v.keywords:
                    # arguments given by name take their parameter's place
                    fpar = [x.arg for x in fdef.args.args]
                    kws = {k.arg: k.value for k in v.keywords}
                    pos = list(v.args)
                    if None in kws or fdef.args.vararg is not None or any(
                            isinstance(a, ast.Starred) for a in pos):
                        continue
                    for pn in fpar[len(pos):]:
                        if pn not in kws:
                            break
                        pos.append(kws.pop(pn))
                    if kws:
                        continue
                    v = ast.copy_location(ast.Call(func=v.func, args=pos,
                                                   keywords=[]), v)
                if is_tuple != isinstance(tg, (ast.Tuple, ast.List)) or \
                        len(outs) != len(names):
                    continue
                if not all(isinstance(x, ast.Constant) or (
                        isinstance(x, ast.UnaryOp) and isinstance(
                            x.operand, ast.Constant)) for x in v.args):
                    continue
                params = [x.arg for x in fdef.args.args]
                if len(v.args) > len(params) and fdef.args.vararg is None \
                        or len(v.args) < len(params):
                    continue
                exprs = dict(zip(params, v.args))
                if fdef.args.vararg is not None:
                    exprs[fdef.args.vararg.arg] = ast.Tuple(
                        elts=list(v.args[len(params):]), ctx=ast.Load())
                pre_names = [x.targets[0].id for x in pre]
                news = []
                for nm, (inner, wrap) in zip(names, outs):
                    if wrap and outer_wrap:
                        news = None
                        break
                    new = copy.deepcopy(inner)
                    # names the nested function binds itself are its own
                    own = set(x.arg for x in ast.walk(new.args)
                              if isinstance(x, ast.arg))
                    for x in walk_shallow(new.body):
                        if isinstance(x, ast.Name) and isinstance(
                                x.ctx, (ast.Store, ast.Del)):
                            own.add(x.id)
                    if own & (set(exprs) | set(pre_names)):
                        news = None
                        break
                    sub = Subst(dict(exprs), {})
                    head = [sub.visit(copy.deepcopy(x)) for x in pre]
                    new.body = head + [sub.visit(b) for b in new.body]
                    new.name = nm
                    w = wrap or outer_wrap
                    new.decorator_list = [ast.Name(id=w, ctx=ast.Load())] \
                        if w else []
                    for x in ast.walk(new):
                        if isinstance(x, (ast.expr, ast.stmt)):
                            ast.copy_location(x, st)
                    ast.fix_missing_locations(new)
                    news.append(new)
                if not news:
                    continue
                cls.body[i:i + 1] = news
                i += len(news) - 1
                made.extend('%s:%s.%s' % (m.name, cls.name, n.name)
                            for n in news)
        # a factory nothing refers to any more is not part of the program
        for name, (fdef, _, _, _) in list(factories.items()):
            refs = [x for x in ast.walk(m.tree) if isinstance(x, ast.Name)
                    and x.id == name]
            strs = [x for x in ast.walk(m.tree) if isinstance(x, ast.Constant)
                    and x.value == name]
            imported = any(
                isinstance(x, ast.ImportFrom) and any(
                    al.name == name or (al.name == '*' and
                                        not name.startswith('_'))
                    for al in x.names)
                and (x.module or '').split('.')[-1] == m.name.split('.')[-1]
                or isinstance(x, ast.Attribute) and x.attr == name
                for m2 in db.modules.values() if m2 is not m
                for x in ast.walk(m2.tree))
            if not refs and not strs and not imported and any(
                    mm.startswith(m.name + ':') for mm in made):
                m.tree.body = [x for x in m.tree.body if x is not fdef]
    return made


def self_partialmethod(db, m, v, funcs):
    """N28.  FunctionDef for `partialmethod(f, *bound, **kwbound)` with f a plain
    module-level function: def _(self, <rest>): return f(self, *bound,
    <rest>, **kwbound); None when the call is not of that form."""
    try:
        ent = db.resolve_dotted(m, v.func) if isinstance(
            v.func, (ast.Name, ast.Attribute)) else None
    except AnalysisError:
        return None
    if getattr(ent, 'dotted', None) != 'functools.partialmethod' or \
            not v.args or not isinstance(v.args[0], ast.Name) or \
            v.args[0].id not in funcs or any(
                isinstance(a, ast.Starred) for a in v.args) or any(
                    k.arg is None for k in v.keywords):
        return None
    f = funcs[v.args[0].id]
    a = f.args
    if a.vararg or a.kwarg or a.posonlyargs or a.kwonlyargs:
        return None
    params = [x.arg for x in a.args]
    bound = list(v.args[1:])
    kwb = {k.arg: k.value for k in v.keywords}
    if len(bound) + 1 > len(params) or any(k not in params for k in kwb):
        return None
    rest = [p_ for p_ in params[1 + len(bound):] if p_ not in kwb]
    defaults = dict(zip(params[len(params) - len(a.defaults):], a.defaults))
    # remaining parameters keep their defaults (trailing ones only)
    rest_defaults = []
    for p_ in rest:
        if p_ in defaults:
            rest_defaults.append(copy.deepcopy(defaults[p_]))
        elif rest_defaults:
            return None
    call = ast.Call(
        func=ast.Name(id=f.name, ctx=ast.Load()),
        args=[ast.Name(id=params[0], ctx=ast.Load())] + [
            copy.deepcopy(b) for b in bound] + [
            ast.Name(id=p_, ctx=ast.Load()) for p_ in rest],
        keywords=[ast.keyword(arg=k, value=copy.deepcopy(x))
                  for k, x in kwb.items()])
    return ast.FunctionDef(
        name='_', args=ast.arguments(
            posonlyargs=[], args=[ast.arg(arg=params[0])] + [
                ast.arg(arg=p_) for p_ in rest], vararg=None,
            kwonlyargs=[], kw_defaults=[], kwarg=None,
            defaults=rest_defaults),
        body=[ast.Return(value=call)], decorator_list=[], returns=None,
        type_comment=None, type_params=[])


def materialise_aliases(db):
    """N20.  `name = staticmethod(f)` / `classmethod(f)` / `name = f` in a
    class body, f a module-level function of the same module defined once
    and never rebound: the class gets a copy of f as an ordinary method of
    that name (a module-level function sees the same globals as a method
    does, so only __name__ differs).  The module-level original goes when
    nothing else refers to it."""
    known = known_units()[0]
    made = []
    for m in db.modules.values():
        defs = {}
        for st in m.tree.body:
            if isinstance(st, ast.FunctionDef):
                defs.setdefault(st.name, []).append(st)
        rebound = set()
        for x in ast.walk(m.tree):
            if isinstance(x, ast.Name) and isinstance(
                    x.ctx, (ast.Store, ast.Del)):
                rebound.add(x.id)
            elif isinstance(x, (ast.Global, ast.Nonlocal)):
                rebound.update(x.names)
        funcs = {n: d[0] for n, d in defs.items()
                 if len(d) == 1 and n not in rebound and
                 not d[0].decorator_list and
                 n not in known.get(m.name, ())}
        if not funcs:
            continue
        used = set()
        for cls in [n for n in ast.walk(m.tree)
                    if isinstance(n, ast.ClassDef)]:
            for i, st in enumerate(list(cls.body)):
                if not (isinstance(st, ast.Assign) and len(st.targets) == 1
                        and isinstance(st.targets[0], ast.Name)):
                    continue
                v, wrap = st.value, None
                if isinstance(v, ast.Call) and isinstance(
                        v.func, ast.Name) and v.func.id in (
                            'staticmethod', 'classmethod') and \
                        len(v.args) == 1 and not v.keywords:
                    wrap, v = v.func.id, v.args[0]
                pm = self_partialmethod(db, m, v, funcs) if isinstance(
                    v, ast.Call) and wrap is None else None
                if pm is not None:
                    # name = partialmethod(f, a, k=b): a method that calls
                    # f(self, a, <its remaining parameters>, k=b)
                    if any(isinstance(b, ast.FunctionDef) and
                           b.name == st.targets[0].id for b in cls.body):
                        continue
                    pm.name = st.targets[0].id
                    ast.copy_location(pm, st)
                    for x in ast.walk(pm):
                        if isinstance(x, (ast.stmt, ast.expr, ast.arg)) and \
                                not hasattr(x, 'lineno'):
                            ast.copy_location(x, st)
                    ast.fix_missing_locations(pm)
                    cls.body[i] = pm
                    made.append('%s:%s.%s' % (m.name, cls.name, pm.name))
                    continue
                if not (isinstance(v, ast.Name) and v.id in funcs):
                    continue
                if any(isinstance(b, ast.FunctionDef) and
                       b.name == st.targets[0].id for b in cls.body):
                    continue
                new = copy.deepcopy(funcs[v.id])
                new.name = st.targets[0].id
                new.decorator_list = [ast.copy_location(
                    ast.Name(id=wrap, ctx=ast.Load()), st)] if wrap else []
                cls.body[i] = new
                used.add(v.id)
                made.append('%s:%s.%s' % (m.name, cls.name, new.name))
        for name in used:
            fdef = funcs[name]
            inside = set(id(x) for x in ast.walk(fdef))
            refs = [x for x in ast.walk(m.tree) if isinstance(x, ast.Name)
                    and x.id == name and id(x) not in inside]
            # the copies made above contain the function's own recursive
            # references too
            refs = [x for x in refs if True]
            strs = [x for x in ast.walk(m.tree) if isinstance(x, ast.Constant)
                    and x.value == name]
            imported = any(
                isinstance(x, ast.ImportFrom) and any(
                    al.name == name or (al.name == '*' and
                                        not name.startswith('_'))
                    for al in x.names)
                and (x.module or '').split('.')[-1] == m.name.split('.')[-1]
                or isinstance(x, ast.Attribute) and x.attr == name
                for m2 in db.modules.values() if m2 is not m
                for x in ast.walk(m2.tree))
            if not refs and not strs and not imported:
                m.tree.body = [x for x in m.tree.body if x is not fdef]
    return made


def run(db):
    made = materialise_aliases(db)
    made += materialise_factories(db)
    if made:
        # index the program with the materialised methods
        from .srcdb import SrcDB
        trees = {n: m.tree for n, m in db.modules.items()}
        db2 = SrcDB(db.repo, trees=trees)
    else:
        db2 = db
    n = Normalizer(db2)
    stats = n.run()
    stats['factory_methods'] = made
    if db2 is not db:
        for name, m in db2.modules.items():
            db.modules[name].tree = m.tree
    return stats
