"""C03 -- VarInt/VarLong decoding is bounded; encoding terminates and is
canonical.  Loop-bound, sign and sibling-constant analysis of VarInt.read /
VarInt.send / VARINT_SIZE_TABLE / VarInt.size over their CFGs."""
import ast
import json
import os

from ..common import AnalysisError, VERIF, rel
from ..fold import Folder, Env, ClassVal, Opaque, FoldRaise
from ..cfg import CFG

BASIC = 'minecraft.networking.types.basic'


def cval(F, module, node):
    try:
        v = F.eval(node, Env(module))
    except (AnalysisError, FoldRaise):
        return None
    return None if isinstance(v, Opaque) else v


def cycles(g, head, body):
    """All simple paths head -> ... -> head inside the loop body."""
    out = []

    def dfs(n, path):
        for s, l in n.succ:
            if s is head:
                out.append(path + [(n, l)])
            elif s in body and all(s is not p for p, _ in path) and s is not n:
                dfs(s, path + [(n, l)])
    dfs(head, [])
    return out


def is_raw_read(n, stream):
    return (isinstance(n, ast.Call) and isinstance(n.func, ast.Attribute)
            and n.func.attr in ('read', 'recv')
            and isinstance(n.func.value, ast.Name)
            and n.func.value.id == stream)


def reads_in(astnode, stream):
    return [x for x in ast.walk(astnode) if is_raw_read(x, stream)]


def run(report, db, tier):
    ref = json.load(open(os.path.join(VERIF, 'reference', 'wire_types.json')))
    report.explanation = (
        'VarInt.read/send are analysed on their control-flow graphs: every '
        'cycle of the read loop is reduced to an abstract counter machine '
        '(read, increment, guard) whose worst case is computed; the send '
        'loop is decided by a ranking-function argument that needs value >= '
        '0 at loop entry (sign analysis); masks, shifts, continuation bit '
        'and the size table must agree on 7 payload bits per byte.')
    F = Folder(db)
    basic = db.modules.get(BASIC)
    if basic is None:
        raise AnalysisError('anchor module vanished: %s' % BASIC)
    vi = basic.classes.get('VarInt')
    vl = basic.classes.get('VarLong')
    if vi is None or vl is None:
        raise AnalysisError('VarInt/VarLong vanished')
    rd = db.own_method(vi, 'read')
    sd = db.own_method(vi, 'send')
    sz = db.own_method(vi, 'size')
    if rd is None or sd is None or sz is None:
        raise AnalysisError('VarInt.read/send/size vanished')
    consts = {}
    check_read(report, db, F, basic, vi, vl, rd, ref, consts)
    check_send(report, db, F, basic, sd, consts)
    check_constants(report, db, F, basic, rd, sd, sz, ref, consts)
    # VarLong must not re-implement the codec
    R = report.rule('R03.6', 'VarLong only widens max_bytes')
    own = [k for k in vl.attrs if k != 'max_bytes']
    if own:
        for fn in own:
            m = db.own_method(vl, fn)
            if m is not None and fn in ('read', 'send', 'size'):
                raise AnalysisError('VarLong overrides %s: sibling codec not '
                                    'analysed' % fn, m.node, rel(m.path))
    report.ok(R, 'VarLong defines only %s' % sorted(vl.attrs))


# ---------------------------------------------------------------------------
def check_read(report, db, F, basic, vi, vl, rd, ref, consts):
    R1 = report.rule('R03.1', 'read loop: one 1-byte read per iteration, '
                     'worst case max nominal+1 reads, exits only by clear '
                     'continuation bit or raise')
    R2 = report.rule('R03.2', 'no stream read after the terminating byte')
    R3 = report.rule('R03.3', 'decoded number is assembled from non-negative '
                     'pieces only')
    g = CFG(rd)
    stream = rd.params[1] if rd.kind in ('class', 'instance') else rd.params[0]
    loops = [n for n in ast.walk(rd.node) if isinstance(n, (ast.While,
                                                            ast.For))]
    if len(loops) != 1 or not isinstance(loops[0], ast.While):
        raise AnalysisError('VarInt.read: expected exactly one while loop',
                            rd.node, rel(rd.path))
    loop = loops[0]
    heads = [n for n in g.nodes if n.kind == 'test' and n.note is loop]
    head = heads[0]
    body = set(g.loop_nodes(loop))
    cyc = cycles(g, head, body | {head})
    if not cyc:
        raise AnalysisError('VarInt.read: loop has no cycle', loop,
                            rel(rd.path))
    # counter: a local incremented by a positive constant inside the loop
    incs = {}
    for n in body:
        a = n.ast
        if isinstance(a, ast.AugAssign) and isinstance(a.op, ast.Add) and \
                isinstance(a.target, ast.Name):
            c = cval(F, basic, a.value)
            if isinstance(c, int) and c > 0:
                incs[n] = (a.target.id, c)
    counters = set(v for v, _ in incs.values())
    if len(counters) != 1:
        report.violation(R1, 'read:counter', rd.path, loop, rd.qualname,
                         'no unique loop counter incremented by a positive '
                         'constant (found %s): the number of reads is not '
                         'bounded by a byte count' % sorted(counters))
        return
    counter = counters.pop()
    init = None
    for st in rd.node.body:
        if isinstance(st, ast.Assign) and len(st.targets) == 1 and \
                isinstance(st.targets[0], ast.Name) and \
                st.targets[0].id == counter:
            init = cval(F, basic, st.value)
    if not isinstance(init, int):
        raise AnalysisError('VarInt.read: counter %s has no constant '
                            'initialisation before the loop' % counter,
                            rd.node, rel(rd.path))
    consts['counter'] = counter
    consts['counter_init'] = init
    # guards: tests comparing the counter with cls.max_bytes, true arm raises
    guards = {}
    for n in body:
        if n.kind != 'test':
            continue
        t = n.ast
        if isinstance(t, ast.Compare) and len(t.ops) == 1 and \
                isinstance(t.left, ast.Name) and t.left.id == counter and \
                isinstance(t.ops[0], (ast.Gt, ast.GtE, ast.Eq)):
            tr = [s for s, l in n.succ if l == 'true']
            if tr and all(isinstance(s.ast, ast.Raise) for s in tr):
                guards[n] = (type(t.ops[0]).__name__, t.comparators[0])
    if not guards:
        report.violation(R1, 'read:guard', rd.path, loop, rd.qualname,
                         'no guard `%s > max -> raise` inside the loop: an '
                         'endless run of continuation bytes is read forever'
                         % counter)
        return
    # per class: simulate the worst-case cycle as a counter machine
    for ci, nominal in ((vi, ref['varint']['max_bytes']['VarInt']),
                        (vl, ref['varint']['max_bytes']['VarLong'])):
        worst = 0
        for path in cyc:
            events = []
            nreads = 0
            for n, l in path:
                k = len(reads_in(n.ast, stream)) if n.ast is not None else 0
                for x in (reads_in(n.ast, stream) if n.ast is not None
                          else []):
                    sz = cval(F, basic, x.args[0]) if x.args else None
                    if sz != 1:
                        report.violation(
                            R1, 'read:size', rd.path, x, rd.qualname,
                            'loop reads %r byte(s) at a time, not 1: bytes '
                            'of the next value are consumed' % (sz,))
                    events.append(('read',))
                    nreads += 1
                if n in incs:
                    events.append(('inc', incs[n][1]))
                if n in guards:
                    if l == 'true':
                        events = None
                        break
                    op, rhs = guards[n]
                    mv = guard_bound(F, db, basic, rhs, ci)
                    if mv is None:
                        raise AnalysisError(
                            'VarInt.read: guard bound %s does not fold'
                            % ast.unparse(rhs), rhs, rel(rd.path))
                    events.append(('guard', op, mv))
            if events is None:
                continue
            if nreads != 1:
                report.violation(
                    R1, 'read:per-iteration:%s' % ci.name, rd.path, loop,
                    rd.qualname, 'a path round the loop performs %d reads '
                    '(exactly one expected)' % nreads)
                return
            if not any(e[0] == 'inc' for e in events) or \
                    not any(e[0] == 'guard' for e in events):
                report.violation(
                    R1, 'read:unguarded-cycle:%s' % ci.name, rd.path, loop,
                    rd.qualname, 'a path round the loop skips the counter '
                    'increment or the max_bytes guard: unbounded reads')
                return
            w = simulate(events, init)
            if w is None:
                report.violation(
                    R1, 'read:unbounded:%s' % ci.name, rd.path, loop,
                    rd.qualname, 'counter machine of the loop never trips '
                    'its guard: unbounded reads')
                return
            worst = max(worst, w)
        if worst <= nominal + 1 and worst >= nominal:
            report.ok(R1, '%s.read: at most %d one-byte reads (nominal %d)'
                      % (ci.name, worst, nominal))
        elif worst > nominal + 1:
            report.violation(
                R1, 'read:bound:%s' % ci.name, rd.path, loop, rd.qualname,
                '%s.read can perform %d reads before giving up; the bound '
                'is nominal %d + 1' % (ci.name, worst, nominal))
        else:
            report.violation(
                R1, 'read:bound-low:%s' % ci.name, rd.path, loop, rd.qualname,
                '%s.read gives up after %d reads: a valid %d-byte encoding '
                'is rejected' % (ci.name, worst, nominal))
    # loop exits
    exits = []
    for n in body | {head}:
        for s, l in n.succ:
            if s not in body and s is not head:
                exits.append((n, s, l))
    for n, s, l in exits:
        if l == 'exc' or isinstance(n.ast, ast.Raise):
            continue
        if isinstance(n.ast, ast.Break):
            # the break must be guarded by a clear continuation bit of the
            # byte just read
            tests = [p for p, pl in n.pred if p.kind == 'test']
            ok = False
            for p in tests:
                m = cont_bit_test(p.ast)
                lab = [pl for q, pl in n.pred if q is p][0]
                if m is not None and ((m[1] and lab == 'true') or
                                      (not m[1] and lab == 'false')):
                    consts['read_cont'] = m[0]
                    ok = True
            if ok:
                report.ok(R1, 'exit by break under clear continuation bit')
            else:
                report.violation(R1, 'read:break-condition', rd.path, n.ast,
                                 rd.qualname, 'loop is left by a break that '
                                 'is not guarded by `not byte & 0x80`')
        else:
            report.violation(R1, 'read:exit', rd.path, n.ast or loop,
                             rd.qualname, 'unexpected normal exit from the '
                             'read loop at %r' % (n,))
    # EOF test inside the loop
    eof_ok = False
    for n in body:
        if n.kind == 'test':
            tr = [s for s, l in n.succ if l == 'true']
            if tr and all(isinstance(s.ast, ast.Raise) for s in tr) and \
                    n not in guards:
                eof_ok = True
    if eof_ok:
        report.ok(R1, 'empty read raises inside the loop')
    else:
        report.violation(R1, 'read:eof', rd.path, loop, rd.qualname,
                         'no test of the read result that raises on end of '
                         'stream')
    # R03.2 no read after the loop
    after = [n for n in g.reachable_nodes() if n not in body and n is not head
             and n.ast is not None and reads_in(n.ast, stream)
             and loop not in n.loops]
    pre = [n for n in after if g.dominates(n, head)]
    post = [n for n in after if n not in pre]
    if post or pre:
        for n in post + pre:
            report.violation(R2, 'read:overread', rd.path, n.ast, rd.qualname,
                             'a stream read outside the decoding loop '
                             'consumes a byte that does not belong to this '
                             'value')
    else:
        report.ok(R2, 'no read outside the loop')
    # R03.3 sign of the accumulated number
    ret = [n for n in ast.walk(rd.node) if isinstance(n, ast.Return)]
    if len(ret) != 1 or not isinstance(ret[0].value, ast.Name):
        raise AnalysisError('VarInt.read: expected `return <name>`',
                            rd.node, rel(rd.path))
    acc = ret[0].value.id
    nonneg = {counter}
    okk = True
    shifts = []
    for n in ast.walk(rd.node):
        tgt = None
        if isinstance(n, ast.Assign) and len(n.targets) == 1 and \
                isinstance(n.targets[0], ast.Name) and \
                n.targets[0].id == acc:
            tgt, val, op = acc, n.value, None
        elif isinstance(n, ast.AugAssign) and isinstance(n.target, ast.Name) \
                and n.target.id == acc:
            tgt, val, op = acc, n.value, n.op
        if tgt is None:
            continue
        if op is not None and not isinstance(op, (ast.BitOr, ast.Add)):
            okk = False
            report.violation(R3, 'read:acc-op', rd.path, n, rd.qualname,
                             'accumulator updated with %s'
                             % type(op).__name__)
            continue
        if not is_nonneg(val, nonneg, F, basic):
            okk = False
            report.violation(R3, 'read:acc-sign', rd.path, n, rd.qualname,
                             'piece %s added to the result is not provably '
                             'non-negative' % ast.unparse(val))
        for x in ast.walk(val):
            if isinstance(x, ast.BinOp) and isinstance(x.op, ast.LShift):
                shifts.append(x)
                m = mask_of(x.left, F, basic)
                if m is not None:
                    consts['read_mask'] = m
                consts['read_shift'] = shift_unit(x.right, counter, F, basic)
    if okk:
        report.ok(R3, '%s starts at a constant >= 0 and is only |=-ed with '
                  'masked, left-shifted pieces' % acc)


def guard_bound(F, db, basic, rhs, ci):
    """Value of the guard's right-hand side for class ci (cls.max_bytes)."""
    if isinstance(rhs, ast.Attribute) and isinstance(rhs.value, ast.Name) \
            and rhs.value.id in ('cls', 'self'):
        try:
            return F.getattr(ClassVal(ci), rhs.attr, rhs, basic)
        except FoldRaise:
            return None
    return cval(F, basic, rhs)


def simulate(events, init):
    """Reads performed before the guard trips when every byte has its
    continuation bit set."""
    c = init
    reads = 0
    for _ in range(100000):
        for e in events:
            if e[0] == 'read':
                reads += 1
            elif e[0] == 'inc':
                c += e[1]
            elif e[0] == 'guard':
                op, m = e[1], e[2]
                if (op == 'Gt' and c > m) or (op == 'GtE' and c >= m) or \
                        (op == 'Eq' and c == m):
                    return reads
        if reads > 10000:
            return None
    return None


def cont_bit_test(t):
    """(mask, exit_when_true) for `not byte & M` / `byte & M == 0` /
    `byte & M` (exit when false)."""
    if isinstance(t, ast.UnaryOp) and isinstance(t.op, ast.Not):
        m = plain_mask(t.operand)
        if m is not None:
            return m, True
    if isinstance(t, ast.Compare) and len(t.ops) == 1 and \
            isinstance(t.comparators[0], ast.Constant) and \
            t.comparators[0].value == 0:
        m = plain_mask(t.left)
        if m is not None:
            if isinstance(t.ops[0], ast.Eq):
                return m, True
            if isinstance(t.ops[0], ast.NotEq):
                return m, False
    m = plain_mask(t)
    if m is not None:
        return m, False
    return None


def plain_mask(e):
    if isinstance(e, ast.BinOp) and isinstance(e.op, ast.BitAnd):
        for a, b in ((e.left, e.right), (e.right, e.left)):
            if isinstance(b, ast.Constant) and isinstance(b.value, int) and \
                    isinstance(a, ast.Name):
                return b.value
    return None


def mask_of(e, F, basic):
    if isinstance(e, ast.BinOp) and isinstance(e.op, ast.BitAnd):
        for a, b in ((e.left, e.right), (e.right, e.left)):
            c = cval(F, basic, b)
            if isinstance(c, int):
                return c
    return None


def shift_unit(e, counter, F, basic):
    """k for a shift amount `k * counter` / `counter * k`."""
    if isinstance(e, ast.BinOp) and isinstance(e.op, ast.Mult):
        for a, b in ((e.left, e.right), (e.right, e.left)):
            if isinstance(a, ast.Name) and a.id == counter:
                c = cval(F, basic, b)
                if isinstance(c, int):
                    return c
    return None


def is_nonneg(e, nonneg_names, F, basic):
    c = cval(F, basic, e) if not isinstance(e, ast.Name) else None
    if isinstance(c, (int, float)) and not isinstance(c, bool):
        return c >= 0
    if isinstance(e, ast.Name):
        return e.id in nonneg_names
    if isinstance(e, ast.BinOp):
        if isinstance(e.op, ast.BitAnd):
            for b in (e.left, e.right):
                cc = cval(F, basic, b)
                if isinstance(cc, int) and cc >= 0:
                    return True
            return is_nonneg(e.left, nonneg_names, F, basic) and \
                is_nonneg(e.right, nonneg_names, F, basic)
        if isinstance(e.op, (ast.LShift, ast.RShift, ast.Mult, ast.Add,
                             ast.BitOr)):
            return is_nonneg(e.left, nonneg_names, F, basic) and \
                is_nonneg(e.right, nonneg_names, F, basic)
    if isinstance(e, ast.Call) and isinstance(e.func, ast.Name) and \
            e.func.id in ('ord', 'len'):
        return True
    return False


# ---------------------------------------------------------------------------
def check_send(report, db, F, basic, sd, consts):
    R4 = report.rule('R03.4', 'encode loop terminates: exit on value == 0, '
                     'only update value >>= k, and value >= 0 is established '
                     'before the loop')
    g = CFG(sd)
    vparam = sd.params[0] if sd.kind == 'static' else sd.params[1]
    loops = [n for n in ast.walk(sd.node) if isinstance(n, (ast.While,
                                                            ast.For))]
    if len(loops) != 1 or not isinstance(loops[0], ast.While):
        raise AnalysisError('VarInt.send: expected exactly one while loop',
                            sd.node, rel(sd.path))
    loop = loops[0]
    head = [n for n in g.nodes if n.kind == 'test' and n.note is loop][0]
    body = set(g.loop_nodes(loop))
    # updates of the value inside the loop
    ups = []
    for n in body:
        a = n.ast
        if isinstance(a, ast.AugAssign) and isinstance(a.target, ast.Name) \
                and a.target.id == vparam:
            ups.append(a)
        elif isinstance(a, ast.Assign) and any(
                isinstance(t, ast.Name) and t.id == vparam
                for t in a.targets):
            ups.append(a)
    shift = None
    good_update = len(ups) == 1 and isinstance(ups[0], ast.AugAssign) and \
        isinstance(ups[0].op, ast.RShift)
    if good_update:
        shift = cval(F, basic, ups[0].value)
        good_update = isinstance(shift, int) and shift > 0
    if not good_update:
        report.violation(R4, 'send:update', sd.path, loop, sd.qualname,
                         'the loop does not shrink the value by exactly one '
                         '`value >>= k` (k > 0) per iteration: %s'
                         % [ast.unparse(u) for u in ups])
        return
    consts['send_shift'] = shift
    # every cycle must pass the update
    for path in cycles(g, head, body | {head}):
        if not any(n.ast is ups[0] for n, _ in path):
            report.violation(R4, 'send:cycle', sd.path, loop, sd.qualname,
                             'a path round the encode loop does not shift '
                             'the value: it never reaches zero')
            return
    # exit condition
    exit_ok = False
    for n in body | {head}:
        if n.kind != 'test':
            continue
        t = n.ast
        zero_true = None
        if isinstance(t, ast.Compare) and len(t.ops) == 1 and \
                isinstance(t.left, ast.Name) and t.left.id == vparam and \
                isinstance(t.comparators[0], ast.Constant) and \
                t.comparators[0].value == 0:
            if isinstance(t.ops[0], ast.Eq):
                zero_true = True
            elif isinstance(t.ops[0], (ast.NotEq, ast.Gt)):
                zero_true = False
        elif isinstance(t, ast.UnaryOp) and isinstance(t.op, ast.Not) and \
                isinstance(t.operand, ast.Name) and t.operand.id == vparam:
            zero_true = True
        elif isinstance(t, ast.Name) and t.id == vparam:
            zero_true = False
        if zero_true is None:
            continue
        lab = 'true' if zero_true else 'false'
        outs = [s for s, l in n.succ if l == lab]
        if outs and all(isinstance(s.ast, ast.Break) or
                        (s not in body and s is not head) for s in outs):
            exit_ok = True
    if not exit_ok:
        report.violation(R4, 'send:exit', sd.path, loop, sd.qualname,
                         'the loop is not left when the value reaches 0')
        return
    # value >= 0 at loop entry
    est = nonneg_established(g, sd, head, vparam, F, basic)
    if est:
        report.ok(R4, 'value >= 0 at loop entry (%s); ranking function '
                  'value, strictly decreasing under >>= %d until 0'
                  % (est, shift))
    else:
        report.violation(
            R4, 'send:negative', sd.path, loop, sd.qualname,
            'nothing establishes value >= 0 before the encode loop: for a '
            'negative value `value >>= %d` converges to -1, never to 0, and '
            'the loop does not terminate' % shift)


def nonneg_established(g, fi, head, v, F, basic):
    """A dominating guard `if v < 0: raise` or a dominating mask
    `v &= const >= 0` / `v = v & const` / `v = v % const`."""
    for n in g.nodes:
        if not g.dominates(n, head) or n is head:
            continue
        a = n.ast
        if n.kind == 'test' and isinstance(a, ast.Compare) and \
                len(a.ops) == 1 and isinstance(a.left, ast.Name) and \
                a.left.id == v and isinstance(a.ops[0], ast.Lt) and \
                cval(F, basic, a.comparators[0]) == 0:
            tr = [s for s, l in n.succ if l == 'true']
            if tr and all(isinstance(s.ast, ast.Raise) for s in tr):
                return 'negative values are rejected at line %d' % n.lineno
        if isinstance(a, ast.AugAssign) and isinstance(a.target, ast.Name) \
                and a.target.id == v and isinstance(a.op, (ast.BitAnd,
                                                           ast.Mod)):
            c = cval(F, basic, a.value)
            if isinstance(c, int) and c >= 0:
                return 'masked to a non-negative range at line %d' % n.lineno
        if isinstance(a, ast.Assign) and len(a.targets) == 1 and \
                isinstance(a.targets[0], ast.Name) and \
                a.targets[0].id == v and isinstance(a.value, ast.BinOp) and \
                isinstance(a.value.op, (ast.BitAnd, ast.Mod)):
            c = cval(F, basic, a.value.right)
            if isinstance(c, int) and c > 0:
                return 'masked to a non-negative range at line %d' % n.lineno
    return None


# ---------------------------------------------------------------------------
def check_constants(report, db, F, basic, rd, sd, sz, ref, consts):
    R5 = report.rule('R03.5', 'send, read and the size table agree on 7 '
                     'payload bits per byte, little-endian groups')
    bits = ref['varint']['payload_bits']
    mask = (1 << bits) - 1
    cont = 1 << bits
    # send-side mask and continuation flag
    smask = None
    scont = None
    flag_cond = None
    for n in ast.walk(sd.node):
        if isinstance(n, ast.Assign) and isinstance(n.value, ast.BinOp) and \
                isinstance(n.value.op, ast.BitAnd):
            m = mask_of(n.value, F, basic)
            if m is not None:
                smask = m
        if isinstance(n, ast.IfExp):
            b = cval(F, basic, n.body)
            o = cval(F, basic, n.orelse)
            if isinstance(b, int) and isinstance(o, int):
                scont = b if b else o
                flag_cond = (n.test, bool(b))
    probs = []
    if consts.get('read_mask') != mask:
        probs.append((rd, 'read masks the payload with %r, not 0x%02X'
                      % (consts.get('read_mask'), mask)))
    if consts.get('read_shift') != bits:
        probs.append((rd, 'read shifts group i by %r*i bits, not %d*i'
                      % (consts.get('read_shift'), bits)))
    if consts.get('read_cont') != cont:
        probs.append((rd, 'read tests continuation bit %r, not 0x%02X'
                      % (consts.get('read_cont'), cont)))
    if consts.get('counter_init') != 0:
        probs.append((rd, 'group counter starts at %r, not 0'
                      % consts.get('counter_init')))
    if smask != mask:
        probs.append((sd, 'send masks each group with %r, not 0x%02X'
                      % (smask, mask)))
    if consts.get('send_shift') is not None and \
            consts.get('send_shift') != bits:
        probs.append((sd, 'send shifts by %r bits per byte, not %d'
                      % (consts.get('send_shift'), bits)))
    if scont != cont:
        probs.append((sd, 'send sets continuation flag %r, not 0x%02X'
                      % (scont, cont)))
    if flag_cond is not None:
        t, when_true = flag_cond
        okf = False
        if isinstance(t, ast.Compare) and len(t.ops) == 1 and \
                isinstance(t.left, ast.Name) and \
                isinstance(t.comparators[0], ast.Constant) and \
                t.comparators[0].value == 0:
            if when_true and isinstance(t.ops[0], (ast.Gt, ast.NotEq)):
                okf = True
            if not when_true and isinstance(t.ops[0], ast.Eq):
                okf = True
        elif isinstance(t, ast.Name) and when_true:
            okf = True
        if not okf:
            probs.append((sd, 'continuation flag is not set exactly when '
                          'more groups remain: %s' % ast.unparse(t)))
    else:
        probs.append((sd, 'no continuation flag expression found'))
    for fi, msg in probs:
        report.violation(R5, 'const:%s:%s' % (fi.name, msg.split(' ')[1]),
                         fi.path, fi.node, fi.qualname, msg)
    if not probs:
        report.ok(R5, 'mask 0x%02X, shift %d, continuation 0x%02X on both '
                  'sides, low group first' % (mask, bits, cont))
    # size table
    tbl = cval(F, basic, ast.Name(id='VARINT_SIZE_TABLE', ctx=ast.Load()))
    if not isinstance(tbl, dict):
        raise AnalysisError('VARINT_SIZE_TABLE does not fold to a dict')
    keys = list(tbl.keys())
    good = len(keys) >= 10
    for i, k in enumerate(keys):
        if k != 2 ** (bits * (i + 1)) or tbl[k] != i + 1:
            good = False
            report.violation(
                R5, 'sizetable:%d' % (i + 1), basic.path, None,
                'VARINT_SIZE_TABLE',
                'entry %d of the size table is %r: %r, expected 2**%d: %d '
                '(ascending insertion order is what size() relies on)'
                % (i + 1, k, tbl[k], bits * (i + 1), i + 1))
            break
    if good:
        report.ok(R5, 'size table is {2**(7k): k} for k = 1..%d in '
                  'ascending order' % len(keys))
    elif len(keys) < 10:
        report.violation(R5, 'sizetable:short', basic.path, None,
                         'VARINT_SIZE_TABLE', 'size table has only %d rows; '
                         'VarLong needs 10' % len(keys))
    # size(): first key exceeding the value
    okk = False
    vparam = sz.params[0]
    for n in ast.walk(sz.node):
        if isinstance(n, ast.For) and isinstance(n.target, ast.Tuple) and \
                len(n.target.elts) == 2 and \
                ast.unparse(n.iter) == 'VARINT_SIZE_TABLE.items()':
            kname, vname = [e.id for e in n.target.elts]
            for st in n.body:
                if isinstance(st, ast.If) and isinstance(st.test, ast.Compare) \
                        and len(st.test.ops) == 1:
                    t = st.test
                    lt = (isinstance(t.ops[0], ast.Lt) and
                          isinstance(t.left, ast.Name) and
                          t.left.id == vparam and
                          isinstance(t.comparators[0], ast.Name) and
                          t.comparators[0].id == kname)
                    gt = (isinstance(t.ops[0], ast.Gt) and
                          isinstance(t.left, ast.Name) and
                          t.left.id == kname and
                          isinstance(t.comparators[0], ast.Name) and
                          t.comparators[0].id == vparam)
                    if (lt or gt) and st.body and \
                            isinstance(st.body[0], ast.Return) and \
                            isinstance(st.body[0].value, ast.Name) and \
                            st.body[0].value.id == vname:
                        okk = True
    if okk:
        report.ok(R5, 'size(): first table key strictly above the value')
    else:
        report.violation(R5, 'size:lookup', sz.path, sz.node, sz.qualname,
                         'size() does not return the size of the first '
                         'table key strictly greater than the value')
