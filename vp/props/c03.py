"""C03 -- VarInt/VarLong decoding is bounded; encoding terminates and is
canonical.  Loop-bound, sign and sibling-constant analysis of VarInt.read /
VarInt.send / VARINT_SIZE_TABLE / VarInt.size over their CFGs."""
import ast
import json
import os

from ..common import AnalysisError, VERIF, rel
from ..fold import Folder, Env, ClassVal, Opaque, FoldRaise
from ..cfg import CFG

BASIC = 'minecraft.networking.types.basic'


def cval(F, module, node):
    try:
        v = F.eval(node, Env(module))
    except (AnalysisError, FoldRaise):
        return None
    return None if isinstance(v, Opaque) else v


from ..reassembly import Lin
from ..pathsum import struct, show, is_const, subterms


def run(report, db, tier):
    ref = json.load(open(os.path.join(VERIF, 'reference', 'wire_types.json')))
    report.explanation = (
        'VarInt.read/send are analysed on their loop summaries (vp.pathsum: '
        'one symbolic iteration per loop, with the values the loop-carried '
        'variables have at its end).  The read loop is reduced to an '
        'abstract counter machine: every counter is a linear function of '
        'the iteration number (inferred from its change per iteration), the '
        'guard bounds the iteration number, and the worst case number of '
        'reads is computed; the accumulated number is checked to be an OR / '
        'sum of (byte & mask) << (7 * iteration).  The send loop is decided '
        'by a ranking-function argument that needs value >= 0 at loop entry '
        '(sign analysis); masks, shifts, continuation bit and the size '
        'table must agree on 7 payload bits per byte.')
    F = Folder(db)
    basic = db.modules.get(BASIC)
    if basic is None:
        raise AnalysisError('anchor module vanished: %s' % BASIC)
    vi = basic.classes.get('VarInt')
    vl = basic.classes.get('VarLong')
    if vi is None or vl is None:
        raise AnalysisError('VarInt/VarLong vanished')
    rd = db.own_method(vi, 'read')
    sd = db.own_method(vi, 'send')
    sz = db.own_method(vi, 'size')
    if rd is None or sd is None or sz is None:
        raise AnalysisError('VarInt.read/send/size vanished')
    consts = {}
    from ..callgraph import CallGraph
    from .. import shared
    # counted loops stay loops here (the rules bound the iteration number)
    S = shared.summariser(db, CallGraph(db), implicit_raises=False, unroll=0)
    check_read(report, db, S, vi, vl, rd, ref, consts)
    check_send(report, db, S, sd, consts)
    check_constants(report, db, F, S, basic, rd, sd, sz, ref, consts)
    # VarLong must not re-implement the codec
    R = report.rule('R03.6', 'VarLong only widens max_bytes')
    own = [k for k in vl.attrs if k != 'max_bytes']
    deleg = 0
    for fn in own:
        m = db.own_method(vl, fn)
        if m is None or fn not in ('read', 'send', 'size'):
            continue
        # an override may only pass the inherited codec through: every path
        # calls the inherited method once with its own arguments and hands
        # the result on; a path that raises on its own refuses values the
        # inherited decoder accepts and the encoder produces
        base = db.own_method(vi, fn)
        bad = None
        for p in S.run(m):
            inh = [e for e in p.flat(('call',)) if e.calls(base)
                   or (e.fn[0] == 'attr' and e.fn[2] == fn
                       and e.fn[1][0] == 'call'
                       and e.fn[1][1] == ('builtin', 'super'))]
            others = [e for e in p.flat(('call', 'store', 'setitem'))
                      if e not in inh and not (
                          e.kind == 'call' and e.fn == ('builtin', 'super'))
                      and not (e.kind == 'call' and p.raises)]
            if p.raises and len(p.outcome) == 3:
                bad = ('varlong:extra-raise:%s' % fn, 'VarLong.%s raises on '
                       'its own when [%s]: the inherited codec accepts that '
                       'value (the encoder produces it), so VarLong no '
                       'longer round-trips its range' % (fn, p.cond_text()))
                break
            if len(inh) != 1 or others or (
                    p.returns and fn != 'send' and p.value != inh[0].res):
                raise AnalysisError('VarLong overrides %s: sibling codec not '
                                    'analysed' % fn, m.node, rel(m.path))
            # the inherited method must still run as VarLong: a call through
            # a named class binds cls to that class, and every class
            # attribute the inherited code reads through cls (max_bytes)
            # then comes from there
            f0 = inh[0].fn
            if (f0[0] == 'fn' and len(f0) > 2 and f0[2] and
                    f0[2][0] == 'cls' and f0[2][1] is not vl and
                    base.kind == 'class'):
                first = base.all_params[0] if base.params else None
                reads = sorted({n.attr for n in ast.walk(base.node)
                                if isinstance(n, ast.Attribute)
                                and isinstance(n.value, ast.Name)
                                and n.value.id == first})
                for a in reads:
                    d1, d2 = db.find_attr(vl, a), db.find_attr(f0[2][1], a)
                    if d1 is not d2:
                        bad = ('varlong:rebound:%s:%s' % (fn, a),
                               'VarLong.%s calls %s.%s directly, so the '
                               'inherited code runs with cls = %s and reads '
                               '%s.%s instead of VarLong.%s: VarLong no '
                               'longer has its own %s' % (
                                   fn, f0[2][1].name, fn, f0[2][1].name,
                                   f0[2][1].name, a, a, a))
                        break
                if bad:
                    break
        if bad:
            report.violation(R, bad[0], m.path, m.node, m.qualname, bad[1])
        else:
            deleg += 1
            report.ok(R, 'VarLong.%s passes the inherited codec through' % fn)
    if not own:
        report.ok(R, 'VarLong defines only %s' % sorted(vl.attrs))
    # ... and every entry point VarLong *inherits* must reach the codec as
    # VarLong too: a method of VarInt (or Type) that calls VarInt.read by
    # name runs it with cls = VarInt whoever inherited the method
    codec = {nm: db.own_method(vi, nm) for nm in ('read', 'send', 'size')}
    n_in = 0
    for nm in ('read', 'send', 'size', 'read_with_context',
               'send_with_context'):
        m = db.find_method(vl, nm)
        if m is None or m.cls is vl or m in codec.values() or \
                isinstance(m.node, ast.Lambda) and False:
            continue
        n_in += 1
        try:
            mpaths = S.run(m)
        except AnalysisError:
            raise
        hit = None
        for p in mpaths:
            for e in p.flat(('call',)):
                f0 = e.fn
                base = next((b for b in codec.values() if b is not None
                             and e.calls(b)), None)
                if base is None or base.kind != 'class':
                    continue
                if not (f0[0] == 'fn' and len(f0) > 2 and f0[2]
                        and f0[2][0] == 'cls' and f0[2][1] is not vl):
                    continue
                first = base.all_params[0] if base.params else None
                for a in sorted({x.attr for x in ast.walk(base.node)
                                 if isinstance(x, ast.Attribute)
                                 and isinstance(x.value, ast.Name)
                                 and x.value.id == first}):
                    if db.find_attr(vl, a) is not db.find_attr(f0[2][1], a):
                        hit = (e, a, f0[2][1])
                        break
                if hit:
                    break
            if hit:
                break
        if hit:
            e, a, c = hit
            report.violation(
                R, 'varlong:rebound:%s:%s' % (nm, a), m.path, e.node,
                m.qualname, 'VarLong.%s is inherited from %s and calls '
                '%s.%s by name: run for VarLong it decodes with %s.%s '
                'instead of VarLong.%s, so this entry point and VarLong.%s '
                'disagree' % (nm, m.cls.name if m.cls else '?', c.name,
                              e.method(), c.name, a, a, e.method()))
        else:
            report.ok(R, 'VarLong.%s (inherited from %s) keeps cls' % (
                nm, m.cls.name if m.cls else '?'))
    report.floor('inherited VarLong entry points', n_in, 2)


# ---------------------------------------------------------------------------
def sy(n):
    return ('sym', n)


def loops_of(paths):
    out = {}
    for p in paths:
        for e in p.events:
            if e.kind == 'loop':
                out.setdefault(id(e.node), e)
    return list(out.values())


def lin_in_n(t, inv):
    """linear form of an integer term in which loop-carried variables are
    replaced by their invariant (a function of the iteration number 'n')"""
    if is_const(t) and isinstance(t[1], int) and not isinstance(t[1], bool):
        return Lin(const=t[1])
    if t[0] == 'phi':
        return inv.get(t, Lin.sym(t))
    if t[0] == 'elem' and t in inv:
        return inv[t]
    if t[0] == 'op' and t[1] in ('+', '-') and len(t[2]) == 2:
        a, b = lin_in_n(t[2][0], inv), lin_in_n(t[2][1], inv)
        return a + b if t[1] == '+' else a - b
    if t[0] == 'op' and t[1] == '*' and len(t[2]) == 2:
        a, b = lin_in_n(t[2][0], inv), lin_in_n(t[2][1], inv)
        if not a.coef:
            return b.scale(a.const)
        if not b.coef:
            return a.scale(b.const)
    return Lin.sym(t)


def counter_invariants(lp):
    """{phi term: Lin in 'n'} for every loop-carried variable whose change
    per iteration is the same constant on every path that goes on."""
    inv = {}
    goes_on = [q for q in lp.paths if q.outcome[0] in ('fall', 'continue')]
    for name, ph in (lp.phis or {}).items():
        pre = (lp.pre or {}).get(name)
        if pre is None or not (is_const(pre) and isinstance(pre[1], int)):
            continue
        ks = set()
        for q in goes_on:
            end = q.env.get(name)
            if end is None:
                ks.add(None)
                continue
            d = lin_in_n(end, {}) - Lin.sym(ph)
            ks.add(d.const if not d.coef else None)
        if len(ks) == 1 and None not in ks:
            k = ks.pop()
            inv[ph] = Lin(const=pre[1]) + Lin.sym('n').scale(k)
    # a `for x in range(a, b, s)`: the element is a + s * n
    return inv


def range_info(lp):
    """(elem term, Lin in n, number of iterations) for a for-loop over a
    constant range, else None"""
    it = lp.ctx

    def cint(t):
        """integer value of a term built from constants, or None"""
        if is_const(t):
            return t[1] if isinstance(t[1], int) and not isinstance(
                t[1], bool) else None
        if t[0] == 'op' and t[1] in ('+', '-', '*') and len(t[2]) == 2:
            a, b = cint(t[2][0]), cint(t[2][1])
            if a is None or b is None:
                return None
            return a + b if t[1] == '+' else a - b if t[1] == '-' else a * b
        return None
    unbounded = False
    if it[0] == 'op' and it[1] == 'range':
        args = [cint(x) for x in it[2]]
        if not args or None in args:
            return None
        r = range(*args)
    elif it[0] == 'call' and it[1] == ('ext', 'itertools.count') and \
            len(it[2]) <= 2 and not it[3]:
        # for i in itertools.count(a, s): i = a + s * n, no end of its own
        args = [cint(x) for x in it[2]]
        if None in args:
            return None
        start = args[0] if args else 0
        step = args[1] if len(args) > 1 else 1
        r = range(start, start + step, step)     # start / step carrier
        unbounded = True
    else:
        return None
    el = None
    for q in lp.paths:
        for t in (x for a, _, _ in q.conds for x in subterms(a)):
            if t[0] == 'elem' and struct(t[1]) == struct(it):
                el = t
        for v in q.env.values():
            for t in subterms(v):
                if t[0] == 'elem' and struct(t[1]) == struct(it):
                    el = t
    start = r.start
    step = r.step
    return el, Lin(const=start) + Lin.sym('n').scale(step), \
        (None if unbounded else len(r))


def bit_test(a, pol):
    """(byte term, mask, set?) when the atom tests `byte & mask`"""
    t = None
    val = None
    if a[1] == 'truth':
        t, val = a[2][0], pol
    elif a[1] == '==' and is_const(a[2][1]) and a[2][1][1] == 0:
        t, val = a[2][0], not pol
    elif a[1] == '==' and is_const(a[2][0]) and a[2][0][1] == 0:
        t, val = a[2][1], not pol
    elif a[1] == '<' and a[2][0] == ('const', 0):
        t, val = a[2][1], pol
    if t is not None and t[0] == 'op' and t[1] == '&' and len(t[2]) == 2:
        l, r = t[2]
        if is_const(r) and isinstance(r[1], int):
            return l, r[1], val
        if is_const(l) and isinstance(l[1], int):
            return r, l[1], val
    return None


def check_read(report, db, S, vi, vl, rd, ref, consts):
    R1 = report.rule('R03.1', 'read loop: one 1-byte read per iteration, '
                     'worst case max nominal+1 reads, exits only by clear '
                     'continuation bit or raise')
    R2 = report.rule('R03.2', 'no stream read after the terminating byte')
    R3 = report.rule('R03.3', 'decoded number is assembled from non-negative '
                     'pieces only')
    stream = sy(rd.all_params[1] if rd.kind in ('class', 'instance')
                else rd.all_params[0])
    for ci in (vi, vl):
        paths = S.run(rd, self_term=('cls', ci))
        loops = loops_of(paths)
        if len(loops) != 1:
            raise AnalysisError('VarInt.read: expected exactly one loop, '
                                'found %d' % len(loops), rd.node,
                                rel(rd.path))
        lp = loops[0]

        def is_raw(e):
            r = e.fn[1] if e.fn[0] == 'attr' else (
                e.fn[2] if e.fn[0] == 'fn' and len(e.fn) > 2 else None)
            return e.kind == 'call' and e.method() in ('read', 'recv') and \
                r is not None and struct(r) == stream
        inv = counter_invariants(lp)
        ri = range_info(lp)
        if ri is not None and ri[0] is not None:
            inv[ri[0]] = ri[1]
        prob1, prob2, prob3 = [], [], []
        # -- R03.1: one 1-byte read per iteration -----------------------------
        byte_terms = set()
        def by_test(q):
            """the loop test came out false: no iteration, the loop ends"""
            return q.outcome == ('break', 'cond')

        def after_break_raises(q):
            """every path of the function that left the loop by this
            `break` raises afterwards"""
            found = False
            for p in paths:
                for nt in p.notes:
                    if nt[0] == 'left-by-break' and nt[1] is lp.node and \
                            nt[2].events is q.events:
                        found = True
                        if not p.raises:
                            return False
            return found
        for q in lp.paths:
            reads = [e for e in q.flat(('call',)) if is_raw(e)]
            if by_test(q) and not reads:
                continue
            if len(reads) != 1:
                prob1.append(('read:count', 'an iteration performs %d '
                              'stream reads [%s]' % (len(reads),
                                                     q.cond_text()[:120])))
                continue
            r = reads[0]
            if [struct(a) for a in r.args if struct(a) != stream] != [
                    ('const', 1)]:
                prob1.append(('read:size', 'an iteration reads %s bytes '
                              'at once; a byte of the next field would be '
                              'consumed' % [show(a) for a in r.args]))
            if q.flat(('call', 'store'))[0] is not r:
                prob1.append(('read:first', 'something happens before the '
                              'read'))
        # exits and the bound on the iteration number
        exits_ok = True
        bound = None
        cont_mask = None
        for q in lp.paths:
            oc = q.outcome[0]
            if by_test(q):
                continue
            bt = None
            for a, pol, _ in q.conds:
                b = bit_test(a, pol)
                if b is not None and any(x[0] == 'call' for x in
                                         subterms(b[0])):
                    bt = b
                    byte_terms.add(struct(b[0]))
            if oc == 'break' and len(q.outcome) == 1 and (
                    bt is None or bt[2] is not False) and \
                    after_break_raises(q):
                # the bound was reached: the loop is left and what follows
                # raises -- the same as raising inside the loop
                continue
            if oc in ('return', 'break') and not (len(q.outcome) == 2
                                                 and oc == 'break'):
                if bt is None or bt[2] is not False:
                    exits_ok = False
                    prob1.append(('read:exit', 'the loop is left normally '
                                  'when [%s]; it may only be left when the '
                                  'continuation bit of the byte just read '
                                  'is clear' % q.cond_text()[:160]))
                else:
                    cont_mask = bt[1]
                after = [e for e in q.flat(('call',)) if is_raw(e)]
                # R03.2: nothing is read after the decision
                dec = [i for i, (a, pol, _) in enumerate(q.conds)
                       if bit_test(a, pol) is not None]
                if dec and any(e.nconds > dec[-1] + len(q.conds) * 0
                               and e.nconds - (q.events[0].nconds
                                               if q.events else 0) > dec[-1]
                               for e in after[1:]):
                    prob2.append('a stream read follows the terminating '
                                 'byte')
            elif oc in ('fall', 'continue'):
                if bt is None or bt[2] is not True:
                    prob1.append(('read:continue', 'an iteration goes on '
                                  'although the continuation bit is not '
                                  'known to be set [%s]'
                                  % q.cond_text()[:160]))
                # the guard: a decision comparing a counter with a constant
                for a, pol, _ in q.conds:
                    if a[1] not in ('<', '<='):
                        continue
                    l, r = lin_in_n(a[2][0], inv), lin_in_n(a[2][1], inv)
                    d = r - l       # pol: d > 0 ('<') or d >= 0 ('<=')
                    if set(d.coef) != {'n'}:
                        continue
                    k, c = d.coef['n'], d.const
                    strict = a[1] == '<'
                    # holds: k*n + c > 0 (strict) / >= 0
                    if not pol:
                        # negation: k*n + c <= 0 (strict) / < 0
                        k, c, strict = -k, -c, not strict
                    # now: k*n + c > 0 if strict else >= 0
                    if k >= 0:
                        continue        # no upper bound on n
                    # n < c / -k  (strict)  or  n <= c / -k
                    m = -k
                    u = (c - 1) // m if strict else c // m
                    # a guard decided before the iteration's read keeps the
                    # read itself from happening: one read fewer
                    rds = [e for e in q.flat(('call',)) if is_raw(e)]
                    idx = [i for i, (a2, _, _) in enumerate(q.conds)
                           if a2 is a][0]
                    if rds and idx < rds[0].nconds - lp.nconds:
                        u -= 1
                    bound = u if bound is None else min(bound, u)
        if ri is not None and ri[2] is not None:
            reads_max = ri[2]
        elif bound is not None:
            reads_max = bound + 2
        else:
            reads_max = None
        nominal = ref['varint']['max_bytes'][ci.name]
        if reads_max is None:
            prob1.append(('read:counter', 'no loop counter that grows by a '
                          'positive constant is compared with a bound: the '
                          'number of reads is not bounded by a byte count'))
        elif reads_max != nominal + 1:
            prob1.append(('read:worst-case', '%s.read performs up to %d '
                          'reads before it gives up; the protocol allows %d '
                          'bytes (the decoder tolerates one more)'
                          % (ci.name, reads_max, nominal)))
        # running out of iterations is the over-long encoding: it raises
        endless = lp.ctx[0] == 'call' and lp.ctx[1] == (
            'ext', 'itertools.count')
        for p in paths:
            if not endless and p.returns and any(
                    nt[0] == 'exhausted' and nt[1] is lp.node
                    for nt in p.notes):
                prob1.append(('read:exhausted', 'when the loop runs out of '
                              'iterations the function returns normally: an '
                              'over-long encoding is accepted instead of '
                              'refused'))
        # after the loop nothing is read
        for p in paths:
            seen_loop = False
            for e in p.events:
                if e.kind == 'loop':
                    seen_loop = True
                elif seen_loop and not e.loops and e.kind == 'call' and \
                        is_raw(e):
                    prob2.append('a stream read follows the loop')
        # -- R03.3: the number ------------------------------------------------
        acc = None
        shift_unit = mask = None
        for q in lp.paths:
            if q.outcome[0] == 'raise':
                continue
            for name, ph in (lp.phis or {}).items():
                end = q.env.get(name)
                if end is None or end == ph or ph in inv:
                    continue
                if not (end[0] == 'op' and end[1] in ('|', '+')
                        and len(end[2]) == 2 and ph in end[2]):
                    continue
                piece = end[2][1] if end[2][0] == ph else end[2][0]
                acc = name
                if not (piece[0] == 'op' and piece[1] == '<<'):
                    prob3.append('group i contributes %s' % show(piece))
                    continue
                val, sh = piece[2]
                if val[0] == 'op' and val[1] == '&' and len(val[2]) == 2 \
                        and any(is_const(x) and isinstance(x[1], int)
                                and x[1] >= 0 for x in val[2]):
                    mask = [x[1] for x in val[2] if is_const(x)][0]
                    b = [x for x in val[2] if not is_const(x)][0]
                    byte_terms.add(struct(b))
                else:
                    prob3.append('the payload bits are %s: not masked with '
                                 'a non-negative constant' % show(val))
                f = lin_in_n(sh, inv)
                if set(f.coef) <= {'n'} and f.const == 0 and \
                        f.coef.get('n', 0) > 0:
                    shift_unit = f.coef['n']
                else:
                    prob3.append('group i is shifted by %s (= %s): not a '
                                 'non-negative multiple of the group '
                                 'index' % (show(sh), f))
                pre = (lp.pre or {}).get(name)
                if pre != ('const', 0):
                    prob3.append('the number starts at %s' % (
                        show(pre) if pre else None))
        if acc is None:
            prob3.append('no accumulation `number |= piece` found')
        if len(byte_terms) > 1:
            prob3.append('the continuation test and the payload use '
                         'different bytes: %s' % sorted(
                             show(b) for b in byte_terms))
        # returned value is the accumulator
        def nonneg(t):
            """sign analysis: the term cannot be negative (the accumulator
            is a sum of non-negative pieces by the checks above)"""
            if t[0] == 'phi' and t[1] == acc:
                return True
            if is_const(t):
                return isinstance(t[1], int) and t[1] >= 0
            if t[0] != 'op' or not t[2]:
                return False
            a = t[2]
            if t[1] == '&':
                return any(nonneg(x) for x in a)
            if t[1] in ('|', '+', '*'):
                return all(nonneg(x) for x in a)
            if t[1] in ('<<', '>>', '//'):
                return nonneg(a[0])
            if t[1] == '%':
                return len(a) == 2 and nonneg(a[1])
            if t[1] in ('int', 'abs', 'len', 'ord'):
                return t[1] != 'int' or nonneg(a[0])
            return False
        for p in paths:
            if p.returns:
                v = p.value
                if not any(t[0] == 'phi' and t[1] == acc
                           for t in subterms(v)) and v != ('const', None):
                    prob3.append('read returns %s' % show(v)[:80])
                elif v != ('const', None) and not nonneg(v):
                    prob3.append('read returns %s, which can be negative: '
                                 'send refuses negative numbers, so a value '
                                 'read from the wire cannot be written back'
                                 % show(v)[:80])
        if ci is vi:
            consts['read_mask'] = mask
            consts['read_shift'] = shift_unit
            consts['read_cont'] = cont_mask
            cnt0 = [f.const for ph, f in inv.items()
                    if f.coef.get('n', 0) > 0]
            consts['counter_init'] = 0 if (ri is not None and ri[1].const
                                           == 0) or 0 in cnt0 or not cnt0 \
                else cnt0[0]
        seen = set()
        for key, msg in prob1:
            if key in seen:
                continue
            seen.add(key)
            report.violation(R1, key, rd.path, lp.node, rd.qualname,
                             '%s: %s' % (ci.name, msg))
        if not prob1:
            report.ok(R1, '%s: one read(1) per iteration, at most %d reads, '
                      'left only on a clear continuation bit or by raising'
                      % (ci.name, reads_max))
        if prob2:
            report.violation(R2, 'read:after-terminator', rd.path, lp.node,
                             rd.qualname, sorted(set(prob2))[0])
        else:
            report.ok(R2, '%s: nothing is read after the terminating byte'
                      % ci.name)
        if prob3:
            report.violation(R3, 'read:pieces', rd.path, lp.node,
                             rd.qualname, '; '.join(sorted(set(prob3))))
        else:
            report.ok(R3, '%s: number = OR of (byte & 0x%02X) << (%d * i), '
                      'from 0' % (ci.name, mask, shift_unit))


def nonneg_at_entry(p, lp, name, start):
    """The value that enters the loop as `name` is known to be >= 0."""
    v = (lp.pre or {}).get(name)
    if v is None:
        return False
    if v[0] == 'op' and v[1] == '&' and any(
            is_const(x) and isinstance(x[1], int) and x[1] >= 0
            for x in v[2]):
        return True
    for a, pol, _ in p.conds[:lp.nconds]:
        if a[1] == '<' and struct(a[2][0]) == struct(v) and \
                a[2][1] == ('const', 0) and not pol:
            return True
        if a[1] == '<=' and a[2][0] == ('const', 0) and \
                struct(a[2][1]) == struct(v) and pol:
            return True
    return False


def check_send(report, db, S, sd, consts):
    R4 = report.rule('R03.4', 'encode loop terminates: exit on value == 0, '
                     'only update value >>= k, and value >= 0 is established '
                     'before the loop')
    paths = S.run(sd)
    vparam = sy(sd.all_params[0])
    loops = loops_of(paths)
    if len(loops) != 1:
        raise AnalysisError('VarInt.send: expected exactly one loop, found '
                            '%d' % len(loops), sd.node, rel(sd.path))
    lp = loops[0]
    prob = []
    # the loop-carried value: the variable updated by >>=
    vname = None
    k = None
    for name, ph in (lp.phis or {}).items():
        ends = set()
        for q in lp.paths:
            if q.outcome[0] == 'raise':
                continue
            e = q.env.get(name)
            ends.add(struct(e) if e is not None else None)
        if len(ends) == 1:
            e = list(ends)[0]
            if e is not None and e[0] == 'op' and e[1] == '>>' and \
                    e[2][0] == struct(ph) and is_const(e[2][1]):
                vname, k = name, e[2][1][1]
    if vname is None:
        report.violation(R4, 'send:update', sd.path, lp.node, sd.qualname,
                         'no variable is updated by `value >>= k` on every '
                         'iteration: the loop has no ranking function')
        return
    consts['send_shift'] = k
    ph = lp.phis[vname]
    nxt = ('op', '>>', (ph, ('const', k)))
    # exits exactly when the shifted value is 0
    for q in lp.paths:
        zero = None
        for a, pol, _ in q.conds:
            if a[1] == '==' and set(struct(x) for x in a[2]) == {
                    struct(nxt), ('const', 0)}:
                zero = pol
            elif a[1] == 'truth' and struct(a[2][0]) == struct(nxt):
                zero = not pol
            elif a[1] == '<' and a[2] == (('const', 0), nxt) and \
                    zero is None:
                pass
        oc = q.outcome[0]
        if oc in ('break', 'return') and not (len(q.outcome) == 2):
            if zero is not True:
                prob.append(('send:exit', 'the loop is left when [%s], not '
                             'exactly when the remaining value is 0'
                             % q.cond_text()[:120]))
        elif oc in ('fall', 'continue'):
            if zero is not False:
                prob.append(('send:exit', 'the loop goes on when [%s], not '
                             'exactly when the remaining value is non-zero'
                             % q.cond_text()[:120]))
    # value >= 0 at loop entry on every path that reaches the loop
    pre = (lp.pre or {}).get(vname)
    for p in paths:
        if not any(e is lp or (e.kind == 'loop' and e.node is lp.node)
                   for e in p.events):
            continue
        lpe = [e for e in p.events if e.kind == 'loop'][0]
        if not nonneg_at_entry(p, lpe, vname, vparam):
            prob.append(('send:negative', 'the loop is entered without the '
                         'value being known to be >= 0 [%s]: for a negative '
                         'value `>>= %d` never reaches 0 and the loop does '
                         'not terminate' % (p.cond_text()[:100], k)))
    if not any(p.raises or True for p in paths):
        pass
    seen = set()
    for key, msg in prob:
        if key in seen:
            continue
        seen.add(key)
        report.violation(R4, key, sd.path, lp.node, sd.qualname, msg)
    if not prob:
        report.ok(R4, 'value >>= %d every iteration, left exactly when the '
                  'rest is 0, value >= 0 on entry' % k)
    # what each iteration emits
    smask = scont = None
    flag_ok = True
    for q in lp.paths:
        if q.outcome[0] == 'raise':
            continue
        packs = [e for e in q.flat(('call',))
                 if e.fn == ('ext', 'struct.pack')
                 and e.args[:1] == (('const', 'B'),) and len(e.args) == 2]
        apps = [e for e in q.flat(('call',)) if e.fn[0] == 'attr'
                and e.fn[2] == 'append' and len(e.args) == 1
                and not any(x.fn == ('ext', 'struct.pack')
                            for x in q.flat(('call',)))]
        if len(packs) + len(apps) != 1:
            flag_ok = False
            continue
        v = packs[0].args[1] if packs else apps[0].args[0]
        low = flag = None
        if v[0] == 'op' and v[1] in ('|', '+') and len(v[2]) == 2:
            for x in v[2]:
                if is_const(x):
                    flag = x[1]
                elif x[0] == 'op' and x[1] == '&':
                    low = x
        elif v[0] == 'op' and v[1] == '&':
            low, flag = v, 0
        if low is None or flag is None:
            flag_ok = False
            continue
        m = [x[1] for x in low[2] if is_const(x)]
        if m and ph in low[2]:
            smask = m[0]
        else:
            flag_ok = False
        more = None
        for a, pol, _ in q.conds:
            if a[1] == '<' and a[2] == (('const', 0), nxt):
                more = pol
            elif a[1] == '==' and set(a[2]) == {nxt, ('const', 0)}:
                more = (not pol) if more is None else more
            elif a[1] == 'truth' and a[2][0] == nxt:
                more = pol if more is None else more
            elif a[1] == '<=' and a[2] == (('const', 0), nxt):
                more = 'ge'
        if flag:
            scont = flag
        if more == 'ge' or bool(flag) != bool(more):
            flag_ok = False
    consts['send_mask'] = smask
    consts['send_cont'] = scont
    consts['send_flag_ok'] = flag_ok
    # one send of everything accumulated
    for p in paths:
        if not p.returns:
            continue
        sends = [e for e in p.events if e.kind == 'call'
                 and e.method() in ('send', 'sendall')]
        if len(sends) != 1:
            report.violation(R4, 'send:sends', sd.path, sd.node, sd.qualname,
                             'send performs %d socket sends; one VarInt is '
                             'one send of all its groups' % len(sends))


def check_constants(report, db, F, S, basic, rd, sd, sz, ref, consts):
    R5 = report.rule('R03.5', 'send, read and the size table agree on 7 '
                     'payload bits per byte, little-endian groups')
    bits = ref['varint']['payload_bits']
    mask = (1 << bits) - 1
    cont = 1 << bits
    probs = []
    if consts.get('read_mask') != mask:
        probs.append((rd, 'read masks the payload with %r, not 0x%02X'
                      % (consts.get('read_mask'), mask)))
    if consts.get('read_shift') != bits:
        probs.append((rd, 'read shifts group i by %r*i bits, not %d*i'
                      % (consts.get('read_shift'), bits)))
    if consts.get('read_cont') != cont:
        probs.append((rd, 'read tests continuation bit %r, not 0x%02X'
                      % (consts.get('read_cont'), cont)))
    # (where the counter starts does not matter: R03.3 checks that group i is
    # shifted by exactly bits * i, the first group by 0)
    if consts.get('send_mask') != mask:
        probs.append((sd, 'send masks each group with %r, not 0x%02X'
                      % (consts.get('send_mask'), mask)))
    if consts.get('send_shift') is not None and \
            consts.get('send_shift') != bits:
        probs.append((sd, 'send shifts by %r bits per byte, not %d'
                      % (consts.get('send_shift'), bits)))
    if consts.get('send_cont') != cont:
        probs.append((sd, 'send sets continuation flag %r, not 0x%02X'
                      % (consts.get('send_cont'), cont)))
    if not consts.get('send_flag_ok'):
        probs.append((sd, 'continuation flag is not set exactly when more '
                      'groups remain'))
    for fi, msg in probs:
        report.violation(R5, 'const:%s:%s' % (fi.name, msg.split(' ')[1]),
                         fi.path, fi.node, fi.qualname, msg)
    if not probs:
        report.ok(R5, 'mask 0x%02X, shift %d, continuation 0x%02X on both '
                  'sides, low group first' % (mask, bits, cont))
    # size table
    tbl = cval(F, basic, ast.Name(id='VARINT_SIZE_TABLE', ctx=ast.Load()))
    if not isinstance(tbl, dict):
        raise AnalysisError('VARINT_SIZE_TABLE does not fold to a dict')
    keys = list(tbl.keys())
    good = len(keys) >= 10
    for i, k in enumerate(keys):
        if k != 2 ** (bits * (i + 1)) or tbl[k] != i + 1:
            good = False
            report.violation(
                R5, 'sizetable:%d' % (i + 1), basic.path, None,
                'VARINT_SIZE_TABLE',
                'entry %d of the size table is %r: %r, expected 2**%d: %d '
                '(ascending insertion order is what size() relies on)'
                % (i + 1, k, tbl[k], bits * (i + 1), i + 1))
            break
    if good:
        report.ok(R5, 'size table is {2**(7k): k} for k = 1..%d in '
                  'ascending order' % len(keys))
    elif len(keys) < 10:
        report.violation(R5, 'sizetable:short', basic.path, None,
                         'VARINT_SIZE_TABLE', 'size table has only %d rows; '
                         'VarLong needs 10' % len(keys))
    # size(): first key strictly above the value, in table order
    vparam = sy(sz.all_params[0])
    okk = False
    lit_items = ('tuple', tuple(('tuple', (('const', k), ('const', v)))
                                for k, v in tbl.items()))
    for p in S.run(sz):
        for lp in [e for e in p.events if e.kind == 'loop']:
            it = lp.ctx
            lit = ('tuple', tuple(('tuple', (('const', k), ('const', v)))
                                  for k, v in tbl.items()))
            if not (it[0] == 'call' and it[1][0] == 'attr'
                    and it[1][2] == 'items'
                    and it[1][1][0] in ('glob', 'dict')) and it != lit:
                continue
            for q in lp.paths:
                if q.outcome[0] != 'return':
                    continue
                v = q.outcome[1]
                tests = [(a, pol) for a, pol, _ in q.conds]
                if len(tests) == 1 and tests[0][1] and \
                        tests[0][0][1] == '<' and \
                        struct(tests[0][0][2][0]) == vparam and \
                        tests[0][0][2][1][0] == 'op' and \
                        tests[0][0][2][1][1] == 'index' and \
                        tests[0][0][2][1][2][1] == ('const', 0) and \
                        v[0] == 'op' and v[1] == 'index' and \
                        v[2][1] == ('const', 1) and \
                        v[2][0] == tests[0][0][2][1][2][0]:
                    okk = True
        # next(<generator over the items, filtered by value < bound>)
        if p.returns:
            for t in subterms(p.value) if p.value else ():
                pass
        for a, pol, _ in p.conds:
            for t in subterms(a):
                if t[0] == 'call' and t[1] == ('builtin', 'next') and \
                        t[2] and t[2][0][0] == 'op' and \
                        t[2][0][1] == 'genexp':
                    g = t[2][0]
                    its, elts, filt = g[2][0], g[2][1], g[2][2] if len(
                        g[2]) > 2 else ('tuple', ())
                    if len(its[1]) == 1 and (
                            its[1][0] == lit_items or
                            its[1][0][0] == 'call' and
                            its[1][0][1][0] == 'attr' and
                            its[1][0][1][2] == 'items') and \
                            len(filt[1]) == 1:
                        fa, fp = filt[1][0][1]
                        if fp == ('const', True) and fa[1] == '<' and \
                                struct(fa[2][0]) == vparam and \
                                fa[2][1][0] == 'op' and \
                                fa[2][1][2][1] == ('const', 0) and \
                                len(elts[1]) == 1 and \
                                elts[1][0][1][0][0] == 'op' and \
                                elts[1][0][1][0][2][1] == ('const', 1):
                            okk = True
    if not okk:
        # the table folded to its literal and the search was unrolled: the
        # paths are "not below any earlier key, below this one -> its size"
        rows = []
        shape = True
        for p in S.run(sz):
            if not p.returns:
                continue
            tests = [(a, pol) for a, pol, _ in p.conds]
            if not tests or not all(
                    a[1] == '<' and struct(a[2][0]) == vparam and
                    is_const(a[2][1]) for a, _ in tests) or \
                    [pol for _, pol in tests] != [False] * (
                        len(tests) - 1) + [True] or \
                    not (p.value is not None and is_const(p.value)):
                shape = False
                break
            rows.append((tuple(a[2][1][1] for a, _ in tests), p.value[1]))
        want = [(tuple(keys[:i + 1]), tbl[k]) for i, k in enumerate(keys)]
        if shape and sorted(rows) == sorted(want):
            okk = True
    if okk:
        report.ok(R5, 'size(): first table key strictly above the value')
    else:
        report.violation(R5, 'size:lookup', sz.path, sz.node, sz.qualname,
                         'size() does not return the size of the first '
                         'table key strictly greater than the value')
