"""C05 -- every packet class round-trips under every supported version.

R05.1 generic definition-driven codec symmetry; R05.2 definition
well-formedness for every class x version (folding); R05.3 wire-grammar
inclusion writer <= reader for hand-written pairs, custom Types and helper
families, per version; R05.4 id first on the wire; R05.5 repr plumbing."""
import ast

from ..common import AnalysisError, rel
from ..fold import ClassVal, Instance, Opaque
from ..protocol import Proto, Raises, STATES, DIRS, type_name
from ..callgraph import CallGraph, arity_problem
from .. import wiregram, shared
from ..wiregram import Walker, inclusion, show_seq, Tok

PKT = 'minecraft.networking.packets.packet'
BASIC = 'minecraft.networking.types.basic'


def run(report, db, tier):
    report.explanation = (
        'The generic reader/writer are checked to be mirror images over the '
        'definition; every definition is folded for every version and '
        'checked for well-formedness; every hand-written reader/writer '
        'pair is reduced, per version, to a regular language over codec '
        'tokens and L(writer) <= L(reader) is decided by subset '
        'construction.')
    P = Proto(db)
    cg = CallGraph(db)
    versions = P.supported if tier == 'quick' else P.known
    classes = P.all_table_classes(P.known)
    report.note('versions', len(versions))
    report.floor('registered packet classes', len(classes), 45)
    aliased_records(report, db, cg)
    r1(report, db, P)
    r2(report, db, P, classes, versions)
    r3(report, db, P, cg, classes, versions)
    r4(report, db, P, classes, versions)
    r5(report, db, P, cg, classes, versions)
    r6(report, db, P, cg)
    r5b(report, db, P, cg, classes, versions)
    # "a packet of the same class": the reader is chosen by id, so two
    # classes of one table sharing an id break the round trip of one of them
    from ..common import borrow
    from . import c06
    borrow(report, 'R05.8', "the class read back is the class written: ids "
           "are distinct within each table (C06's rules)",
           lambda rid, c: rid in ('R06.1', 'R06.2', 'R06.3', 'R06.4'),
           lambda sub: c06.run(sub, db, tier))
    r9(report, db, P, cg, classes)
    from ..connmodel import ConnModel
    from .. import shared
    R7 = report.rule('R05.7', 'under the same version: write_packet imposes '
                     'the connection\'s context on every packet it sends')
    shared.context_imposed(report, R7, db, shared.summariser(db, cg),
                           ConnModel(db, cg))


# ---------------------------------------------------------------------------
def aliased_records(report, db, cg):
    # records read in a loop are separate objects
    Ra = report.rule('R05.9a', 'a list of records is made of separate '
                     'objects: no `[make()] * n` (one object n times) in the '
                     'packet and wire-type code')
    na = 0
    nbad = 0
    for fi in db.funcs:
        if not fi.module.name.startswith('minecraft.networking.') or \
                isinstance(fi.node, ast.Lambda):
            continue
        na += 1
        for x in cg.shallow(fi) if hasattr(cg, 'shallow') else ast.walk(
                fi.node):
            if isinstance(x, ast.BinOp) and isinstance(x.op, ast.Mult):
                for side, other in ((x.left, x.right), (x.right, x.left)):
                    if isinstance(side, ast.List) and any(
                            isinstance(e, ast.Call) and not (
                                isinstance(e.func, ast.Name) and e.func.id in
                                ('int', 'str', 'bytes', 'float', 'bool',
                                 'tuple', 'frozenset', 'len'))
                            for e in side.elts) and not isinstance(
                                other, ast.List):
                        nbad += 1
                        report.violation(
                            Ra, 'aliased-records:%s' % fi.qualname, fi.path,
                            x, fi.qualname, '%s makes a list that holds ONE '
                            'object several times: filling "each" entry in '
                            'a loop overwrites the same record, so every '
                            'element reads back as the last one'
                            % ast.unparse(x)[:60])
    if not nbad:
        report.ok(Ra, 'no multiplied list of constructed objects')
    report.floor('functions scanned for aliased record lists', na, 300)


def r9(report, db, P, cg, classes):
    """An optional field is present when it is not None.  A hand-written
    writer that decides by the field's *truth* whether to send it loses the
    legal values that are false: b'', '', 0."""
    from ..pathsum import struct as _st, subterms, show
    R = report.rule('R05.9', 'hand-written writers decide the presence of an '
                    'optional field by `is not None`, never by its truth '
                    '(an empty or zero value is a value)')
    S = getattr(report, '_s5', None)
    if S is None:
        S = report._s5 = shared.summariser(db, cg, implicit_raises=False)
    n = 0
    seen = set()
    writers = []
    for cv in sorted(classes, key=lambda c: c.ci.fq):
        _, wr = P.custom_codec(cv.ci)
        if wr is not None and wr not in seen:
            seen.add(wr)
            writers.append(wr)
    for fi in db.funcs:
        if fi.name in ('send', 'send_with_context') and fi.cls is not None \
                and db.is_subclass(fi.cls, P.type_ci) and fi not in seen \
                and fi.module.name.startswith('minecraft.networking.packets'):
            seen.add(fi)
            writers.append(fi)
    for wr in writers:
        try:
            paths = S.run(wr)
        except AnalysisError:
            continue
        n += 1
        sent = {}           # struct(value) -> set of path indices sending it
        codec = {}
        for i, p in enumerate(paths):
            for e in p.flat(('call',)):
                if e.method() in ('send', 'send_with_context') and e.args:
                    k = _st(e.args[0])
                    sent.setdefault(k, set()).add(i)
                    codec.setdefault(k, set()).add(show(e.fn)[:40])
        if not sent:
            continue
        partial = {k for k, idx in sent.items() if len(idx) < len(paths)
                   and not all('Boolean' in c for c in codec[k])}
        if not partial:
            continue
        for p in paths:
            terms = [a for a, _, _ in p.conds]
            for e in p.flat(('call',)):
                if e.method() in ('send', 'send_with_context') and e.args:
                    terms.append(e.args[0])
            for t0 in terms:
                for t in subterms(t0):
                    if t[0] == 'op' and t[1] in ('bool', 'truth', 'not') \
                            and len(t[2]) == 1 and _st(t[2][0]) in partial:
                        x = t[2][0]
                        report.violation(
                            R, 'presence-by-truth:%s:%s' % (wr.qualname,
                                                            show(x)[:40]),
                            wr.path, wr.node, wr.qualname,
                            '%s is sent on some paths only, and which ones '
                            'depends on its truth (%s): a value that is '
                            'false but not None (b"", "", 0) is written as '
                            'absent and reads back as None'
                            % (show(x), show(t)[:60]))
                        break
                else:
                    continue
                break
            else:
                continue
            break
    # the reader's side of the same mistake: what follows on the wire is
    # decided by the truth of a number / string just decoded
    Rr = report.rule('R05.9r', 'hand-written readers decide what else to '
                     'read by flags and `is None`, never by the truth of a '
                     'decoded number or string (0 and "" are values the '
                     'writer sends like any other)')
    readers = []
    for cv in sorted(classes, key=lambda c: c.ci.fq):
        rd, _ = P.custom_codec(cv.ci)
        if rd is not None and rd not in readers:
            readers.append(rd)
    for fi in db.funcs:
        if fi.name in ('read', 'read_with_context') and fi.cls is not None \
                and db.is_subclass(fi.cls, P.type_ci) and \
                fi not in readers and \
                fi.module.name.startswith('minecraft.networking.packets'):
            readers.append(fi)
    nr = 0

    def is_read(t):
        return t[0] == 'call' and (
            (t[1][0] == 'attr' and t[1][2] in ('read', 'read_with_context'))
            or (t[1][0] == 'fn' and t[1][1].name in ('read',
                                                     'read_with_context')))

    def reads_of(p):
        return tuple(show(e.fn)[:60] for e in p.flat(('call',))
                     if e.method() in ('read', 'read_with_context'))
    for rd in readers:
        try:
            paths = S.run(rd)
        except AnalysisError:
            continue
        nr += 1
        by = {}
        for p in paths:
            if p.raises:
                continue
            for a, pol, _ in p.conds:
                if a[1] == 'truth' and is_read(a[2][0]) and \
                        'Boolean' not in show(a[2][0][1]):
                    by.setdefault(_st(a[2][0]), {}).setdefault(
                        pol, set()).add(reads_of(p))
        # a zero that both sides treat as "nothing follows" is the
        # protocol's own sentinel (map columns): the writer sends the value
        # with the same codec and decides by its truth too
        sentinels = set()
        wr = None
        if rd.cls is not None:
            wr = P.custom_codec(rd.cls)[1] if rd.name == 'read' and \
                db.is_subclass(rd.cls, P.packet_ci) else db.find_method(
                    rd.cls, rd.name.replace('read', 'send'))
        if wr is not None:
            try:
                wpaths = S.run(wr)
            except AnalysisError:
                wpaths = []
            for p in wpaths:
                sent = {}
                for e in p.flat(('call',)):
                    if e.method() in ('send', 'send_with_context') and \
                            e.args:
                        sent[_st(e.args[0])] = show(e.fn).split('.')[0]
                for a, pol, _ in p.conds:
                    if a[1] == 'truth' and _st(a[2][0]) in sent:
                        sentinels.add(sent[_st(a[2][0])])
        for k, sides in by.items():
            if show(k).split('.')[0] in sentinels:
                continue
            if len(sides) == 2 and sides[True] != sides[False]:
                report.violation(
                    Rr, 'read-by-truth:%s:%s' % (rd.qualname, show(k)[:40]),
                    rd.path, rd.node, rd.qualname,
                    'what is read next depends on the truth of %s: when the '
                    'value on the wire is 0 (or empty) the reader takes the '
                    'branch meant for an absent value and reads fields the '
                    'writer never wrote' % show(k)[:60])
                break
        else:
            report.ok(Rr, rd.qualname)
    report.floor('hand-written readers summarised', nr, 10)
    # every codec call of a hand-written reader / writer is made on the
    # function's own stream (value and stream not swapped, no other stream)
    Rs = report.rule('R05.9s', 'hand-written readers / writers hand their '
                     'own stream to every codec call, in the stream\'s '
                     'argument position')
    codecs = []
    for cv in sorted(classes, key=lambda c: c.ci.fq):
        rd, wr = P.custom_codec(cv.ci)
        for f, role in ((rd, 'r'), (wr, 'w')):
            if f is not None and (f, role) not in codecs:
                codecs.append((f, role))
    for f in writers:
        if (f, 'w') not in codecs:
            codecs.append((f, 'w'))
    ncalls = 0
    for f, role in codecs:
        names = list(f.params)
        if f.kind in ('instance', 'class') and names:
            names = names[1:]
        if not names:
            continue
        if role == 'w':
            stream = names[0] if f.name == 'write_fields' else (
                names[1] if len(names) > 1 else None)
        else:
            stream = names[0]
        if stream is None:
            continue
        try:
            paths = S.run(f)
        except AnalysisError:
            continue
        for p in paths:
            for e in p.flat(('call',)):
                m = e.method()
                if m in ('send', 'send_with_context') and role == 'w':
                    pos = 1
                elif m in ('read', 'read_with_context') and role == 'r':
                    pos = 0
                else:
                    continue
                if not any(db.is_subclass(t.cls, P.type_ci)
                           for t in (e.targets or ())
                           if t.cls is not None):
                    continue
                ncalls += 1
                a = e.args[pos] if len(e.args) > pos else None
                if a is not None and _st(a) == ('sym', stream):
                    report.ok(Rs)
                else:
                    report.violation(
                        Rs, 'stream-arg:%s' % f.qualname, f.path, e.node,
                        f.qualname, '%s is given %s where the stream `%s` '
                        'belongs: the codec would %s something that is not '
                        'this packet\'s buffer' % (
                            show(e.fn)[:40], show(a) if a is not None
                            else 'nothing', stream,
                            'write to' if role == 'w' else 'read from'))
    report.floor('codec calls of hand-written readers / writers', ncalls, 60)
    report.floor('hand-written writers checked for presence-by-truth', n, 9)
    if not any(f.rule == R for f in report.violations):
        report.ok(R, '%d hand-written writers: no optional field is dropped '
                  'for being false' % n)


# ---------------------------------------------------------------------------
UNSIGNED = ('VarInt', 'VarLong', 'UnsignedByte', 'UnsignedShort',
            'UnsignedInteger', 'UnsignedLong', 'Boolean')


def r6(report, db, P, cg):
    """Where a hand-written reader and its writer both make a decision on
    the value of the same field (an optional group of fields present only
    when `data > 0`, say), they must make the same decision: otherwise the
    writer emits bytes the reader leaves unread, or the reader waits for
    bytes that were never written."""
    R = report.rule('R05.6', 'hand-written pairs: reader and writer test the '
                    'value of a field in the same way')
    from .. import shared
    from ..pathsum import struct, show, subterms, is_const, replace
    S = shared.summariser(db, cg, implicit_raises=False, max_paths=3000)
    pairs = []
    for ci in db.classes:
        if not db.is_subclass(ci, P.packet_ci):
            continue
        rd, wr = db.own_method(ci, 'read'), db.own_method(ci, 'write_fields')
        if rd is not None and wr is not None and ci is not P.packet_ci:
            pairs.append((ci, rd, wr))
    nchecked = 0

    def canon(a, unsigned):
        """comparison of a field with an integer constant, as (field, kind,
        constant): `c < x`, `x < c` or `x == c`"""
        if a[1] == 'truth':
            x = a[2][0]
            return (struct(x), 'nonzero', 0)
        if a[1] in ('<', '<=', '==') and len(a[2]) == 2:
            l, r = a[2]
            if is_const(l) and isinstance(l[1], int) and not is_const(r):
                c = l[1] - (1 if a[1] == '<=' else 0)
                if a[1] == '==':
                    return (struct(r), 'nonzero' if c == 0 else 'eq', c)
                if c == 0 and struct(r) in unsigned:
                    return (struct(r), 'nonzero', 0)
                return (struct(r), 'gt', c)
            if is_const(r) and isinstance(r[1], int) and not is_const(l):
                c = r[1] + (1 if a[1] == '<=' else 0)
                if a[1] == '==':
                    return (struct(l), 'nonzero' if c == 0 else 'eq', c)
                if c == 1 and struct(l) in unsigned:
                    return (struct(l), 'nonzero', 0)
                return (struct(l), 'lt', c)
        return None

    for ci, rd, wr in sorted(pairs, key=lambda t: t[0].qualname):
        try:
            rp, wp = S.run(rd), S.run(wr)
        except AnalysisError:
            continue                # decided (or refused) by R05.3
        me_r, me_w = ('sym', rd.all_params[0]), ('sym', wr.all_params[0])
        # reader: what each stored field holds, to read its decisions as
        # decisions on fields
        guards = {'r': {}, 'w': {}}
        unsigned = set()
        for side, paths, me in (('r', rp, me_r), ('w', wp, me_w)):
            for p in paths:
                subst = []
                if side == 'r':
                    for e in p.flat(('store',)):
                        if struct(e.base) == me and isinstance(e.attr, str) \
                                and e.value is not None and \
                                e.value[0] == 'call':
                            fld = ('attr', ('sym', 'self'), e.attr)
                            subst.append((e.value, fld))
                            tg = [t for ev in p.flat(('call',))
                                  if ev.res == e.value
                                  for t in (ev.targets or ())]
                            if tg and all(t.cls is not None and t.cls.name
                                          in UNSIGNED for t in tg):
                                unsigned.add(fld)
                for a, pol, _ in p.conds:
                    t = a
                    for old, new in subst:
                        t = replace(t, old, new)
                    t = replace(t, me, ('sym', 'self'))
                    c = canon(t, unsigned)
                    if c is None or c[0][0] != 'attr' or \
                            c[0][1] != ('sym', 'self'):
                        continue
                    guards[side].setdefault(c[0][2], set()).add(c[1:])
        for fld in sorted(set(guards['r']) & set(guards['w'])):
            nchecked += 1
            if guards['r'][fld] == guards['w'][fld]:
                report.ok(R, '%s.%s: reader and writer decide on it alike %s'
                          % (ci.name, fld, sorted(guards['r'][fld])))
            else:
                def txt(g):
                    return ', '.join('%s %s' % ({
                        'gt': '> ', 'lt': '< ', 'eq': '== ',
                        'nonzero': '!= '}[k], c) for k, c in sorted(g))
                report.violation(
                    R, 'guards:%s.%s' % (ci.name, fld), wr.path, wr.node,
                    wr.qualname, 'the reader decides on %s by [%s] but the '
                    'writer by [%s]: for a value on which they differ the '
                    'writer emits fields the reader does not consume (or '
                    'the other way round)' % (fld, txt(guards['r'][fld]),
                                              txt(guards['w'][fld])))
    report.note('hand-written pairs', len(pairs))
    report.note('fields tested on both sides', nchecked)
    report.floor('hand-written reader/writer pairs', len(pairs), 5)


def r1(report, db, P):
    R = report.rule('R05.1', 'generic codec: reader and writer iterate the '
                    'same definition in order, pairing each name with '
                    'read_with_context->setattr / getattr->send_with_context '
                    'under the same context')
    rd = db.own_method(P.packet_ci, 'read')
    wr = db.own_method(P.packet_ci, 'write_fields')
    if rd is None or wr is None:
        raise AnalysisError('Packet.read / write_fields vanished')
    shapes = {}
    from .. import shared
    S = shared.summariser(db, CallGraph(db), implicit_raises=False)
    for fi, side in ((rd, 'r'), (wr, 'w')):
        sh = generic_shape(fi, side, S)
        if isinstance(sh, str):
            report.violation(R, 'generic:%s' % fi.name, fi.path, fi.node,
                             fi.qualname, sh)
        else:
            shapes[side] = sh
            report.ok(R, '%s: %s' % (fi.qualname, sh['summary']))
    if len(shapes) == 2:
        if shapes['r']['iter'] != shapes['w']['iter']:
            report.violation(R, 'generic:iteration', wr.path, wr.node,
                             wr.qualname, 'reader iterates %s but writer '
                             'iterates %s' % (shapes['r']['iter'],
                                              shapes['w']['iter']))
        else:
            report.ok(R, 'both iterate %s' % shapes['r']['iter'])


def generic_shape(fi, side, S=None):
    """Read off the path summary: a loop over self.definition, inside it a
    loop over the items of the entry, and per item exactly one
    setattr(self, name, type.read_with_context(stream, self.context)) /
    type.send_with_context(getattr(self, name), stream, self.context)."""
    from ..pathsum import struct, show, subterms
    me, stream = ('sym', fi.all_params[0]), ('sym', fi.all_params[1])
    ctx = ('attr', me, 'context')
    paths = [p for p in S.run(fi) if p.returns]
    if len(paths) != 1:
        raise AnalysisError('generic codec %s: expected one path, found %d'
                            % (fi.qualname, len(paths)), fi.node,
                            rel(fi.path))
    def only_items(e):
        """a comprehension whose only calls are <entry>.items()"""
        import ast as _ast
        return e.kind == 'loop' and isinstance(e.node, (
            _ast.GeneratorExp, _ast.ListComp)) and all(
                x.kind == 'call' and x.fn[2:3] == ('items',)
                for q in e.paths for x in q.events)
    top = [e for e in paths[0].events if e.kind in ('loop', 'call', 'store')
           and not only_items(e)]
    if len(top) != 1 or top[0].kind != 'loop':
        raise AnalysisError('generic codec %s: expected one loop over the '
                            'definition' % fi.qualname, fi.node, rel(fi.path))
    outer = top[0]
    if len(outer.paths) != 1:
        raise AnalysisError('generic codec %s: the loop over the definition '
                            'branches' % fi.qualname, outer.node,
                            rel(fi.path))
    definition = ('attr', me, 'definition')

    def items_of(t, el_of):
        """t is <x>.items() for x an element of `el_of`"""
        return (t[0] == 'call' and t[1][0] == 'attr' and t[1][2] == 'items'
                and t[1][1][0] == 'elem'
                and struct(t[1][1][1]) == struct(el_of) and not t[2])

    def flattened(t):
        """the pairs of every entry, in order, as one lazy sequence:
        ((k, T) for f in D for k, T in f.items())  or
        chain.from_iterable(f.items() for f in D)"""
        while t[0] == 'op' and t[1] in ('iter', 'tuple', 'list') and \
                len(t[2]) == 1:
            t = t[2][0]
        if t[0] == 'op' and t[1] in ('genexp', 'listcomp') and \
                len(t[2][0][1]) == 2 and not t[2][2][1] and \
                len(t[2][1][1]) == 1:
            d, inner_it = t[2][0][1]
            val = t[2][1][1][0][1][0]
            if struct(d) == definition and items_of(inner_it, d) and \
                    val[0] == 'tuple' and len(val[1]) == 2 and all(
                        x[0] == 'op' and x[1] == 'index'
                        and x[2][0][0] == 'elem'
                        and struct(x[2][0][1]) == struct(inner_it)
                        and x[2][1] == ('const', i)
                        for i, x in enumerate(val[1])):
                return True
        if t[0] == 'op' and t[1] == 'chain.from_iterable' and \
                len(t[2]) == 1:
            g = t[2][0]
            if g[0] == 'op' and g[1] in ('genexp', 'listcomp') and \
                    len(g[2][0][1]) == 1 and not g[2][2][1] and \
                    len(g[2][1][1]) == 1:
                d = g[2][0][1][0]
                val = g[2][1][1][0][1][0]
                if struct(d) == definition and items_of(val, d):
                    return True
        return False
    if flattened(outer.ctx):
        inner = outer
        it = outer.ctx
        shape = 'for k, T in <the items of every entry of self.definition>'
    else:
        inner = [e for e in outer.paths[0].events if e.kind == 'loop']
        others = [e for e in outer.paths[0].events if e.kind in ('store',)
                  or (e.kind == 'call' and e.fn[2:3] != ('items',))]
        if len(inner) != 1 or others or struct(outer.ctx) != definition:
            raise AnalysisError('generic codec %s: expected a nested loop '
                                'over field.items()' % fi.qualname,
                                outer.node, rel(fi.path))
        inner = inner[0]
        it = inner.ctx
        if not items_of(it, outer.ctx):
            raise AnalysisError('generic codec %s: inner loop is not over '
                                '<field>.items()' % fi.qualname, inner.node,
                                rel(fi.path))
        shape = 'for field in %s: for k, T in field.items()' % show(
            outer.ctx)
    if len(inner.paths) != 1:
        return 'the per-field step branches'
    q = inner.paths[0]
    evs = q.flat(('call', 'store'))
    el = None
    for e in evs:
        for t in [x for a in ([e.fn] if e.kind == 'call' else [])
                  + list(e.args or ()) + [e.value, e.attr]
                  if isinstance(a, tuple) for x in subterms(a)]:
            if t[0] == 'elem' and struct(t[1]) == struct(it):
                el = t
    if el is None:
        return 'the per-field step does not use the (name, type) pair'
    kname = ('op', 'index', (el, ('const', 0)))
    tname = ('op', 'index', (el, ('const', 1)))

    def pair_record(t):
        """NT(*el) for a two-field namedtuple NT and the (name, type) pair
        el of an .items() view: cannot fail, and its fields are el[0], el[1]"""
        return (isinstance(t, tuple) and t[:1] == ('call',) and
                isinstance(t[1], tuple) and t[1][:1] == ('ntcls',) and
                len(t[1][2]) == 2 and len(t[2]) == 1 and not t[3] and
                t[2][0][:2] == ('op', 'star') and
                struct(t[2][0][2][0]) == struct(el))

    def rw(t):
        if not isinstance(t, tuple):
            return t
        if t[:1] == ('attr',) and len(t) == 3 and pair_record(t[1]) and \
                t[2] in t[1][1][2]:
            return ('op', 'index', (el, ('const', t[1][1][2].index(t[2]))))
        return tuple(rw(x) for x in t)

    class _Ev(object):
        def __init__(self, e):
            self.kind, self.node = e.kind, e.node
            if e.kind == 'call':
                self.fn, self.args = rw(e.fn), tuple(rw(a) for a in e.args)
                self._repr = repr(e)
            else:
                self.base, self.attr, self.value = e.base, rw(e.attr), \
                    rw(e.value)

        def __repr__(self):
            return self._repr
    if any(pair_record(x) for e in evs for a in (
            [e.fn] + list(e.args) if e.kind == 'call' else [e.attr, e.value])
            if isinstance(a, tuple) for x in subterms(a)):
        evs = [_Ev(e) for e in evs if not (
            e.kind == 'call' and pair_record(e.res))]
    if side == 'r':
        sets = [e for e in evs if e.kind == 'store']
        calls = [e for e in evs if e.kind == 'call']
        if len(sets) != 1:
            return 'reader does not store each field with one setattr'
        s_ = sets[0]
        v = s_.value
        ok = (struct(s_.base) == me and s_.attr == kname
              and v[0] == 'call' and v[1] == ('attr', tname,
                                              'read_with_context')
              and [struct(a) if a[0] != 'attr' or a[1] != me else a
                   for a in v[2]] == [stream, ctx] and len(calls) == 1)
        if not ok:
            return ('reader stores %s.%s = %s; expected setattr(self, name, '
                    'type.read_with_context(stream, self.context))'
                    % (show(s_.base), show(s_.attr) if isinstance(
                        s_.attr, tuple) else s_.attr, show(v)))
        summary = 'setattr(self, k, T.read_with_context(stream, ' \
            'self.context)) per item'
    else:
        sends = [e for e in evs if e.kind == 'call']
        if len(sends) != 1:
            return 'writer does not send each field exactly once'
        w = sends[0]
        want_val = ('op', 'getattr', (me, kname))
        ok = (w.fn == ('attr', tname, 'send_with_context')
              and len(w.args) == 3 and w.args[0] == want_val
              and struct(w.args[1]) == stream and w.args[2] == ctx)
        if not ok:
            return ('writer does %r; expected T.send_with_context('
                    'getattr(self, k), buffer, self.context)' % w)
        summary = 'T.send_with_context(getattr(self, k), buffer, ' \
            'self.context) per item'
    return dict(iter=shape, summary=summary)


def r2(report, db, P, classes, versions):
    R = report.rule('R05.2', 'definition well-formed for every class x '
                    'version: list of dicts with 0 or 1 entries, values are '
                    'wire types, no duplicate field, trailing array last')
    n = 0
    bad = {}
    for cv in sorted(classes, key=lambda c: c.ci.fq):
        rd, wr = P.custom_codec(cv.ci)
        if rd is not None and wr is not None:
            continue
        for v in versions:
            if not registered(P, cv, v):
                continue
            n += 1
            d = P.definition(cv, v)
            msg = definition_problem(P, d)
            if msg is None:
                report.ok(R)
            else:
                bad.setdefault((cv, msg), []).append(v)
    for (cv, msg), vs in bad.items():
        fi = db.find_method(cv.ci, 'get_definition')
        report.violation(R, 'definition:%s:%s' % (cv.ci.qualname,
                                                  msg.split(':')[0]),
                         cv.ci.path, fi.node if fi and fi.cls is cv.ci
                         else cv.ci.node, cv.ci.qualname,
                         '%s [first at protocol %s; %d version(s)]'
                         % (msg, P.vname(vs[0]), len(vs)))
    report.note('definitions folded', n)
    report.floor('class x version definitions', n, 5000)


_REG = {}


def registered(P, cv, v):
    key = (cv, v)
    if key not in _REG:
        r = False
        for d in DIRS:
            for s in STATES:
                t = P.table(d, s, v)
                if not isinstance(t, Raises) and cv in t:
                    r = True
        _REG[key] = r
    return _REG[key]


def definition_problem(P, d):
    if isinstance(d, Raises):
        return 'raises: evaluating the definition raises %s' % d.exc
    if isinstance(d, Opaque) or d is None:
        return 'missing: the class has neither a definition nor its own ' \
               'read/write_fields'
    if not isinstance(d, (list, tuple)):
        return 'shape: definition is %r, not a list of dicts' % (d,)
    names = []
    types = []
    for e in d:
        if not isinstance(e, dict):
            return 'shape: definition entry %r is not a dict' % (e,)
        for k, t in e.items():
            if not isinstance(k, str):
                return 'shape: field name %r is not a string' % (k,)
            if not P.is_type(t):
                return 'type: field %s has type %r, which is not a wire ' \
                       'type' % (k, t)
            bad = bad_constituent(P, t)
            if bad:
                return 'type: field %s: %s' % (k, bad)
            names.append(k)
            types.append(t)
    dup = sorted(set(x for x in names if names.count(x) > 1))
    if dup:
        return 'duplicate: field %s occurs twice: the second read ' \
               'overwrites the first and the writer sends one value twice' \
               % dup[0]
    for i, t in enumerate(types[:-1]):
        if type_name(t) == 'TrailingByteArray':
            return 'trailing: TrailingByteArray field %s is not last: it ' \
                   'swallows the fields after it' % names[i]
    return None


def bad_constituent(P, t):
    if isinstance(t, Instance):
        args, kwargs = t.ctor_args or ([], {})
        # each constructor argument in the role its parameter has: a
        # `..._type` parameter takes a wire type, anything else a number
        init = P.db.find_method(t.ci, '__init__')
        if init is not None and not init.node.args.vararg:
            names = list(init.params[1:])
            given = dict(zip(names, args))
            given.update(kwargs)
            for pn, a in given.items():
                is_ty = isinstance(a, (ClassVal, Instance))
                if pn.endswith('type') and not is_ty:
                    return '%s(%s=%r): a wire type is expected there' % (
                        t.ci.name, pn, a)
                if not pn.endswith('type') and is_ty:
                    return '%s(%s=%s): a number is expected there' % (
                        t.ci.name, pn, type_name(a))
        for a in list(args) + list(kwargs.values()):
            if isinstance(a, (ClassVal, Instance)):
                if not P.is_type(a):
                    return 'constituent %r is not a wire type' % (a,)
                sub = bad_constituent(P, a)
                if sub:
                    return sub
            elif not isinstance(a, int):
                return 'constructor argument %r' % (a,)
    return None


# ---------------------------------------------------------------------------
def r3(report, db, P, cg, classes, versions):
    R = report.rule('R05.3', 'hand-written pairs: every token sequence the '
                    'writer can emit is parsed by the reader with the same '
                    'codecs, bindings and flag values, in every version')
    RN = report.rule('R05.3n', 'a writer never encodes a value its own path '
                     'condition says is None')
    units = []       # (label, reader fi|None, writer fi|None, self_ci, cv,
    #                   version filter)
    for cv in sorted(classes, key=lambda c: c.ci.fq):
        rd, wr = P.custom_codec(cv.ci)
        if rd is None and wr is None:
            continue
        units.append(dict(label=cv.ci.qualname, rd=rd, wr=wr, ci=cv.ci,
                          cv=cv, kind='packet'))
    type_units = []
    for ci in db.subclasses(P.type_ci):
        if ci.module.name == BASIC and ci.name != 'Position':
            continue
        r = first_custom(db, ci, ('read', 'read_with_context'), P.type_ci)
        w = first_custom(db, ci, ('send', 'send_with_context'), P.type_ci)
        if r is None or w is None:
            continue
        type_units.append(dict(label=ci.qualname, rd=r, wr=w, ci=ci, cv=None,
                               kind='type'))
    units += type_units
    done = set()
    cache = {}
    queue = list(units)
    n_pairs = 0
    n_lang = 0
    groups = 0
    seen_units = set()
    while queue:
        u = queue.pop(0)
        ukey = (u['label'], u['rd'].qualname if u['rd'] else None,
                u['wr'].qualname if u['wr'] else None)
        if ukey in seen_units:
            continue
        seen_units.add(ukey)
        groups += 1
        report.note('pair groups', u['label'])
        bad = {}
        for v in versions:
            if u['cv'] is not None and not registered(P, u['cv'], v):
                continue
            if u['cv'] is None and u.get('owner_cv') is not None and \
                    not registered(P, u['owner_cv'], v):
                continue
            n_pairs += 1
            res = check_unit(db, cg, P, u, v, cache, queue)
            for kind, key, msg, node, fi in res['problems']:
                bad.setdefault((kind, key, msg), []).append((v, node, fi))
            n_lang += res['new']
            if not res['problems']:
                report.ok(R)
        for (kind, key, msg), occ in bad.items():
            v0, node, fi = occ[0]
            rid = RN if kind == 'none' else R
            report.violation(
                rid, '%s:%s:%s' % (kind, u['label'], key), fi.path, node,
                fi.qualname, '%s [first at protocol %s; %d version(s)]'
                % (msg, P.vname(v0), len(occ)))
    report.note('pair x version checks', n_pairs)
    report.note('distinct language pairs decided', n_lang)
    report.floor('hand-written pair groups', groups, 12)
    report.floor('pair x version checks', n_pairs, 1500)


def first_custom(db, ci, names, type_ci):
    for nm in names:
        m = db.find_method(ci, nm)
        if m is not None and m.cls is not type_ci and m.cls is not None \
                and db.is_subclass(m.cls, type_ci):
            return m
    return None


def check_unit(db, cg, P, u, v, cache, queue):
    problems = []
    new = 0
    try:
        if u['rd'] is not None:
            rw = Walker(db, cg, P, v, 'r', u['rd'], self_ci=u['ci'])
            r_alts = rw.language()
        else:
            rw = None
            r_alts = wiregram.definition_language(P, u['cv'], v, 'r')
        premise = None
        if u['kind'] == 'type' and u['rd'] is not None:
            premise = result_arity(db, u['rd'], u['ci'])
        if u['wr'] is not None:
            ww = Walker(db, cg, P, v, 'w', u['wr'], self_ci=u['ci'],
                        premise_len=premise)
            w_alts = ww.language()
        else:
            ww = None
            w_alts = wiregram.definition_language(P, u['cv'], v, 'w')
    except AnalysisError:
        raise
    if r_alts is None or w_alts is None:
        raise AnalysisError('unit %s has a generic side without a folded '
                            'definition' % u['label'])
    # helper families become units of their own
    for wk in (rw, ww):
        if wk is None:
            continue
        for root, meth, classes in wk.helpers:
            fam = [root] + db.subclasses(root)
            for c in fam:
                pair = helper_pair(db, c, root)
                if pair is None:
                    continue
                queue.append(dict(label=c.qualname, rd=pair[0], wr=pair[1],
                                  ci=c, cv=None, kind='helper',
                                  owner_cv=u['cv'] or u.get('owner_cv')))
    key = ('|'.join(sorted(show_seq(a) for a in r_alts)),
           '|'.join(sorted(show_seq(a) for a in w_alts)))
    if key not in cache:
        cache[key] = inclusion(w_alts, r_alts)
        new = 1
    res = cache[key]
    wfi = u['wr'] or u['rd']
    if res is not None:
        prefix, tok, expect = res
        pre = ' '.join(t.show() for t in prefix) or '<start>'
        if tok is None:
            msg = ('writer can stop after [%s] but the reader still expects '
                   'one of {%s}' % (pre, ', '.join(expect[:4])))
            node = wfi.node
            ckey = 'short:%d' % len(prefix)
        else:
            msg = ('after [%s] the writer emits %s but the reader expects '
                   'one of {%s}' % (pre, tok.show(), ', '.join(expect[:4])))
            node = tok.node or wfi.node
            ckey = 'tok:%s' % tok.show()
        problems.append(('inclusion', ckey, msg, node, wfi))
    if ww is not None:
        for tok, node in ww.none_sends:
            problems.append(('none', tok.show(),
                             'writer encodes %s with %s on a path where it '
                             'is None' % (tok.value, tok.codec), node, wfi))
    if u['kind'] != 'packet' and not w_alts and not r_alts:
        # abstract base of a helper family: both sides raise on every path
        return dict(problems=[], new=new)
    if not w_alts:
        problems.append(('inclusion', 'empty-writer',
                         'writer raises on every path although the class is '
                         'registered for this version', wfi.node, wfi))
    return dict(problems=problems, new=new)


def result_arity(db, rd, self_ci):
    """Round-trip premise: a custom Type's writer receives a value of its
    reader's result type.  When that type is a Vector (sub)class the value
    iterates as exactly as many items as the namedtuple has fields."""
    vec = db.get_class('minecraft.networking.types.utility', 'Vector')
    for n in ast.walk(rd.node):
        if isinstance(n, ast.Return) and isinstance(n.value, ast.Call):
            f = n.value.func
            tgt = None
            if isinstance(f, ast.Name) and f.id == 'cls':
                tgt = self_ci
            else:
                ent = db.resolve_dotted(rd.module, f)
                ent = db.deref(ent) if isinstance(ent, tuple) else ent
                if hasattr(ent, 'attrs'):
                    tgt = ent
            if tgt is not None and db.is_subclass(tgt, vec):
                for b in vec.node.bases:
                    if isinstance(b, ast.Call) and len(b.args) == 2:
                        try:
                            return len(ast.literal_eval(b.args[1]))
                        except Exception:
                            pass
    return None


def helper_pair(db, c, root):
    """(reader, writer) of a helper class: read with send or write."""
    rd = db.find_method(c, 'read')
    wr = db.find_method(c, 'send') or db.find_method(c, 'write')
    if rd is None or wr is None:
        return None
    if wiregram.always_raises(rd) and wiregram.always_raises(wr):
        return None          # abstract base
    # abstract-by-pass (EventType.read has body `pass` under @abstractmethod)
    for d in rd.node.decorator_list if hasattr(rd.node, 'decorator_list') \
            else []:
        if isinstance(d, ast.Name) and d.id == 'abstractmethod':
            return None
    return rd, wr


# ---------------------------------------------------------------------------
def r4(report, db, P, classes=(), versions=()):
    R = report.rule('R05.4', 'Packet.write sends self.id as a VarInt before '
                    'the fields, into the buffer that is then framed')
    wr = db.own_method(P.packet_ci, 'write')
    if wr is None:
        raise AnalysisError('Packet.write vanished')
    calls = []
    for st in wr.body:
        for n in ast.walk(st):
            if isinstance(n, ast.Call):
                calls.append(n)
    order = []
    for c in calls:
        t = ast.unparse(c.func)
        if t == 'VarInt.send' and c.args and \
                ast.unparse(c.args[0]) == 'self.id':
            order.append(('id', c))
        elif t == 'self.write_fields':
            order.append(('fields', c))
        elif t == 'self._write_buffer':
            order.append(('frame', c))
    kinds = [k for k, _ in order]
    if kinds == ['id', 'fields', 'frame']:
        bufs = {ast.unparse(order[0][1].args[1]),
                ast.unparse(order[1][1].args[0]),
                ast.unparse(order[2][1].args[1])}
        if len(bufs) == 1:
            report.ok(R, 'VarInt(self.id), write_fields, _write_buffer on '
                      'one buffer %s' % bufs.pop())
        else:
            report.violation(R, 'write:buffers', wr.path, wr.node,
                             wr.qualname, 'id, fields and framing do not '
                             'use the same buffer: %s' % sorted(bufs))
    elif kinds == ['id', 'fields'] and ast.unparse(
            order[0][1].args[1]) == ast.unparse(order[1][1].args[0]):
        # the framing is spelt some other way (a context manager that emits
        # on exit, a pure framing function and explicit sends): that the
        # buffer with id and fields is what gets framed is C01's frame
        # algebra; here only the order of id and fields is decided
        report.ok(R, 'VarInt(self.id) then write_fields on one buffer %s '
                  '(framing not spelt as _write_buffer: see C01)'
                  % ast.unparse(order[0][1].args[1]))
    else:
        report.violation(R, 'write:order', wr.path, wr.node, wr.qualname,
                         'Packet.write does not send VarInt(self.id), then '
                         'the fields, then frame the buffer (found %s)'
                         % kinds)
    # the `id` property resolves through get_id(context)
    idp = db.own_method(P.packet_ci, 'id')
    if idp is None:
        ad = db.find_attr(P.packet_ci, 'id')
        if ad is None or ad.kind == 'def':
            raise AnalysisError('Packet.id property vanished')
        # not spelt as a method: `id` was assigned a descriptor object.  What
        # an instance reads through it is folded for every registered class
        # and version (P.wire_id) and must be what get_id(context) gives
        # (P.table_id)
        n = 0
        for cv in sorted(classes, key=lambda c: c.ci.fq):
            if db.find_attr(cv.ci, 'id') is not ad:
                continue
            for v in versions:
                if not registered(P, cv, v):
                    continue
                n += 1
                w, t = P.wire_id(cv, v), P.table_id(cv, v)
                if w != t:
                    report.violation(
                        R, 'write:id-property', ad.path if hasattr(
                            ad, 'path') else P.packet_ci.path,
                        ad.node if hasattr(ad, 'node') else P.packet_ci.node,
                        P.packet_ci.qualname, 'an instance of %s reads id %r '
                        'under protocol %s but get_id(context) gives %r'
                        % (cv.ci.name, w, P.vname(v), t))
                    return
        if n < 1000:
            raise AnalysisError('Packet.id is a descriptor object: only %d '
                                'class x version ids could be folded' % n)
        report.ok(R, 'Packet.id (a descriptor object) reads as '
                  'get_id(context) for %d class x version pairs' % n)
        return
    # decided by evaluation, not by how the getter is spelt: the getter is
    # folded on an instance of every registered class with the context of
    # every version and must give what get_id(context) gives
    from ..fold import Instance, FuncVal, Env, FoldRaise
    n = 0
    for cv in sorted(classes, key=lambda c: c.ci.fq):
        ad = db.find_attr(cv.ci, 'id')
        if ad is None or ad.kind != 'def' or db.find_method(
                cv.ci, 'id') is not idp:
            continue
        for v in versions:
            if not registered(P, cv, v):
                continue
            n += 1
            inst = Instance(cv.ci, {'context': P.ctx(v)})
            try:
                w = P.F.call_func(FuncVal(idp), [inst], {}, idp.node,
                                  Env(idp.module))
            except FoldRaise as e:
                w = Raises(e.exc_type, e.exc_args)
            t = P.table_id(cv, v)
            if w != t:
                report.violation(
                    R, 'write:id-property', idp.path, idp.node,
                    idp.qualname, 'Packet.id does not resolve through '
                    'get_id(self.context): an instance of %s reads id %r '
                    'under protocol %s but get_id(context) gives %r'
                    % (cv.ci.name, w, P.vname(v), t))
                return
    if n < 1000:
        raise AnalysisError('Packet.id: only %d class x version ids could '
                            'be folded through the property' % n)
    report.ok(R, 'Packet.id reads as get_id(context) for %d class x version '
              'pairs' % n)


# ---------------------------------------------------------------------------
PLUMBING = ('get_id', 'get_definition', 'field_enum', 'field_string',
            'read', 'write_fields', 'write', '_write_buffer', 'set_values')


def r5(report, db, P, cg, classes, versions):
    R = report.rule('R05.5', 'repr/codec plumbing: every override of a '
                    'Packet hook is call-compatible with its call sites; '
                    'custom `fields` name attributes the reader assigns')
    n = 0
    flagged = set()
    for fi, sites in cg.sites.items():
        for cs in sites:
            for m, imp, rt in cs.callees:
                if m.cls is None or m.name not in PLUMBING:
                    continue
                if not db.is_subclass(m.cls, P.packet_ci):
                    continue
                n += 1
                p = arity_problem(m, imp, cs.node)
                if p:
                    key = 'hook:%s:%s' % (m.qualname, fi.qualname)
                    if key in flagged:
                        continue
                    flagged.add(key)
                    report.violation(
                        R, key, fi.path, cs.node, fi.qualname,
                        'call %s cannot bind to override %s: %s'
                        % (ast.unparse(cs.node)[:70], m.qualname, p))
                else:
                    report.ok(R)
    report.floor('packet hook call sites', n, 40)
    # custom `fields`
    for cv in sorted(classes, key=lambda c: c.ci.fq):
        ad = db.find_attr(cv.ci, 'fields')
        if ad is None or ad.owner is P.packet_ci:
            continue
        rd, _ = P.custom_codec(cv.ci)
        assigned = set()
        if rd is not None:
            # what the reader's paths store on the packet (helpers inlined,
            # loops over constant name tuples unrolled)
            from ..pathsum import struct as _struct
            S5 = getattr(report, '_s5', None)
            if S5 is None:
                S5 = report._s5 = shared.summariser(db, cg,
                                                    implicit_raises=False)
            me5 = ('sym', rd.all_params[0])
            for p5 in S5.run(rd):
                for e5 in p5.flat(('store',)):
                    if _struct(e5.base) != me5:
                        continue
                    if not isinstance(e5.attr, str):
                        raise AnalysisError(
                            '%s.read stores an attribute whose name is not '
                            'a constant' % cv.ci.qualname, e5.node,
                            rel(rd.path))
                    assigned.add(e5.attr)
        names = set()
        for v in versions[::25] + versions[-1:]:
            if not registered(P, cv, v):
                continue
            fv = fields_value(db, P, cv, ad, v)
            if isinstance(fv, (tuple, list)):
                names |= set(x for x in fv if isinstance(x, str))
        if not names:
            continue
        unknown = [x for x in sorted(names) if x not in assigned
                   and db.find_attr(cv.ci, x) is None]
        if unknown and rd is not None:
            report.violation(R, 'fields:%s' % cv.ci.qualname, cv.ci.path,
                             ad.node, cv.ci.qualname,
                             '`fields` lists %s which the reader never '
                             'assigns and the class does not define: repr '
                             'silently omits it' % unknown)
        else:
            report.ok(R, '%s.fields: %d names' % (cv.ci.qualname,
                                                   len(names)))


def r5b(report, db, P, cg, classes, versions):
    """A field_string override that formats a field with a type-specific
    formatter (nbt_to_snbt raises TypeError on anything but an NBT tag) must
    take that branch exactly in versions where the definition gives the
    field that type: otherwise repr() of a packet raises in the versions
    between the two thresholds."""
    R = report.rule('R05.5b', 'repr: a field is formatted as NBT only in '
                    'versions where its declared type is NBT')
    from .. import shared
    from ..pathsum import struct
    from ..fold import ClassVal, Instance
    S = shared.summariser(db, cg, implicit_raises=False)
    n = 0
    for fi in db.funcs:
        if fi.name != 'field_string' or fi.cls is None or \
                not db.is_subclass(fi.cls, P.packet_ci) or \
                fi.cls is P.packet_ci or len(fi.params) < 2:
            continue
        me, fld = ('sym', fi.all_params[0]), ('sym', fi.all_params[1])
        # every registered class below the owner reaches this method, directly
        # or through the super() call of its own override
        users = [cv for cv in classes if db.is_subclass(cv.ci, fi.cls)]
        for p in S.run(fi):
            for e in p.flat(('call',)):
                if not (e.fn[0] == 'fn' and e.fn[1].name == 'nbt_to_snbt'
                        or e.fn[0] == 'attr' and e.fn[2] == 'nbt_to_snbt'):
                    continue
                arg = e.args[-1] if e.args else None
                if arg is None or arg[0] != 'attr' or struct(arg[1]) != me:
                    continue
                name = arg[2]
                holds = shared.path_versions(P, p)
                for cv in users:
                    for v in versions:
                        if not registered(P, cv, v) or not holds(v):
                            continue
                        d = P.definition(cv, v)
                        if not isinstance(d, list):
                            continue
                        n += 1
                        ty = None
                        for ent in d:
                            if isinstance(ent, dict) and name in ent:
                                ty = ent[name]
                        tn = getattr(getattr(ty, 'ci', None), 'name', None)
                        if ty is not None and tn != 'NBT':
                            report.violation(
                                R, 'repr:nbt:%s.%s' % (cv.ci.name, name),
                                fi.path, e.node, fi.qualname, '%s formats '
                                '%s with nbt_to_snbt under protocol %s, '
                                'where %s declares it as %s: repr() of the '
                                'packet raises TypeError' % (
                                    fi.qualname, name, P.vname(v),
                                    cv.ci.name, tn))
                            break
                    else:
                        continue
                    break
    if not report.violations:
        report.ok(R, 'NBT formatting agrees with the declared types (%d '
                  'class x version x field instances)' % n)
    report.floor('NBT-formatted field instances', n, 50)


def fields_value(db, P, cv, ad, v):
    from ..fold import FuncVal, Env, FoldRaise
    try:
        if ad.kind == 'def':
            inst = Instance(cv.ci, {'context': P.ctx(v)})
            return P.F.call_func(FuncVal(ad.value, bound=inst), [], {},
                                 ad.node, Env(cv.ci.module))
        return P.F.attrdef_value(ad, cv)
    except (FoldRaise, AnalysisError):
        return None
