"""C12 -- concurrent writers: every packet hits the wire once, whole and in
order.  Decided as the lock discipline it rests on: sink ownership
(who-may-send), must-hold lockset on every call path to the frame writer,
queue mutator census, ordering inside disconnect."""
import ast

from ..common import AnalysisError, rel
from ..callgraph import CallGraph
from ..connmodel import ConnModel, CONN
from ..cfg import cfg_of
from .. import boolfn

PACKET = 'minecraft.networking.packets.packet'


def run(report, db, tier):
    report.explanation = (
        'Frame atomicity rests on the write lock being held at every call '
        'site that can reach a frame write.  The checker computes must-hold '
        'locksets over the resolved call graph, takes a census of every use '
        'of the connection socket and of the outgoing queue, and checks the '
        'order of flush / interrupt / close inside disconnect on its CFG.')
    cg = CallGraph(db)
    M = ConnModel(db, cg)
    from .. import shared as _sh
    whole_frames(report, db, cg, _sh.summariser(db, cg))
    r1(report, db, cg, M)
    r2(report, db, cg, M)
    r3(report, db, cg, M)
    r4(report, db, cg, M)
    from .. import shared
    R5 = report.rule('R12.5', 'what is queued belongs to one connection: '
                     '_connect starts from an empty, unbounded outgoing '
                     'queue')
    S = shared.summariser(db, cg)
    shared.fresh_connection_state(report, R5, db, S, M, ('queue',))
    # "well-formed frame, also under compression": a queued packet is framed
    # in the mode in force when it is written, and the reactor switches the
    # mode the moment the server announces it -- so the switch itself must
    # not flush the queue first
    from ..pathsum import struct
    R6 = report.rule('R12.6', 'a queued packet is framed in the mode in '
                     'force when it is written: the reactors write nothing '
                     'between a set-compression packet and the switch')
    CONN = 'minecraft.networking.connection'
    nsw = 0
    for cname in ('LoginReactor', 'PlayingReactor'):
        ci = db.get_class(CONN, cname)
        fi = db.own_method(ci, 'react')
        if fi is None:
            raise AnalysisError('%s.react vanished' % cname)
        me = ('sym', fi.all_params[0])
        opts = ('attr', ('attr', me, 'connection'), 'options')
        nsw += shared.switch_is_quiet(
            report, R6, db, S, M, cg, fi, S.run(fi), 'set compression',
            lambda e: struct(e.base) == opts and e.attr in (
                'compression_threshold', 'compression_enabled'),
            what='compression threshold') or 0
    report.floor('set-compression paths checked', nsw, 2)
    from ..common import borrow
    from . import c16
    from .. import pathsum
    borrow(report, 'R12.8', "what is handed to a connection that has just "
           "connected reaches the wire: the dying thread of the previous "
           "connection cannot close the new one (C16's close-race rule)",
           lambda rid, c: c.startswith('dispatch:'),
           lambda sub: c16.r8(sub, db, cg, M, pathsum.PathSum(
               db, cg, inline_pred=pathsum.known_unit_pred())))
    R7 = report.rule('R12.7', '"also under encryption": the cipher wrapper '
                     'hands every write to the socket at once (a single '
                     'pass-through update, nothing held back)')
    shared.wrapper_passthrough_ps(report, R7, db)


# ---------------------------------------------------------------------------
def conn_attr_uses(db, cg, M, attr, aliases=False):
    """Every syntactic use `<expr typed Connection>.<attr>` in the package:
    (fi, Attribute node).  With aliases=True a local bound once, directly to
    that attribute (`sock = self.socket`), stands for it: the binding itself
    is dropped and every load of the local is reported as a use."""
    out = []
    for fi in db.funcs:
        direct = []
        for n in cg.shallow(fi):
            if isinstance(n, ast.Attribute) and n.attr == attr and \
                    M.is_conn_expr(fi, n.value):
                direct.append(n)
        if not aliases:
            out.extend((fi, n) for n in direct)
            continue
        alias = {}
        stores = {}
        for n in cg.shallow(fi):
            if isinstance(n, ast.Name) and isinstance(n.ctx, ast.Store):
                stores[n.id] = stores.get(n.id, 0) + 1
        for n in cg.shallow(fi):
            if isinstance(n, ast.Assign) and len(n.targets) == 1 and \
                    isinstance(n.targets[0], ast.Name) and \
                    n.value in direct and stores.get(n.targets[0].id) == 1:
                alias[n.targets[0].id] = n.value
        bound = set(id(v) for v in alias.values())
        out.extend((fi, n) for n in direct if id(n) not in bound)
        for n in cg.shallow(fi):
            if isinstance(n, ast.Name) and isinstance(n.ctx, ast.Load) and \
                    n.id in alias:
                out.append((fi, n))
    return out


def whole_frames(report, db, cg, S):
    """A frame is sent only once the packet has been serialised completely:
    on no path of Packet.write does the frame writer (or a send on the
    socket) run after the serialisation raised -- a clean-up clause that
    flushes the buffer would put half a packet, well framed, on the wire."""
    from ..pathsum import struct, show
    R = report.rule('R12.9', 'a packet reaches the wire whole or not at all: '
                    'in Packet.write nothing is sent on a path on which the '
                    'serialisation of the id or the fields raised')
    pk = db.get_class(PACKET, 'Packet')
    wr = db.own_method(pk, 'write')
    wb = db.own_method(pk, '_write_buffer')
    if wr is None:
        raise AnalysisError('Packet.write vanished')
    sock = ('sym', wr.all_params[1])
    n = 0
    bad = None
    for p in S.run(wr):
        evs = p.flat(('call',))
        first = [i for i, e in enumerate(evs) if e.raised]
        if not first:
            continue
        n += 1
        for e in evs[first[0] + 1:]:
            sends = (wb is not None and e.calls(wb)) or (
                e.method() in ('send', 'sendall') and (
                    (e.fn[0] == 'attr' and struct(e.fn[1]) == sock) or
                    (e.fn[0] == 'fn' and len(e.fn) > 2 and
                     e.fn[2] is not None and struct(e.fn[2]) == sock)))
            if sends and not e.raised:
                bad = (evs[first[0]], e)
    if bad:
        report.violation(R, 'frame:partial', wr.path, bad[1].node,
                         wr.qualname, 'when %s raises, %s still runs: the '
                         'part of the packet serialised so far is framed '
                         'and sent before the exception propagates'
                         % (show(bad[0].fn)[:50], show(bad[1].fn)[:50]))
    else:
        report.ok(R, 'nothing is sent after a failed serialisation '
                  '(%d raising paths)' % n)
    # (exceptions are followed only where a try statement can see them:
    # without one in Packet.write there is nothing to check)
    report.floor('paths of Packet.write', len(S.run(wr)), 1)


def r1(report, db, cg, M):
    R = report.rule('R12.1', 'sink ownership: the connection socket is '
                    'handed out for writing only by _write_packet; '
                    'Packet.write is called only from there; a frame is two '
                    'consecutive sends with no call between them')
    pk = db.get_class(PACKET, 'Packet')
    wp = M.conn_method('_write_packet')
    uses = conn_attr_uses(db, cg, M, 'socket', aliases=True)
    report.floor('uses of connection.socket', len(uses), 6)
    for fi, node in uses:
        par = M.parents(fi)
        p = par.get(id(node))
        kind = None
        if isinstance(node.ctx, ast.Store):
            kind = 'store'
        elif isinstance(p, (ast.Compare, ast.If, ast.BoolOp, ast.UnaryOp,
                            ast.IfExp, ast.While)) and not (
                isinstance(p, ast.IfExp) and node is not p.test):
            kind = 'compare'
        elif isinstance(p, ast.Attribute) and isinstance(par.get(id(p)),
                                                         ast.Call) \
                and par[id(p)].func is p:
            kind = 'method:' + p.attr
        elif isinstance(p, ast.Call) and node in p.args:
            kind = 'argument'
        elif isinstance(p, ast.keyword):
            kind = 'argument'
        else:
            kind = 'other'
        ok = False
        why = ''
        if kind in ('store', 'compare'):
            ok = True
        elif kind.startswith('method:'):
            m = kind.split(':')[1]
            if m in ('shutdown', 'close'):
                # tearing the socket down is atomic with respect to a frame
                # only under the write lock (a frame is two sends)
                held = M.held_at_entry()
                if held.get(fi) or M.site_in_lock(fi, node):
                    ok = True
                else:
                    why = ('.%s() on the connection socket outside the write '
                           'lock: it can land between the two sends of a '
                           'frame another thread is writing, which leaves a '
                           'length prefix without its payload on the wire'
                           % m)
            elif m in ('connect', 'makefile', 'fileno',
                       'settimeout', 'setsockopt', 'getpeername',
                       'getsockname'):
                ok = True
            else:
                why = ('calls .%s() on the connection socket outside the '
                       'frame writer' % m)
        elif kind == 'argument':
            call = p if isinstance(p, ast.Call) else par.get(id(p))
            tgt = db.resolve_dotted(fi.module, call.func) \
                if isinstance(call.func, (ast.Name, ast.Attribute)) else None
            tgt = db.deref(tgt) if isinstance(tgt, tuple) else tgt
            if fi is wp or only_for(db, fi, wp):
                # packet.write(self.socket, ...)  -- in _write_packet, or in
                # a private helper nothing but _write_packet (and helpers of
                # its own) refers to
                callees = [m for m, _, _ in cg.callee_funcs(fi, call)]
                if callees and all(m.name == 'write' and m.cls is not None
                                   and db.is_subclass(m.cls, pk)
                                   for m in callees):
                    ok = True
                elif not callees and fi is not wp and isinstance(
                        call.func, ast.Attribute) and \
                        call.func.attr == 'write' and isinstance(
                            call.func.value, ast.Name) and \
                        call.func.value.id in fi.all_params:
                    # the helper's own parameter (the packet _write_packet
                    # hands it): the call graph has no type for it; the
                    # who-may-call floor below then leaves this undecided
                    ok = True
                else:
                    why = 'socket passed to %s' % ast.unparse(call.func)
            elif hasattr(tgt, 'attrs') and wrapper_installed(fi, call, par,
                                                             M):
                ok = True       # cipher wrapper replacing connection.socket
            elif tgt.__class__.__name__ == 'FuncInfo' and \
                    only_wraps(db, tgt, call, node):
                ok = True       # a helper that only builds the wrapper
            else:
                why = ('hands the connection socket to %s outside '
                       '_write_packet' % ast.unparse(call.func))
        else:
            why = 'connection socket escapes (%s)' % ast.unparse(p)[:60]
        if ok:
            report.ok(R, '%s: %s (%s)' % (fi.qualname, ast.unparse(
                par.get(id(node), node))[:50], kind))
        else:
            report.violation(R, 'socket-use:%s:%s' % (fi.qualname, kind),
                             fi.path, node, fi.qualname, why)
    # who may call Packet.write
    writers = [pk] + db.subclasses(pk)
    targets = set()
    for c in writers:
        m = db.find_method(c, 'write')
        if m is not None:
            targets.add(m)
    n = 0
    for t in targets:
        for cs in cg.callers_of(t):
            n += 1
            if cs.caller is wp:
                report.ok(R, 'Packet.write called from _write_packet')
            else:
                report.violation(
                    R, 'write-caller:%s' % cs.caller.qualname, cs.caller.path,
                    cs.node, cs.caller.qualname,
                    '%s is called outside Connection._write_packet: the '
                    'frame bypasses the lock and the listeners'
                    % t.qualname)
    report.floor('call sites of Packet.write', n, 1)
    fresh_frame_buffer(report, R, db, cg, pk)
    # two consecutive sends
    wb = db.own_method(pk, '_write_buffer')
    if wb is None:
        raise AnalysisError('Packet._write_buffer vanished')
    sock = wb.all_params[1]
    sends = []
    for i, st in enumerate(wb.body):
        for x in ast.walk(st):
            if isinstance(x, ast.Call) and any(
                    isinstance(a, ast.Name) and a.id == sock
                    for a in x.args) or (
                        isinstance(x, ast.Call) and isinstance(
                            x.func, ast.Attribute) and isinstance(
                                x.func.value, ast.Name)
                        and x.func.value.id == sock):
                sends.append((i, st, x))
    idx = sorted(set(i for i, _, _ in sends))
    if len(idx) == 2 and idx[1] == idx[0] + 1 and idx[1] == len(wb.body) - 1 \
            and all(isinstance(wb.body[i], ast.Expr) for i in idx):
        # no other call inside the two statements than the sends and pure
        # accessors on the buffer
        inner = []
        for i in idx:
            for x in ast.walk(wb.body[i]):
                if isinstance(x, ast.Call):
                    inner.append(ast.unparse(x.func))
        allowed = [c for c in inner if c.split('.')[-1] in (
            'send', 'sendall', 'get_writable', 'len') or c == 'len']
        if len(allowed) == len(inner):
            report.ok(R, '_write_buffer: frame = %s' % ' ; '.join(
                ast.unparse(wb.body[i]) for i in idx))
        else:
            report.violation(R, 'frame-sends:calls', wb.path, wb.body[idx[0]],
                             wb.qualname, 'a call other than the two sends '
                             'runs between length prefix and body: %s'
                             % [c for c in inner if c not in allowed])
    else:
        report.violation(R, 'frame-sends:shape', wb.path, wb.node,
                         wb.qualname, 'the frame is not emitted by exactly '
                         'two consecutive final statements on the socket '
                         '(statements %s of %d)' % (idx, len(wb.body)))


def fresh_frame_buffer(report, R, db, cg, pk):
    """Packet.write serialises into a buffer of its own: the buffer given to
    the frame writer was created by this very call and is held by nothing
    else -- or it is emptied before the first byte goes in.  A buffer that
    outlives the call carries the bytes of a packet whose write failed into
    the next frame."""
    from .. import shared
    from ..pathsum import struct, show
    wr = db.own_method(pk, 'write')
    wb = db.own_method(pk, '_write_buffer')
    if wr is None or wb is None:
        raise AnalysisError('Packet.write/_write_buffer vanished')
    pbuf = db.get_class('minecraft.networking.packets.packet_buffer',
                        'PacketBuffer')
    S = shared.summariser(db, cg, opaque=[wb], implicit_raises=False)
    n = 0
    for p in S.run(wr):
        evs = p.flat(('call', 'store', 'setitem'))
        frames = [e for e in evs if e.kind == 'call' and e.calls(wb)]
        for e in frames:
            n += 1
            names = list(wb.params)
            args = list(e.args)
            if len(args) == len(names) - 1:
                names = names[1:]
            bound = dict(zip(names, args))
            bound.update(dict(e.kwargs))
            buf = bound.get('packet_buffer')
            if buf is None:
                raise AnalysisError('_write_buffer call without a buffer',
                                    e.node, rel(wr.path))
            held = [x for x in evs if x.kind in ('store', 'setitem')
                    and x.value == buf]
            own = buf[0] == 'obj' and buf[3] is pbuf and not held
            first = next((x for x in evs if x.kind == 'call' and (
                x.fn[0] == 'attr' and x.fn[1] == buf or
                x.fn[0] == 'fn' and len(x.fn) > 2 and x.fn[2] == buf or
                buf in (x.args or ()))), None)
            emptied = first is not None and first.method() == 'reset' and \
                (first.fn[1] if first.fn[0] == 'attr' else first.fn[2]) == buf
            if own or emptied:
                report.ok(R, 'Packet.write: frame built in %s' % (
                    'a buffer of its own' if own else 'a buffer emptied '
                    'first'))
            else:
                report.violation(
                    R, 'frame:shared-buffer', wr.path, e.node, wr.qualname,
                    'the frame is built in %s, which outlives the call%s: '
                    'after a write that failed part-way the next frame '
                    'starts with the leftover bytes' % (
                        show(buf)[:60], ' (it is also stored in %s)' % (
                            show(held[0].base)[:40] if held else '')
                        if held else ''))
    report.floor('frame-writer calls in Packet.write', n, 1)


def only_for(db, fi, root):
    """Every mention of fi (call or value) sits inside `root` or inside a
    function for which the same holds: fi is a private part of root."""
    par_fn = {}
    for f in db.funcs:
        if isinstance(f.node, ast.Lambda):
            continue
        for x in ast.walk(f.node):
            par_fn.setdefault(id(x), f)
    # innermost owner: funcs are listed outer before inner, so overwrite
    for f in db.funcs:
        if isinstance(f.node, ast.Lambda):
            continue
        for x in ast.walk(f.node):
            if par_fn[id(x)] is not f and any(
                    y is f.node for y in ast.walk(par_fn[id(x)].node)):
                par_fn[id(x)] = f
    group = {root}
    changed = True
    while changed:
        changed = False
        for f in db.funcs:
            if f in group or f.cls is not root.cls or \
                    not f.name.startswith('_') or isinstance(f.node,
                                                             ast.Lambda):
                continue
            users = set()
            for m in db.modules.values():
                for x in ast.walk(m.tree):
                    if isinstance(x, ast.Attribute) and x.attr == f.name \
                            and isinstance(x.ctx, ast.Load):
                        users.add(par_fn.get(id(x)))
            if users and None not in users and all(
                    u in group or u is f for u in users):
                group.add(f)
                changed = True
    return fi in group


def escapes_as_value(db, fi):
    """The function is mentioned somewhere other than as the callee of a
    call (passed on, stored, put in a table)."""
    par = {}
    for m in db.modules.values():
        for x in ast.walk(m.tree):
            for c in ast.iter_child_nodes(x):
                par[id(c)] = x
        for x in ast.walk(m.tree):
            hit = (isinstance(x, ast.Attribute) and x.attr == fi.name and
                   isinstance(x.ctx, ast.Load)) or (
                isinstance(x, ast.Name) and x.id == fi.name and
                isinstance(x.ctx, ast.Load) and fi.cls is None)
            if not hit:
                continue
            p = par.get(id(x))
            if isinstance(p, ast.Call) and p.func is x:
                continue
            return True
    return False


def only_wraps(db, callee, call, node):
    """The in-repo function the socket is handed to does nothing with that
    parameter but pass it to constructors of in-repo classes (the cipher
    wrappers): it never calls a method on it, stores it or passes it on."""
    if isinstance(callee.node, ast.Lambda):
        return False
    params = callee.all_params
    if node in call.args:
        i = call.args.index(node)
        if callee.kind in ('instance', 'class'):
            i += 1
        if i >= len(callee.params):
            return False
        pname = callee.params[i]
    else:
        kw = [k for k in call.keywords if k.value is node]
        if not kw or kw[0].arg not in params:
            return False
        pname = kw[0].arg
    par = {}
    for x in ast.walk(callee.node):
        for c in ast.iter_child_nodes(x):
            par[id(c)] = x
    for x in ast.walk(callee.node):
        if not (isinstance(x, ast.Name) and x.id == pname):
            continue
        if not isinstance(x.ctx, ast.Load):
            return False
        p = par.get(id(x))
        c = p if isinstance(p, ast.Call) else (
            par.get(id(p)) if isinstance(p, ast.keyword) else None)
        if not (isinstance(c, ast.Call) and c.func is not x and isinstance(
                c.func, (ast.Name, ast.Attribute))):
            return False
        try:
            t = db.resolve_dotted(callee.module, c.func)
            t = db.deref(t) if isinstance(t, tuple) else t
        except AnalysisError:
            return False
        if t.__class__.__name__ != 'ClassInfo':
            return False
    return True


def wrapper_installed(fi, call, par, M):
    """The constructor call's result is stored to <connection>.socket."""
    p = par.get(id(call))
    if isinstance(p, ast.Assign):
        for t in p.targets:
            if isinstance(t, ast.Attribute) and t.attr == 'socket' and \
                    M.is_conn_expr(fi, t.value):
                return True
    return False


# ---------------------------------------------------------------------------
def r2(report, db, cg, M):
    R = report.rule('R12.2', 'the write lock is held on every call path '
                    'from an entry point to the frame writer and to the '
                    'queue pop; the lock is one re-entrant lock created '
                    'once')
    held = M.held_at_entry()
    for name in ('_write_packet', '_pop_packet'):
        fi = M.conn_method(name)
        callers = cg.callers_of(fi)
        if not callers:
            raise AnalysisError('%s has no call sites' % fi.qualname)
        if held[fi]:
            report.ok(R, '%s: lock held at entry on all %d call sites (%s)'
                      % (fi.qualname, len(callers), ', '.join(sorted(set(
                          c.caller.qualname for c in callers)))))
        else:
            chain = M.unlocked_path_to(fi)
            # a function on the unlocked chain that is handed around as a
            # value (iter(self._write_next, False), a table of callables) is
            # called by whoever holds the value: the call graph cannot say
            # under which lock
            cur, seen_ = fi, set()
            while cur is not None and cur not in seen_:
                seen_.add(cur)
                nxt = None
                for caller, cs in M._callers.get(cur, []):
                    if not (held[caller] or M.site_in_lock(caller, cs.node)):
                        nxt = caller
                        break
                if nxt is None:
                    break
                if escapes_as_value(db, nxt):
                    raise AnalysisError(
                        '%s reaches %s without the lock, but it is also '
                        'handed on as a value: under which lock it runs is '
                        'not decided' % (nxt.qualname, fi.qualname),
                        nxt.node, rel(nxt.path))
                cur = nxt
            first = None
            for caller, cs in M._callers.get(fi, []):
                if not (held[caller] or M.site_in_lock(caller, cs.node)):
                    first = (caller, cs)
                    break
            loc = first[1].node if first else fi.node
            who = first[0] if first else fi
            report.violation(
                R, 'lockset:%s:%s' % (name, who.qualname), who.path, loc,
                who.qualname, 'the write lock is not held on a call path to '
                '%s: %s' % (fi.qualname, '; '.join(chain)))
    if M.lock_kind == 'threading.RLock':
        report.ok(R, 'self.%s = RLock() (re-entrant), created once in '
                  '__init__' % M.lock_attr)
    else:
        report.violation(R, 'lock-kind', M.conn.path, M.lock_node,
                         'Connection.__init__', 'the write lock is a %s: '
                         'write_packet(force=True) from an outgoing listener '
                         'or disconnect() from the networking thread would '
                         'deadlock' % M.lock_kind)
    stores = [(fi, n) for fi, n in conn_attr_uses(db, cg, M, M.lock_attr)
              if isinstance(n.ctx, ast.Store)]
    if len(stores) == 1:
        report.ok(R, 'lock attribute stored once')
    else:
        for fi, n in stores[1:]:
            report.violation(R, 'lock-rebound:%s' % fi.qualname, fi.path, n,
                             fi.qualname, 'the write lock is replaced: two '
                             'threads may hold different locks')
    regions = sum(len(M.lock_withs(fi)) for fi in db.funcs)
    report.note('lock regions', regions)
    report.floor('with-lock regions', regions, 6)


# ---------------------------------------------------------------------------
def r3(report, db, cg, M):
    R = report.rule('R12.3', 'queue discipline: the outgoing queue is only '
                    'appended (write_packet), popleft-ed (_pop_packet, under '
                    'the lock) and re-created (_connect)')
    # the queue attribute: the one initialised from deque()
    qattr = None
    for fi in db.funcs:
        if fi.cls is not M.conn:
            continue
        for n in ast.walk(fi.node):
            if isinstance(n, ast.Assign) and isinstance(n.value, ast.Call) \
                    and ast.unparse(n.value.func) in ('deque',
                                                      'collections.deque'):
                for t in n.targets:
                    if isinstance(t, ast.Attribute):
                        qattr = t.attr
    if qattr is None:
        raise AnalysisError('outgoing queue (deque) not found in Connection')
    uses = conn_attr_uses(db, cg, M, qattr, aliases=True)
    report.floor('uses of the outgoing queue', len(uses), 5)
    pop = M.conn_method('_pop_packet')
    wpk = M.conn_method('write_packet')
    wp = M.conn_method('_write_packet')
    for fi, node in uses:
        par = M.parents(fi)
        p = par.get(id(node))
        if isinstance(node.ctx, ast.Store):
            if isinstance(p, ast.Assign) and isinstance(p.value, ast.Call) \
                    and ast.unparse(p.value.func) in ('deque',
                                                      'collections.deque') \
                    and not p.value.args and not p.value.keywords:
                report.ok(R, '%s: queue re-created empty and unbounded'
                          % fi.qualname)
            elif isinstance(p, ast.Assign) and isinstance(
                    p.value, ast.Call) and ast.unparse(p.value.func) in (
                        'deque', 'collections.deque') and (
                            len(p.value.args) > 1 or any(
                                k.arg == 'maxlen' and not (isinstance(
                                    k.value, ast.Constant)
                                    and k.value.value is None)
                                for k in p.value.keywords)):
                report.violation(R, 'queue:bounded:%s' % fi.qualname,
                                 fi.path, node, fi.qualname, 'the outgoing '
                                 'queue is a bounded deque (%s): appending '
                                 'to a full one silently discards the '
                                 'oldest queued packet, which then never '
                                 'reaches the wire' % ast.unparse(p.value))
            else:
                report.violation(R, 'queue:store:%s' % fi.qualname, fi.path,
                                 node, fi.qualname, 'the queue is replaced '
                                 'by something other than an empty deque')
            continue
        if isinstance(p, ast.Attribute) and isinstance(par.get(id(p)),
                                                       ast.Call):
            m = p.attr
            call = par[id(p)]
            if m == 'append' and fi is wpk:
                report.ok(R, 'write_packet: append (FIFO tail)')
            elif m == 'popleft':
                # popped element goes straight to the frame writer, on the
                # path summaries of the function: every path that pops and
                # does not raise hands exactly that value, once, to
                # _write_packet and uses it for nothing else.  Outside
                # _pop_packet (whose callers hold the lock, R12.2) the lock
                # must be held at the site.
                why = pop_use(db, cg, fi, wp, reports=fi is pop)
                if why is None and fi is not pop and not (
                        M.held_at_entry().get(fi) or
                        M.site_in_lock(fi, call)):
                    why = 'the write lock is not held where the queue is ' \
                        'popped'
                if why is None:
                    report.ok(R, '%s: popleft -> _write_packet'
                              % fi.qualname)
                else:
                    report.violation(R, 'queue:pop-use' if fi is pop else
                                     'queue:pop-use:%s' % fi.qualname,
                                     fi.path, call,
                                     fi.qualname, 'the popped packet is not '
                                     'handed directly to _write_packet (%s)'
                                     % why)
            elif m == 'append':
                report.violation(R, 'queue:%s:%s' % (m, fi.qualname),
                                 fi.path, call, fi.qualname,
                                 'queue.%s() outside %s' % (
                                     m, 'write_packet' if m == 'append'
                                     else '_pop_packet'))
            else:
                report.violation(R, 'queue:%s:%s' % (m, fi.qualname),
                                 fi.path, call, fi.qualname,
                                 'queue.%s() breaks the FIFO / exactly-once '
                                 'discipline' % m)
        elif isinstance(p, ast.Call) and ast.unparse(p.func) in ('len', 'bool'):
            report.ok(R, '%s: len(queue)' % fi.qualname)
        elif isinstance(p, (ast.If, ast.IfExp, ast.UnaryOp, ast.BoolOp,
                            ast.Compare, ast.While)):
            report.ok(R, '%s: truth test' % fi.qualname)
        elif isinstance(p, (ast.For, ast.comprehension)) and p.iter is node:
            report.violation(R, 'queue:iterate:%s' % fi.qualname, fi.path,
                             node, fi.qualname, 'the queue is iterated: '
                             'write_packet() appends to it from other '
                             'threads without the write lock, and a deque '
                             'that changes while it is iterated raises '
                             'RuntimeError -- the packets not yet written '
                             'are lost')
        else:
            report.violation(R, 'queue:use:%s' % fi.qualname, fi.path, node,
                             fi.qualname, 'unexpected use of the queue: %s'
                             % ast.unparse(p)[:60])


def segments(p):
    """The straight-line pieces of a path summary: the path's own events
    (a loop counts as one event) and, separately, each body path of its
    loops."""
    yield p, list(p.events)
    for e in p.events:
        if e.kind == 'loop':
            for q in e.paths:
                for s_ in segments(q):
                    yield s_


def pop_use(db, cg, pop, wp, reports=True):
    from .. import shared
    from ..pathsum import subterms
    S = shared.summariser(db, cg, opaque=[wp])
    npop = 0
    for p0 in S.run(pop):
      for p, evs in segments(p0):
        evs = [e for e in evs if e.kind in ('call', 'store', 'setitem')]
        pops = [e for e in evs if e.kind == 'call' and e.method() == 'popleft']
        if not pops:
            if reports and any(e.kind == 'call' and e.calls(wp)
                               for e in evs):
                return 'writes a packet that was not popped'
            continue
        if len(pops) > 1:
            return 'pops twice on one path'
        if pops[0].raised:
            continue            # nothing was popped: the queue was empty
        npop += 1
        r = pops[0].res
        writes = [e for e in evs if e.kind == 'call' and e.calls(wp)]
        after = evs[evs.index(pops[0]) + 1:]
        if len(writes) != 1 or [a for a in writes[0].args
                                if a != writes[0].args[0]] or \
                writes[0].args[-1] != r:
            return 'popped on a path that does not write exactly it [%s]' \
                % p.cond_text()
        for e in after:
            if e is writes[0]:
                continue
            used = [t for t in list(e.args or ()) + [v for _, v in (
                e.kwargs or ())] + [e.value] if t is not None
                and any(x == r for x in subterms(t))]
            if used:
                return 'the popped packet is also used by %r' % e
        if p.returns and p.value is not None and any(
                x == r for x in subterms(p.value)):
            return 'the popped packet is returned'
    if not npop:
        return 'no path pops'
    if not reports:
        return None
    # what the callers' `while self._pop_packet()` loops rely on: the result
    # says whether a packet was written
    for p in S.run(pop):
        if not p.returns and p.outcome[0] != 'fall':
            continue
        evs = p.flat(('call',))
        wrote = any(e.calls(wp) and not e.raised for e in evs)
        v = p.value if p.returns else ('const', None)
        if v is None:
            v = ('const', None)
        if v[0] != 'const':
            return 'returns %s: whether a packet was written is not what ' \
                'it reports' % (v,)
        if bool(v[1]) != wrote:
            return 'returns %r on the path that %s a packet [%s]: the ' \
                'loops `while self._pop_packet()` (the write pass, the flush ' \
                'of a non-immediate disconnect) then %s' % (
                    v[1], 'wrote' if wrote else 'did not write',
                    p.cond_text(), 'stop after the first packet and leave '
                    'the rest of the queue unsent' if wrote
                    else 'never end')
    return None


# ---------------------------------------------------------------------------
def call_nodes(g, pred):
    out = []
    for n in g.reachable_nodes():
        if n.ast is None:
            continue
        for x in n.calls():
            if pred(x):
                out.append(n)
                break
    return out


def r4(report, db, cg, M):
    R = report.rule('R12.4', 'disconnect: flush iff not immediate, inside '
                    'the lock, before interrupt and close; socket is None '
                    'after close')
    dc = M.conn_method('disconnect')
    g = cfg_of(dc)
    pop = M.conn_method('_pop_packet')
    wp = M.conn_method('_write_packet')

    def is_flush(call):
        return any(m in (pop, wp) for m, _, _ in cg.callee_funcs(dc, call))

    def is_close(call):
        f = call.func
        return isinstance(f, ast.Attribute) and f.attr in ('close',
                                                           'shutdown') and \
            isinstance(f.value, ast.Attribute) and \
            f.value.attr in ('socket', 'file_object')
    flush = call_nodes(g, is_flush)
    close = call_nodes(g, is_close)
    if not flush:
        report.violation(R, 'disconnect:no-flush', dc.path, dc.node,
                         dc.qualname, 'a non-immediate disconnect never '
                         'drains the outgoing queue')
    if not close:
        raise AnalysisError('disconnect: no close/shutdown call found',
                            dc.node, rel(dc.path))
    imm = None
    for p in dc.params[1:]:
        imm = p
        break
    for n in flush:
        if not M.node_in_lock(dc, n):
            report.violation(R, 'disconnect:flush-unlocked', dc.path, n.ast,
                             dc.qualname, 'the flush runs outside the write '
                             'lock')
        conds = boolfn.path_conditions(g, n)
        w = boolfn.conj_satisfiable(conds, {imm: True})
        if w is None:
            report.ok(R, 'flush at line %d unreachable when %s is true'
                      % (n.lineno, imm))
        else:
            report.violation(R, 'disconnect:flush-immediate', dc.path, n.ast,
                             dc.qualname, 'packets are still written on an '
                             'immediate disconnect (path condition %s)'
                             % ' and '.join('%s%s' % ('' if t else 'not ',
                                                      ast.unparse(e))
                                            for e, t in conds))
        w2 = boolfn.conj_satisfiable(conds, {imm: False})
        if w2 is None:
            report.violation(R, 'disconnect:flush-never', dc.path, n.ast,
                             dc.qualname, 'the flush is unreachable for a '
                             'non-immediate disconnect')
    # order: nothing is written after the close or after the interrupt store
    def is_interrupt_store(n):
        a = n.ast
        return isinstance(a, ast.Assign) and any(
            isinstance(t, ast.Attribute) and t.attr == 'interrupt'
            for t in a.targets)
    intr = [n for n in g.reachable_nodes() if n.ast is not None
            and is_interrupt_store(n)]
    for c in close + intr:
        pth = g.exists_path(c, lambda n: n in flush)
        if pth is not None:
            report.violation(R, 'disconnect:order:%s' % (
                'close' if c in close else 'interrupt'), dc.path, c.ast,
                dc.qualname, 'a queued packet can still be written after '
                'line %d (%s)' % (c.lineno, 'socket closed' if c in close
                                  else 'thread told to stop'))
        else:
            report.ok(R, 'no write after line %d' % c.lineno)
        if not M.node_in_lock(dc, c):
            report.violation(R, 'disconnect:unlocked:%d' % c.lineno, dc.path,
                             c.ast, dc.qualname, 'teardown step outside the '
                             'write lock: a concurrent writer can interleave')
    # after socket.close(): self.socket = None on every normal path to exit
    def is_sock_close(call):
        f = call.func
        return isinstance(f, ast.Attribute) and f.attr == 'close' and \
            isinstance(f.value, ast.Attribute) and f.value.attr == 'socket'

    def is_none_store(n):
        a = n.ast
        return isinstance(a, ast.Assign) and any(
            isinstance(t, ast.Attribute) and t.attr == 'socket'
            for t in a.targets) and isinstance(a.value, ast.Constant) and \
            a.value.value is None
    for c in call_nodes(g, is_sock_close):
        pth = g.exists_path(c, lambda n: n is g.exit,
                            avoid=lambda n: n.ast is not None
                            and is_none_store(n),
                            labels=('next', 'true', 'false', 'return',
                                    'break', 'continue'))
        if pth is None:
            report.ok(R, 'socket = None follows close at line %d' % c.lineno)
        else:
            report.violation(R, 'disconnect:socket-not-cleared', dc.path,
                             c.ast, dc.qualname, 'after closing, '
                             'self.socket keeps the dead socket on a normal '
                             'path: the next disconnect() closes it again '
                             'and writers see a stale socket')
