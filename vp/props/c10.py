"""C10 -- login completes correctly for every order of optional server
steps.  LoginReactor.react is a stateless dispatch on the packet kind, so
"every order" reduces to per-arm obligations that hold on all paths of the
arm."""
import ast
import re

from ..common import AnalysisError, rel
from ..callgraph import CallGraph
from ..connmodel import ConnModel, CONN
from ..cfg import cfg_of
from ..protocol import Proto
from .. import shared, boolfn
from ..terms import SymEval, TupleT, MethT, Sym

ENC = 'minecraft.networking.encryption'


def run(report, db, tier):
    report.explanation = (
        'Each arm of LoginReactor.react is checked for the dataflow and '
        'ordering obligations the login protocol puts on it; because the '
        'dispatch is stateless these per-arm facts hold for every order of '
        'optional server steps.')
    cg = CallGraph(db)
    M = ConnModel(db, cg)
    P = Proto(db)
    lr = db.get_class(CONN, 'LoginReactor')
    fi = db.own_method(lr, 'react')
    if fi is None:
        raise AnalysisError('LoginReactor.react vanished')
    R7 = report.rule('R10.7', 'every compared packet_name exists in the '
                     'login table and the arm reads only fields of that '
                     'class')
    arms = shared.name_agreement(report, R7, db, P, lr, 'login', M)
    report.floor('login arms', len(arms), 5)
    R8 = report.rule('R10.8', 'packets written by the login reactor and by '
                     'connect() have every field set')
    n = shared.field_completeness(report, R8, db, cg, P, M, fi)
    n += shared.field_completeness(report, R8, db, cg, P, M,
                                   M.conn_method('connect'))
    n += shared.field_completeness(report, R8, db, cg, P, M,
                                   M.conn_method('_handshake'))
    report.floor('login/connect write sites checked', n, 4)
    facts = encryption_arm(report, db, cg, M, fi, arms)
    compression_arm(report, db, cg, M, fi, arms)
    plugin_arm(report, db, cg, M, fi, arms)
    success_arm(report, db, cg, M, fi, arms)
    disconnect_arm(report, db, cg, M, fi, arms)
    stateless(report, db, cg, M, fi, lr)
    transport_lookup(report, db, cg, M)


def arm_nodes(g, st):
    """CFG nodes belonging to the body of If statement `st`."""
    inside = set()
    for s in st.body:
        for x in ast.walk(s):
            inside.add(id(x))
    return [n for n in g.reachable_nodes() if n.ast is not None
            and id(n.ast) in inside]


def find_calls(stmts, pred):
    out = []
    for s in stmts:
        for x in ast.walk(s):
            if isinstance(x, ast.Call) and pred(x):
                out.append(x)
    return out


def assigned_from(stmts, call):
    for s in stmts:
        for x in ast.walk(s):
            if isinstance(x, ast.Assign) and x.value is call:
                return x.targets[0]
    return None


def encryption_arm(report, db, cg, M, fi, arms):
    R = report.rule('R10.1', 'encryption arm: one fresh secret flows to '
                    'RSA encryption, hash and cipher; response fields in '
                    'the right slots; forced write precedes both wrapper '
                    'installations; join before the response')
    if 'encryption request' not in arms:
        report.violation(R, 'enc:missing', fi.path, fi.node, fi.qualname,
                         'no arm for the encryption request')
        return None
    st, body = arms['encryption request']
    pk = fi.params[1]
    g = cfg_of(fi)

    def callee_is(c, mod, name):
        return any(m.name == name and m.module.name == mod
                   for m, _, _ in cg.callee_funcs(fi, c))
    gen = find_calls(body, lambda c: callee_is(c, ENC,
                                               'generate_shared_secret'))
    if len(gen) != 1:
        report.violation(R, 'enc:secret-count', fi.path, st, fi.qualname,
                         'the arm generates %d secrets: the one sent to the '
                         'server and the one keying the cipher must be the '
                         'same fresh value' % len(gen))
        return None
    sec_t = assigned_from(body, gen[0])
    if not isinstance(sec_t, ast.Name):
        report.violation(R, 'enc:secret-binding', fi.path, gen[0],
                         fi.qualname, 'the secret is not bound to a local')
        return None
    sec = sec_t.id
    # the secret is fresh on every path and never outlives the arm
    other = []
    kept = []
    for s_ in body:
        for x in ast.walk(s_):
            if isinstance(x, ast.Assign):
                for t in x.targets:
                    if isinstance(t, ast.Name) and t.id == sec and \
                            x.value is not gen[0]:
                        other.append(x)
                    if isinstance(t, (ast.Attribute, ast.Subscript)) and \
                            isinstance(x.value, ast.Name) and \
                            x.value.id == sec:
                        kept.append(x)
    gnodes = M.cfg_nodes_of(fi, gen[0])
    tests_ = [n for n in g.reachable_nodes() if n.kind == 'test'
              and n.ast is st.test]
    always = bool(gnodes) and bool(tests_) and all(
        not [c for c in boolfn.path_conditions(g, n)
             if c[0] is not st.test and 'packet_name' not in
             ast.unparse(c[0])] for n in gnodes)
    if other or kept or not always:
        x = (other or kept or [gen[0]])[0]
        report.violation(R, 'enc:secret-not-fresh', fi.path, x, fi.qualname,
                         'the shared secret is not generated afresh on '
                         'every encryption request (%s): a reconnect on the '
                         'same object reuses key and IV' % (
                             'taken from elsewhere: %s' % ast.unparse(
                                 other[0]) if other else
                             'stored beyond the arm: %s' % ast.unparse(
                                 kept[0]) if kept else
                             'generated only under a condition'))
    else:
        report.ok(R, 'secret = generate_shared_secret() on every path of '
                  'the arm, kept only in a local')
    facts = dict(secret=sec)
    # ---- RSA encryption
    enc = find_calls(body, lambda c: callee_is(c, ENC,
                                               'encrypt_token_and_secret'))
    efi = db.get_func(ENC, 'encrypt_token_and_secret')
    if len(enc) != 1:
        report.violation(R, 'enc:rsa-call', fi.path, st, fi.qualname,
                         'expected one encrypt_token_and_secret call')
        return facts
    from ..terms import map_args
    am = map_args(efi, enc[0])
    if am is None:
        raise AnalysisError('cannot map arguments of '
                            'encrypt_token_and_secret', enc[0],
                            rel(fi.path))
    got = {k: ast.unparse(v) for k, v in am.items()}
    want = dict(zip(efi.params, ['%s.public_key' % pk,
                                 '%s.verify_token' % pk, sec]))
    if got == want:
        report.ok(R, 'encrypt_token_and_secret(%s)' % ', '.join(
            '%s=%s' % kv for kv in sorted(got.items())))
    else:
        report.violation(R, 'enc:rsa-args', fi.path, enc[0], fi.qualname,
                         'RSA helper called with %s; expected %s'
                         % (got, want))
    # which returned item is which
    term = SymEval(db).run(efi)
    roles = []
    if isinstance(term, TupleT):
        for it in term.items:
            if isinstance(it, MethT) and it.name == 'encrypt' and it.args \
                    and isinstance(it.args[0], Sym):
                roles.append(it.args[0].name)
            else:
                roles.append(None)
    tgt = assigned_from(body, enc[0])
    if not (isinstance(tgt, ast.Tuple) and len(tgt.elts) == len(roles) == 2
            and all(isinstance(e, ast.Name) for e in tgt.elts)
            and None not in roles):
        raise AnalysisError('encrypt_token_and_secret: result/unpacking '
                            'shape not recognised', enc[0], rel(fi.path))
    var_of = {role: e.id for role, e in zip(roles, tgt.elts)}
    enc_token = var_of.get(efi.params[1])
    enc_secret = var_of.get(efi.params[2])
    # ---- response packet fields
    built = shared.constructed_packets(db, cg, Proto_cache(db), fi)
    resp = [k for k, (ci, kw, n) in built.items()
            if ci.name == 'EncryptionResponsePacket']
    if len(resp) != 1:
        report.violation(R, 'enc:response', fi.path, st, fi.qualname,
                         'expected one EncryptionResponsePacket')
        return facts
    rv = resp[0]
    slots = {}
    ci, kw, asn = built[rv]
    for k in asn.value.keywords:
        slots[k.arg] = ast.unparse(k.value)
    for s in body:
        for x in ast.walk(s):
            if isinstance(x, ast.Assign) and len(x.targets) == 1 and \
                    isinstance(x.targets[0], ast.Attribute) and \
                    isinstance(x.targets[0].value, ast.Name) and \
                    x.targets[0].value.id == rv:
                slots[x.targets[0].attr] = ast.unparse(x.value)
    if slots.get('shared_secret') == enc_secret and \
            slots.get('verify_token') == enc_token:
        report.ok(R, 'response.shared_secret = encrypted secret, '
                  'response.verify_token = encrypted token')
    else:
        report.violation(R, 'enc:response-slots', fi.path, asn, fi.qualname,
                         'response fields are %s; shared_secret must carry '
                         'the encrypted secret (%s) and verify_token the '
                         'encrypted token (%s)' % (slots, enc_secret,
                                                   enc_token))
    # ---- forced write, before the wrappers
    writes = find_calls(body, lambda c: isinstance(c.func, ast.Attribute)
                        and c.func.attr == 'write_packet')
    wr = [w for w in writes if w.args and ast.unparse(w.args[0]) == rv]
    if len(wr) != 1 or len(writes) != 1:
        report.violation(R, 'enc:write-count', fi.path, st, fi.qualname,
                         'the arm must write exactly the encryption '
                         'response once (found %d writes)' % len(writes))
        return facts
    w = wr[0]
    forced = any(k.arg == 'force' and isinstance(k.value, ast.Constant)
                 and k.value.value is True for k in w.keywords) or (
                     len(w.args) > 1 and isinstance(w.args[1], ast.Constant)
                     and w.args[1].value is True)
    if forced:
        report.ok(R, 'write_packet(response, force=True)')
    else:
        report.violation(R, 'enc:not-forced', fi.path, w, fi.qualname,
                         'the response is queued, not forced: by the time '
                         'the queue is drained the socket is already '
                         'encrypting, so the server receives garbage')
    wn = M.cfg_nodes_of(fi, w)
    installs = {}
    for s in body:
        for x in ast.walk(s):
            if isinstance(x, ast.Assign) and len(x.targets) == 1 and \
                    isinstance(x.targets[0], ast.Attribute) and \
                    x.targets[0].attr in ('socket', 'file_object') and \
                    M.is_conn_expr(fi, x.targets[0].value):
                installs[x.targets[0].attr] = x
    facts['installs'] = installs
    for attr in ('socket', 'file_object'):
        if attr not in installs:
            report.violation(R, 'enc:not-wrapped:%s' % attr, fi.path, st,
                             fi.qualname, 'connection.%s is not replaced by '
                             'a cipher wrapper: %s stays in clear text'
                             % (attr, 'sending' if attr == 'socket'
                                else 'receiving'))
            continue
        inn = M.cfg_nodes_of(fi, installs[attr])
        if wn and inn and all(g.dominates(a, b) for a in wn for b in inn):
            report.ok(R, 'response write dominates the %s wrapper' % attr)
        else:
            report.violation(R, 'enc:wrapper-before-write:%s' % attr,
                             fi.path, installs[attr], fi.qualname,
                             'the %s wrapper is installed before the '
                             'response is written: the response itself '
                             'would be encrypted' % attr)
    # ---- cipher and wrappers
    mk = find_calls(body, lambda c: callee_is(c, ENC, 'create_AES_cipher'))
    if len(mk) == 1 and [ast.unparse(a) for a in mk[0].args] == [sec]:
        report.ok(R, 'cipher = create_AES_cipher(%s)' % sec)
        cvar = assigned_from(body, mk[0])
        cvar = cvar.id if isinstance(cvar, ast.Name) else None
    else:
        report.violation(R, 'enc:cipher-secret', fi.path, st, fi.qualname,
                         'the cipher is not created exactly once from the '
                         'secret that was sent to the server')
        cvar = None
    facts['cipher_var'] = cvar
    encs = find_calls(body, lambda c: isinstance(c.func, ast.Attribute)
                      and c.func.attr == 'encryptor'
                      and ast.unparse(c.func.value) == cvar)
    decs = find_calls(body, lambda c: isinstance(c.func, ast.Attribute)
                      and c.func.attr == 'decryptor'
                      and ast.unparse(c.func.value) == cvar)
    if len(encs) == 1 and len(decs) == 1:
        ev = assigned_from(body, encs[0])
        dv = assigned_from(body, decs[0])
        ev = ev.id if isinstance(ev, ast.Name) else None
        dv = dv.id if isinstance(dv, ast.Name) else None
        report.ok(R, 'one encryptor and one decryptor per login')
    else:
        report.violation(R, 'enc:cipher-contexts', fi.path, st, fi.qualname,
                         'expected exactly one cipher.encryptor() and one '
                         'cipher.decryptor() (found %d / %d): each extra '
                         'context restarts the CFB8 stream'
                         % (len(encs), len(decs)))
        ev = dv = None
    facts['enc_var'], facts['dec_var'] = ev, dv
    want_w = {'socket': ('EncryptedSocketWrapper',
                         {'socket': 'OLD', 'encryptor': ev, 'decryptor': dv}),
              'file_object': ('EncryptedFileObjectWrapper',
                              {'file_object': 'OLD', 'decryptor': dv})}
    for attr, asn2 in installs.items():
        cname, wargs = want_w[attr]
        val = asn2.value
        ent = db.resolve_dotted(fi.module, val.func) if isinstance(
            val, ast.Call) else None
        if not (hasattr(ent, 'attrs') and ent.name == cname):
            report.violation(R, 'enc:wrapper-class:%s' % attr, fi.path, asn2,
                             fi.qualname, 'connection.%s is replaced by %s, '
                             'not by %s' % (attr, ast.unparse(val)[:40],
                                            cname))
            continue
        init = db.find_method(ent, '__init__')
        am = map_args(init, val, skip_first=True)
        if am is None:
            raise AnalysisError('cannot map wrapper arguments', val,
                                rel(fi.path))
        old = ast.unparse(asn2.targets[0])
        ok = True
        for p, wv in wargs.items():
            gv = ast.unparse(am[p]) if p in am else None
            if wv == 'OLD':
                if gv != old:
                    ok = False
            elif gv != wv:
                ok = False
        if ok and ev and dv:
            report.ok(R, '%s = %s' % (old, ast.unparse(val)))
        else:
            report.violation(R, 'enc:wrapper-args:%s' % attr, fi.path, asn2,
                             fi.qualname, 'wrapper built as %s; expected the '
                             'old %s with encryptor=%s / decryptor=%s'
                             % (ast.unparse(val), attr, ev, dv))
    # ---- session join
    joins = find_calls(body, lambda c: isinstance(c.func, ast.Attribute)
                       and c.func.attr == 'join'
                       and 'auth_token' in ast.unparse(c.func.value))
    if len(joins) != 1:
        report.violation(R, 'enc:join-count', fi.path, st, fi.qualname,
                         'expected exactly one auth_token.join() in the '
                         'arm, found %d' % len(joins))
    else:
        jn = M.cfg_nodes_of(fi, joins[0])
        conds = []
        for n in jn:
            conds = boolfn.path_conditions(g, n)
        ctext = [(ast.unparse(e), t) for e, t in conds
                 if 'packet_name' not in ast.unparse(e)]
        want1 = ("%s.server_id != '-'" % pk, True)
        tok = [c for c in ctext if 'auth_token' in c[0]]
        online = [c for c in ctext if 'server_id' in c[0]]
        ok1 = len(online) == 1 and boolfn.same_function(
            ast.parse(online[0][0] if online[0][1] else
                      'not (%s)' % online[0][0], mode='eval').body,
            ast.parse(want1[0], mode='eval').body)
        ok2 = len(tok) == 1
        if ok1 and ok2 and len(ctext) == 2:
            report.ok(R, 'join attempted iff server_id != "-" and a token '
                      'exists')
        else:
            report.violation(R, 'enc:join-guard', fi.path, joins[0],
                             fi.qualname, 'the session join is guarded by '
                             '%s; it must happen exactly when the server is '
                             'in online mode (server_id != "-") and a token '
                             'exists' % ctext)
        if wn and jn and any(g.exists_path(a, lambda x: x in jn)
                             for a in wn):
            report.violation(R, 'enc:join-after-response', fi.path, joins[0],
                             fi.qualname, 'the session join happens after '
                             'the response: the server checks the session '
                             'as soon as it gets the response')
        else:
            report.ok(R, 'join precedes the response')
    return facts


_PC = {}


def Proto_cache(db):
    if 'p' not in _PC:
        _PC['p'] = Proto(db)
    return _PC['p']


def compression_arm(report, db, cg, M, fi, arms):
    R = report.rule('R10.2', 'compression arm: sets the threshold from the '
                    'packet and enables compression')
    if 'set compression' not in arms:
        report.violation(R, 'comp:missing', fi.path, fi.node, fi.qualname,
                         'no arm for set compression')
        return
    st, body = arms['set compression']
    pk = fi.params[1]
    stores = {}
    for s in body:
        for x in ast.walk(s):
            if isinstance(x, ast.Assign) and len(x.targets) == 1 and \
                    isinstance(x.targets[0], ast.Attribute):
                stores[x.targets[0].attr] = ast.unparse(x.value)
    if stores.get('compression_threshold') == '%s.threshold' % pk and \
            stores.get('compression_enabled') == 'True':
        report.ok(R, 'options.compression_threshold = packet.threshold; '
                  'options.compression_enabled = True')
    else:
        report.violation(R, 'comp:stores', fi.path, st, fi.qualname,
                         'the arm stores %s; it must set the threshold from '
                         'the packet and enable compression, otherwise '
                         'every following frame is mis-framed' % stores)


def plugin_arm(report, db, cg, M, fi, arms):
    R = report.rule('R10.3', 'plugin arm: exactly one unsuccessful response '
                    'carrying the request id')
    if 'login plugin request' not in arms:
        report.violation(R, 'plugin:missing', fi.path, fi.node, fi.qualname,
                         'no arm for login plugin requests: the server '
                         'waits for a response forever')
        return
    st, body = arms['login plugin request']
    pk = fi.params[1]
    writes = find_calls(body, lambda c: isinstance(c.func, ast.Attribute)
                        and c.func.attr == 'write_packet')
    g = cfg_of(fi)
    loops = [x for s in body for x in ast.walk(s)
             if isinstance(x, (ast.For, ast.While))]
    if len(writes) != 1 or loops:
        report.violation(R, 'plugin:count', fi.path, st, fi.qualname,
                         'a plugin request is answered %s times'
                         % ('several' if loops else len(writes)))
        return
    a = writes[0].args[0] if writes[0].args else None
    vals = {}
    cname = None
    if isinstance(a, ast.Call):
        ent = db.resolve_dotted(fi.module, a.func)
        cname = getattr(ent, 'name', None)
        vals = {k.arg: ast.unparse(k.value) for k in a.keywords}
    elif isinstance(a, ast.Name):
        for s in body:
            for x in ast.walk(s):
                if isinstance(x, ast.Assign) and isinstance(
                        x.targets[0], ast.Name) and \
                        x.targets[0].id == a.id and isinstance(x.value,
                                                               ast.Call):
                    ent = db.resolve_dotted(fi.module, x.value.func)
                    cname = getattr(ent, 'name', None)
                    vals.update({k.arg: ast.unparse(k.value)
                                 for k in x.value.keywords})
                if isinstance(x, ast.Assign) and isinstance(
                        x.targets[0], ast.Attribute) and \
                        ast.unparse(x.targets[0].value) == a.id:
                    vals[x.targets[0].attr] = ast.unparse(x.value)
    if cname == 'PluginResponsePacket' and \
            vals.get('message_id') == '%s.message_id' % pk and \
            vals.get('successful') == 'False' and 'data' not in vals:
        report.ok(R, 'PluginResponsePacket(message_id=packet.message_id, '
                  'successful=False)')
    else:
        report.violation(R, 'plugin:response', fi.path, writes[0],
                         fi.qualname, 'the default answer is %s(%s); it '
                         'must echo the request id and be unsuccessful'
                         % (cname, vals))
    # the answer is taken on every path through the arm
    wn = M.cfg_nodes_of(fi, writes[0])
    tests = [n for n in g.reachable_nodes() if n.kind == 'test'
             and n.ast is st.test]
    if wn and tests and all(
            g.exists_path(t, lambda x: x is g.exit,
                          avoid=lambda x: x in wn,
                          start_labels=('true',)) is None for t in tests):
        report.ok(R, 'answered on every path through the arm')
    else:
        report.violation(R, 'plugin:skipped', fi.path, st, fi.qualname,
                         'a path through the arm sends no response')


def success_arm(report, db, cg, M, fi, arms):
    R = report.rule('R10.4', 'success arm installs the play reactor')
    if 'login success' not in arms:
        report.violation(R, 'success:missing', fi.path, fi.node,
                         fi.qualname, 'no arm for login success')
        return
    st, body = arms['login success']
    ok = False
    for s in body:
        for x in ast.walk(s):
            if isinstance(x, ast.Assign) and isinstance(
                    x.targets[0], ast.Attribute) and \
                    x.targets[0].attr == 'reactor' and \
                    M.is_conn_expr(fi, x.targets[0].value) and \
                    isinstance(x.value, ast.Call):
                ent = db.resolve_dotted(fi.module, x.value.func)
                if getattr(ent, 'name', None) == 'PlayingReactor' and \
                        len(x.value.args) == 1 and M.is_conn_expr(
                            fi, x.value.args[0]):
                    ok = True
    if ok:
        report.ok(R, 'connection.reactor = PlayingReactor(connection)')
    else:
        report.violation(R, 'success:reactor', fi.path, st, fi.qualname,
                         'login success does not switch the connection to '
                         'the play reactor')


def disconnect_arm(report, db, cg, M, fi, arms):
    R = report.rule('R10.5', 'disconnect arm: every path raises -- a login '
                    'failure carrying the server text, or a version '
                    'mismatch for the two "Outdated" messages')
    if 'disconnect' not in arms:
        report.violation(R, 'disc:missing', fi.path, fi.node, fi.qualname,
                         'no arm for a disconnect during login: the '
                         'rejection passes silently')
        return
    st, body = arms['disconnect']
    g = cfg_of(fi)
    vm = M.conn_method('_version_mismatch')
    gv = cfg_of(vm)
    if gv.exit in gv.reachable_nodes():
        report.violation(R, 'disc:mismatch-returns', vm.path, vm.node,
                         vm.qualname, '_version_mismatch can return '
                         'normally: the caller then falls through')
        vm_raises = False
    else:
        report.ok(R, '_version_mismatch raises on every path')
        vm_raises = True
    tests = [n for n in g.reachable_nodes() if n.kind == 'test'
             and n.ast is st.test]
    if not tests:
        raise AnalysisError('disconnect arm not on the CFG', st,
                            rel(fi.path))

    def is_vm_call(n):
        return n.ast is not None and any(
            any(m is vm for m, _, _ in cg.callee_funcs(fi, c))
            for c in n.calls())
    pth = g.exists_path(tests[0], lambda x: x is g.exit,
                        avoid=lambda x: vm_raises and is_vm_call(x),
                        start_labels=('true',),
                        labels=('next', 'true', 'false', 'return', 'break',
                                'continue'))
    if pth is None:
        report.ok(R, 'no normal exit from the arm')
    else:
        where = [x for x in pth if x.ast is not None][-1]
        report.violation(R, 'disc:silent', fi.path, where.ast, fi.qualname,
                         'a path through the disconnect arm returns '
                         'normally: the server\'s rejection is swallowed')
    # LoginDisconnect carries the server's message
    rz = [x for s in body for x in ast.walk(s) if isinstance(x, ast.Raise)
          and x.exc is not None and 'LoginDisconnect' in ast.unparse(x.exc)]
    if rz and any('msg' in ast.unparse(r.exc) or '%s.json_data' % fi.params[1]
                  in ast.unparse(r.exc) for r in rz):
        report.ok(R, 'LoginDisconnect interpolates the server text')
    else:
        report.violation(R, 'disc:message', fi.path, st, fi.qualname,
                         'no LoginDisconnect carrying the server\'s message '
                         'is raised')
    # what reaches the string consumers (re.match, %-interpolation) is the
    # chat object's 'text' member or the raw data -- never the parsed JSON
    # value itself, which may be a list / number / null for legal replies
    pk = fi.params[1]
    mvars = set()
    for s in body:
        for x in ast.walk(s):
            if isinstance(x, ast.Call) and ast.unparse(x.func) in (
                    're.match', 're.fullmatch', 're.search') and \
                    len(x.args) > 1 and isinstance(x.args[1], ast.Name):
                mvars.add(x.args[1].id)
    parsed = set()
    for s in body:
        for x in ast.walk(s):
            if isinstance(x, ast.Assign) and isinstance(x.targets[0],
                                                        ast.Name) and \
                    isinstance(x.value, ast.Call) and \
                    ast.unparse(x.value.func) == 'json.loads':
                parsed.add(x.targets[0].id)

    def source_ok(e):
        if isinstance(e, ast.IfExp):
            return source_ok(e.body) and source_ok(e.orelse)
        t = ast.unparse(e)
        if t == '%s.json_data' % pk:
            return True
        if isinstance(e, ast.Call) and ast.unparse(e.func) == 'str':
            return True
        if isinstance(e, ast.Subscript) and isinstance(e.slice,
                                                       ast.Constant) and \
                e.slice.value == 'text':
            b = e.value
            return (isinstance(b, ast.Call) and ast.unparse(b.func) ==
                    'json.loads') or (isinstance(b, ast.Name)
                                      and b.id in parsed)
        return False
    bad_src = []
    for s in body:
        for x in ast.walk(s):
            if isinstance(x, ast.Assign) and isinstance(
                    x.targets[0], ast.Name) and x.targets[0].id in mvars \
                    and not source_ok(x.value):
                bad_src.append(x)
    if mvars and not bad_src:
        report.ok(R, 'message text comes from the "text" member or the raw '
                  'data')
    for x in bad_src:
        report.violation(R, 'disc:message-source', fi.path, x, fi.qualname,
                         'the text matched and reported is taken from %s: a '
                         'reason that is valid JSON but not a chat object '
                         'with a string "text" (an array of components, '
                         'null, a number) reaches re.match and fails with '
                         'TypeError instead of a LoginDisconnect'
                         % ast.unparse(x.value))
    # the two "Outdated" forms
    pats = [x for s in body for x in ast.walk(s) if isinstance(x, ast.Call)
            and ast.unparse(x.func) in ('re.match', 're.fullmatch',
                                        're.search')]
    if len(pats) != 1 or not isinstance(pats[0].args[0], ast.Constant):
        report.violation(R, 'disc:pattern', fi.path, st, fi.qualname,
                         'the "Outdated ..." messages are not recognised by '
                         'one constant pattern')
        return
    pat = pats[0].args[0].value
    fn = getattr(re, ast.unparse(pats[0].func).split('.')[1])
    good = {"Outdated client! Please use 1.16.5": '1.16.5',
            "Outdated server! I'm still on 1.8.9": '1.8.9',
            "Outdated client! Please use 21w07a": '21w07a'}
    bad = ["Outdated client!", "You are banned", "Outdated server! 1.8",
           "Outdated client! Please use 1.16.5 now",
           "x Outdated client! Please use 1.16.5"]
    probs = []
    try:
        for msg, ver in good.items():
            m = fn(pat, msg)
            if not m or m.groupdict().get('ver') != ver:
                probs.append('does not extract %r from %r' % (ver, msg))
        for msg in bad:
            if fn(pat, msg):
                probs.append('also matches %r' % msg)
    except re.error as e:
        probs.append('pattern does not compile: %s' % e)
    if probs:
        report.violation(R, 'disc:pattern-language', fi.path, pats[0],
                         fi.qualname, 'the outdated-version pattern %s'
                         % '; '.join(probs[:3]))
    else:
        report.ok(R, 'pattern accepts exactly the two documented forms and '
                  'captures the version')
    vcalls = find_calls(body, lambda c: any(
        m is vm for m, _, _ in cg.callee_funcs(fi, c)))
    if vcalls and all(any(k.arg == 'server_version' for k in c.keywords)
                      for c in vcalls):
        report.ok(R, '_version_mismatch(server_version=ver)')
    else:
        report.violation(R, 'disc:mismatch-args', fi.path, st, fi.qualname,
                         'the outdated branch does not raise a version '
                         'mismatch naming the server\'s version')


def stateless(report, db, cg, M, fi, lr):
    R = report.rule('R10.6', 'the dispatch is stateless: react keeps no '
                    'state of its own between packets, so per-arm facts '
                    'cover every order of steps')
    me = fi.params[0]
    stores = [n for n in ast.walk(fi.node) if isinstance(n, ast.Attribute)
              and isinstance(n.ctx, ast.Store)
              and isinstance(n.value, ast.Name) and n.value.id == me]
    if stores:
        for s in stores:
            report.violation(R, 'stateful:%s' % s.attr, fi.path, s,
                             fi.qualname, 'react stores self.%s: the '
                             'reaction to a packet depends on earlier '
                             'packets' % s.attr)
    else:
        report.ok(R, 'react assigns no attribute of the reactor')
    reads = [n for n in ast.walk(fi.node) if isinstance(n, ast.Attribute)
             and isinstance(n.ctx, ast.Load)
             and isinstance(n.value, ast.Name) and n.value.id == me
             and n.attr != 'connection']
    if reads:
        for r in reads:
            report.violation(R, 'stateful-read:%s' % r.attr, fi.path, r,
                             fi.qualname, 'react consults self.%s'
                             % r.attr)
    else:
        report.ok(R, 'react reads only self.connection')


def transport_lookup(report, db, cg, M):
    R = report.rule('R10.9', 'the transport is looked up per packet: every '
                    'read uses connection.file_object as it is at that '
                    'moment, so the cipher wrapper installed by the login '
                    'reaction applies to the very next frame')
    rn = M.method(M.thread, '_run')
    g = cfg_of(rn)
    n = 0
    for node in g.reachable_nodes():
        for c in (node.calls() if node.ast is not None else []):
            if not any(m.name == 'read_packet'
                       for m, _, _ in cg.callee_funcs(rn, c)):
                continue
            n += 1
            a = c.args[0] if c.args else None
            fresh = isinstance(a, ast.Attribute) and \
                a.attr == 'file_object' and M.is_conn_expr(rn, a.value)
            if not fresh and isinstance(a, ast.Name):
                # a local is fine when it is (re)loaded from the connection
                # inside the same loop iteration, after the previous react
                loads = [x for x in g.reachable_nodes() if isinstance(
                    x.ast, ast.Assign) and any(
                        isinstance(t, ast.Name) and t.id == a.id
                        for t in x.ast.targets)]
                inner = node.loops[-1] if node.loops else None
                fresh = bool(loads) and all(
                    inner is not None and inner in x.loops and isinstance(
                        x.ast.value, ast.Attribute)
                    and x.ast.value.attr == 'file_object' for x in loads)
            if fresh:
                report.ok(R, 'read_packet(%s, ...) evaluated per read'
                          % ast.unparse(a))
            else:
                report.violation(R, 'transport:stale-stream', rn.path, c,
                                 rn.qualname, 'read_packet is given %s, '
                                 'which is not re-read from the connection '
                                 'for every packet: after the encryption '
                                 'response the next frames are still read '
                                 'from the unwrapped stream'
                                 % (ast.unparse(a) if a is not None
                                    else 'nothing'))
    report.floor('read_packet call sites in _run', n, 1)
