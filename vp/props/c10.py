"""C10 -- login completes under optional server steps.  Every path of
LoginReactor.react is summarised (vp.pathsum) and grouped by the packet name
its decisions select; each arm is checked for the dataflow and ordering
obligations the login protocol puts on it."""
import ast
import re

from ..common import AnalysisError, rel
from ..callgraph import CallGraph
from ..connmodel import ConnModel, CONN
from ..cfg import cfg_of
from ..protocol import Proto
from .. import shared, boolfn, pathsum
from ..pathsum import struct, show, is_const, subterms, path_terms

ENC = 'minecraft.networking.encryption'


def run(report, db, tier):
    report.explanation = (
        'Every path of LoginReactor.react is summarised (effects in order, '
        'decisions in normal form, values as terms over the packet\'s '
        'fields, helpers inlined) and grouped by the packet name it '
        'handles; each arm is checked for the dataflow and ordering '
        'obligations the login protocol puts on it.  Because the dispatch '
        'keeps no state these per-arm facts hold for every order of '
        'optional server steps.')
    cg = CallGraph(db)
    M = ConnModel(db, cg)
    P = Proto(db)
    S = shared.summariser(db, cg)
    lr = db.get_class(CONN, 'LoginReactor')
    fi = db.own_method(lr, 'react')
    if fi is None:
        raise AnalysisError('LoginReactor.react vanished')
    R7 = report.rule('R10.7', 'every compared packet_name exists in the '
                     'login table and the arm reads only fields of that '
                     'class')
    paths = shared.name_agreement_ps(report, R7, db, P, S, lr, 'login')
    pk = ('sym', fi.all_params[1])
    arms = {}
    for p in paths:
        arms.setdefault(shared.arm_of(p, pk), []).append(p)
    report.floor('login arms', len([a for a in arms if a is not None]), 5) \
        if not report.violations else None
    R8 = report.rule('R10.8', 'packets written by the login reactor and by '
                     'connect() have every field set')
    n = shared.field_completeness_ps(report, R8, db, P, S, fi, paths)
    n += shared.field_completeness_ps(report, R8, db, P, S,
                                      M.conn_method('connect'))
    n += shared.field_completeness_ps(report, R8, db, P, S,
                                      M.conn_method('_handshake'))
    report.floor('login/connect write sites checked', n, 4)
    encryption_arm(report, db, M, P, fi, arms)
    compression_arm(report, db, M, fi, arms)
    switches_quiet(report, db, S, M, cg, fi, paths)
    pair_registered(report, db, P)
    R2f = report.rule('R10.2f', 'a login starts unframed: _connect resets '
                      'the framing whatever the previous login on this '
                      'object negotiated')
    shared.fresh_connection_state(report, R2f, db, S, M, ('framing',))
    plugin_arm(report, db, M, P, fi, arms)
    success_arm(report, db, M, fi, arms)
    disconnect_arm(report, db, S, M, fi, arms)
    R1f = report.rule('R10.1f', 'the forced write of the encryption response '
                      'is synchronous: write_packet(force=True) returns '
                      'only after _write_packet ran under the lock')
    shared.forced_write_is_synchronous(report, R1f, db, S, M)
    # after the compression arm, every following frame goes through the
    # reader's compressed branch: it must accept what the format allows
    from .c01 import reader as frame_reader
    frame_reader(report, db, S, M, rule_id='R10.2r')
    # the helper the disconnect arm hands the server's version to
    from .c09 import mismatch
    mismatch(report, db, cg, M, P, rule_id='R10.5m')
    stateless(report, db, M, fi, paths)
    from ..common import borrow
    from . import c03
    borrow(report, 'R10.3v', "the request id echoed by the plugin arm survives the VarInt codec: what read returns, send accepts (C03's rules)",
           lambda rid, c: c.startswith(('read:', 'send:negative')),
           lambda sub: c03.run(sub, db, tier))
    from . import c09
    from ..protocol import Proto as _Proto
    borrow(report, 'R10.0', "the login reactor decodes with the ids of the "
           "version in force: connect() sets the context's version before "
           "it builds the reactor (whose id table is made at construction) "
           "and before the handshake (C09's rule)",
           lambda rid, c: c.startswith('inforce:'),
           lambda sub: c09.shortcut(sub, db, shared.summariser(db, cg), M,
                                    _Proto(db)))
    from . import c06
    borrow(report, 'R10.3c', "every login packet is the one its id says: no "
           "two classes of a login table share an id in any supported "
           "version, so the encryption response, the plugin response and "
           "login start reach the server as what they are (C06's rules)",
           lambda rid, c: rid in ('R06.1', 'R06.2') and '/login:' in c,
           lambda sub: c06.run(sub, db, 'quick'))
    transport_lookup(report, db, cg, M)


def sy(n):
    return ('sym', n)


def at(base, *names):
    for n in names:
        base = ('attr', base, n)
    return base


def find_calls(stmts, pred):
    out = []
    for s in stmts:
        for x in ast.walk(s):
            if isinstance(x, ast.Call) and pred(x):
                out.append(x)
    return out


def unit_calls(p, modname, name):
    return [e for e in p.flat(('call',)) if any(
        t.name == name and t.module.name == modname
        for t in (e.targets or ()))]


def bound_args(e, skip_self=False):
    """parameter name -> argument term for a call event with one target"""
    t = e.targets[0]
    params = list(t.params)
    args = list(e.args)
    if t.kind in ('instance', 'class') and len(args) < len(params):
        params = params[1:]
    out = dict(zip(params, args))
    out.update(dict(e.kwargs))
    return out


# ---------------------------------------------------------------------------
def encryption_arm(report, db, M, P, fi, arms):
    R = report.rule('R10.1', 'encryption arm: one fresh secret flows to '
                    'RSA encryption, hash and cipher; response fields in '
                    'the right slots; forced write precedes both wrapper '
                    'installations; join before the response')
    ps = arms.get('encryption request')
    if not ps:
        report.violation(R, 'enc:missing', fi.path, fi.node, fi.qualname,
                         'no arm for the encryption request')
        return
    me, pk = sy(fi.all_params[0]), sy(fi.all_params[1])
    conn = at(me, 'connection')
    prob = {}

    def bad(key, node, msg):
        prob.setdefault(key, (node, msg))
    oks = set()
    modes = set()
    S_roles = shared.summariser(db, M.cg)
    # the helper returns (encrypted token, encrypted secret) in that order
    helper = db.get_func(ENC, 'encrypt_token_and_secret')
    hp = helper.params
    for p in S_roles.run(helper):
        if not p.returns:
            continue
        v = p.value
        good = v[0] in ('tuple', 'list') and len(v[1]) == 2 and len(hp) == 3
        if good:
            for i, (own, other) in enumerate(((hp[1], hp[2]),
                                              (hp[2], hp[1]))):
                syms = set(t[1] for t in subterms(v[1][i])
                           if t[0] == 'sym')
                if own not in syms or other in syms:
                    good = False
        if not good:
            bad('enc:response-slots', helper.node, 'encrypt_token_and_'
                'secret returns %s; callers take element 0 as the encrypted '
                'verify token and element 1 as the encrypted secret'
                % show(v))
    for p in ps:
        if not p.returns:
            continue
        evs = p.flat(('call', 'store'))
        gen = unit_calls(p, ENC, 'generate_shared_secret')
        if len(gen) != 1:
            bad('enc:secret-count', fi.node, 'the arm generates %d secrets '
                'on the path [%s]: the one sent to the server and the one '
                'keying the cipher must be the same fresh value'
                % (len(gen), p.cond_text()))
            continue
        secret = gen[0].res
        # the secret never outlives the arm
        kept = [e for e in evs if e.kind == 'store' and e.base[0] != 'obj'
                and any(t == secret for t in subterms(e.value))]
        if kept:
            bad('enc:secret-not-fresh', kept[0].node, 'the shared secret is '
                'stored on %s.%s: it must be generated afresh for every '
                'encryption request and not kept'
                % (show(kept[0].base), kept[0].attr))
        enc = unit_calls(p, ENC, 'encrypt_token_and_secret')
        if len(enc) != 1:
            bad('enc:rsa-call', fi.node, 'expected one '
                'encrypt_token_and_secret call, found %d' % len(enc))
            continue
        ea = bound_args(enc[0])
        want = {'pubkey': at(pk, 'public_key'),
                'verification_token': at(pk, 'verify_token')}
        names = list(enc[0].targets[0].params)
        got = {k: struct(v) for k, v in ea.items()}
        if len(names) != 3 or got.get(names[0]) != want['pubkey'] or \
                got.get(names[1]) != want['verification_token'] or \
                ea.get(names[2]) != secret:
            bad('enc:rsa-args', enc[0].node, 'encrypt_token_and_secret is '
                'given (%s); expected the server\'s public key, its verify '
                'token and the fresh secret' % ', '.join(
                    '%s=%s' % (k, show(v)) for k, v in sorted(ea.items())))
        # secret sources anywhere else: only the generated one
        for e in unit_calls(p, ENC, 'create_AES_cipher') + unit_calls(
                p, ENC, 'generate_verification_hash'):
            pass
        # the response
        writes = shared.written_packets(p, P, db)
        resp = [w for w in writes
                if w[1][2].split('.')[-1] == 'EncryptionResponsePacket']
        if len(writes) != 1 or len(resp) != 1:
            bad('enc:response' if len(resp) != 1 else 'enc:write-count',
                fi.node, 'expected one EncryptionResponsePacket to be '
                'written, found %s' % [w[1][2] for w in writes])
            continue
        w, o, fields = resp[0]
        tok = ('op', 'index', (enc[0].res, ('const', 0)))
        sec = ('op', 'index', (enc[0].res, ('const', 1)))
        if fields.get('verify_token') != tok or \
                fields.get('shared_secret') != sec:
            bad('enc:response-slots', w.node, 'the response carries '
                'verify_token=%s, shared_secret=%s; encrypt_token_and_'
                'secret returns (token, secret) in that order' % (
                    show(fields.get('verify_token')) if 'verify_token'
                    in fields else None,
                    show(fields.get('shared_secret')) if 'shared_secret'
                    in fields else None))
        wa = bound_args(w)
        if wa.get('force') != ('const', True):
            bad('enc:not-forced', w.node, 'the encryption response is '
                'queued, not written immediately: the thread then enables '
                'the cipher and the response itself goes out encrypted')
        wi = evs.index(w)
        # the cipher and the wrappers
        ciph = unit_calls(p, ENC, 'create_AES_cipher')
        if len(ciph) != 1 or not ciph[0].args and not ciph[0].kwargs or \
                list(bound_args(ciph[0]).values())[:1] != [secret]:
            bad('enc:cipher-secret', (ciph[0].node if ciph else fi.node),
                'the cipher is keyed with %s, not with the secret that was '
                'sent to the server' % ([show(a) for a in ciph[0].args]
                                        if ciph else 'nothing'))
            continue
        c = ciph[0].res
        encs = [e for e in evs if e.kind == 'call' and e.fn == (
            'attr', c, 'encryptor')]
        decs = [e for e in evs if e.kind == 'call' and e.fn == (
            'attr', c, 'decryptor')]
        if len(encs) != 1 or len(decs) != 1:
            bad('enc:cipher-contexts', ciph[0].node, 'the cipher yields %d '
                'encryptor(s) and %d decryptor(s) per login; exactly one '
                'of each must live in the wrappers (CFB8 state is '
                'continuous)' % (len(encs), len(decs)))
            continue
        for attr, cname, args in (
                ('socket', 'EncryptedSocketWrapper',
                 {'actual_socket': at(conn, 'socket'),
                  'encryptor': encs[0].res, 'decryptor': decs[0].res}),
                ('file_object', 'EncryptedFileObjectWrapper',
                 {'actual_file_object': at(conn, 'file_object'),
                  'decryptor': decs[0].res})):
            sts = [e for e in evs if e.kind == 'store'
                   and struct(e.base) == conn and e.attr == attr]
            if len(sts) != 1:
                bad('enc:not-wrapped:%s' % attr, fi.node, 'connection.%s '
                    'is not replaced by the cipher wrapper' % attr)
                continue
            if evs.index(sts[0]) < wi:
                bad('enc:wrapper-before-write:%s' % attr, sts[0].node,
                    'connection.%s is wrapped before the response is '
                    'written: the response itself goes out encrypted'
                    % attr)
            v = sts[0].value
            if not (v[0] == 'obj' and v[2].split('.')[-1] == cname):
                bad('enc:wrapper-class:%s' % attr, sts[0].node,
                    'connection.%s becomes %s, not an %s' % (attr, show(v),
                                                             cname))
                continue
            inits = {}
            for e in evs[:evs.index(sts[0])]:
                if e.kind == 'store' and e.base == v:
                    inits[e.attr] = e.value
            # which attribute of the wrapper plays which role is read off
            # its own methods (the one whose update() feeds send is the
            # encryptor, ...)
            roles = wrapper_roles(db, S_roles, v[3])
            wantv = {}
            if attr == 'socket':
                wantv = {roles.get('raw'): at(conn, 'socket'),
                         roles.get('enc'): encs[0].res,
                         roles.get('dec'): decs[0].res}
            else:
                wantv = {roles.get('raw'): at(conn, 'file_object'),
                         roles.get('dec'): decs[0].res}
            okw = None not in wantv
            for a_, w_ in wantv.items():
                x = inits.get(a_)
                if x is None or not (x == w_ or (w_[0] != 'call' and
                                                 struct(x) == struct(w_))):
                    okw = False
            if not okw:
                bad('enc:wrapper-args:%s' % attr, sts[0].node, 'the %s is '
                    'built as %s; expected the current connection.%s as the '
                    'wrapped object and the login\'s single %s in the '
                    'slots its methods use for them (%s)' % (cname, {
                        k: show(x) for k, x in sorted(inits.items())}, attr,
                        'encryptor/decryptor pair' if attr == 'socket'
                        else 'decryptor (shared with the socket wrapper)',
                        roles))
        # the session-server join
        online = None
        for a, pol, _ in p.conds:
            if a[1] == '==' and set(struct(x) for x in a[2]) == {
                    at(pk, 'server_id'), ('const', '-')}:
                online = not pol
        joins = [e for e in evs if e.kind == 'call' and e.method() == 'join'
                 and any(t[0] == 'attr' and t[2] == 'auth_token'
                         for t in subterms(e.fn))]
        has_token = None
        tokp = at(conn, 'auth_token')
        for a, pol, _ in p.conds:
            if a[1] == 'is' and struct(a[2][0]) == tokp and \
                    a[2][1] == ('const', None):
                has_token = not pol
            if a[1] == 'truth' and struct(a[2][0]) == tokp:
                has_token = pol
        modes.add((online, has_token))
        if online is None:
            bad('enc:join-guard', fi.node, 'whether the session server is '
                'joined does not depend on the server id ("-" = offline '
                'mode)')
        elif not online:
            if joins:
                bad('enc:join-guard', joins[0].node, 'the session server '
                    'is joined although the server announced offline mode')
        elif has_token is not False:
            if len(joins) != 1:
                bad('enc:join-count', fi.node, 'the session server is '
                    'joined %d times for an online-mode server [%s]' % (
                        len(joins), p.cond_text()))
            else:
                j = joins[0]
                hs = unit_calls(p, ENC, 'generate_verification_hash')
                ha = bound_args(hs[0]) if len(hs) == 1 else {}
                hn = list(hs[0].targets[0].params) if len(hs) == 1 else []
                good_hash = len(hs) == 1 and len(hn) == 3 and \
                    struct(ha.get(hn[0])) == at(pk, 'server_id') and \
                    ha.get(hn[1]) == secret and \
                    struct(ha.get(hn[2])) == at(pk, 'public_key')
                jarg = [a for a in j.args if a[0] == 'call']
                if not good_hash or jarg != [hs[0].res]:
                    bad('enc:join-hash', j.node, 'the join is made with %s; '
                        'it must be generate_verification_hash(server id, '
                        'the fresh secret, the server\'s public key)' % [
                            show(a) for a in j.args])
                if evs.index(j) > wi:
                    bad('enc:join-after-response', j.node, 'the session '
                        'server is joined after the response was sent: the '
                        'server verifies the session as soon as it has the '
                        'response')
        elif joins:
            bad('enc:join-guard', joins[0].node, 'join without a token')
        if not prob:
            oks.add(True)
    for key, (node, msg) in sorted(prob.items()):
        report.violation(R, key, fi.path, node, fi.qualname, msg)
    if not prob and oks:
        report.ok(R, 'one fresh secret -> encrypt_token_and_secret(public '
                  'key, verify token, secret) -> response slots; forced '
                  'write before the wrappers')
        report.ok(R, 'cipher keyed by the same secret; one encryptor and '
                  'one decryptor; EncryptedSocketWrapper(socket, encryptor, '
                  'decryptor) and EncryptedFileObjectWrapper(file object, '
                  'the same decryptor)')
        report.ok(R, 'online mode: join(hash(server id, secret, public '
                  'key)) before the response; offline: no join (%d modes)'
                  % len(modes))
    elif not prob:
        raise AnalysisError('encryption arm: no returning path', fi.node,
                            rel(fi.path))


def wrapper_roles(db, S, ci):
    """{'raw': attr, 'enc': attr, 'dec': attr} of a cipher wrapper class,
    from what its send / recv / read methods do."""
    roles = {}
    for mname, role in (('send', 'enc'), ('recv', 'dec'), ('read', 'dec')):
        m = db.find_method(ci, mname)
        if m is None:
            continue
        me = sy(m.all_params[0])
        for p in S.run(m):
            for e in p.flat(('call',)):
                recv = e.fn[1] if e.fn[0] == 'attr' else e.fn[2] \
                    if e.fn[0] == 'fn' else None
                if recv is None or recv[0] != 'attr' or \
                        struct(recv[1]) != me:
                    continue
                if e.method() == 'update':
                    roles[role] = recv[2]
                elif e.method() == mname:
                    roles['raw'] = recv[2]
    return roles


# ---------------------------------------------------------------------------
def compression_arm(report, db, M, fi, arms):
    R = report.rule('R10.2', 'compression arm: sets the threshold from the '
                    'packet and enables compression')
    ps = arms.get('set compression')
    if not ps:
        report.violation(R, 'comp:missing', fi.path, fi.node, fi.qualname,
                         'no arm for set compression')
        return
    me, pk = sy(fi.all_params[0]), sy(fi.all_params[1])
    opts = at(me, 'connection', 'options')
    for p in ps:
        stores = {e.attr: e.value for e in p.flat(('store',))
                  if struct(e.base) == opts}
        if struct(stores.get('compression_threshold', ('none',))) == at(
                pk, 'threshold') and stores.get('compression_enabled') == \
                ('const', True) and p.returns:
            report.ok(R, 'options.compression_threshold = packet.threshold; '
                      'options.compression_enabled = True')
        else:
            report.violation(R, 'comp:stores', fi.path, fi.node, fi.qualname,
                             'the arm stores %s; it must set the threshold '
                             'from the packet and enable compression, '
                             'otherwise every following frame is mis-framed'
                             % {k: show(v) for k, v in sorted(
                                 stores.items())})


def pair_registered(report, db, P, rid='R10.3p'):
    """A plugin request can only be answered where it is decoded: the
    request is in the clientbound login table of exactly the supported
    versions whose serverbound login table has the response (siblings that
    must agree on the boundary)."""
    from ..fold import ClassVal
    from ..protocol import Raises
    R = report.rule(rid, 'plugin request and plugin response are registered '
                    'for the same versions (the request is decoded wherever '
                    'the client can answer it)')
    CB = 'minecraft.networking.packets.clientbound.login'
    SB = 'minecraft.networking.packets.serverbound.login'
    req = ClassVal(db.get_class(CB, 'PluginRequestPacket'))
    rsp = ClassVal(db.get_class(SB, 'PluginResponsePacket'))
    only_req, only_rsp = [], []
    n = 0
    for v in P.supported:
        tc = P.table('clientbound', 'login', v)
        ts = P.table('serverbound', 'login', v)
        if isinstance(tc, Raises) or isinstance(ts, Raises):
            continue
        n += 1
        a, b = req in tc, rsp in ts
        if a and not b:
            only_req.append(v)
        elif b and not a:
            only_rsp.append(v)
        else:
            report.ok(R)
    tf = P.table_func('clientbound', 'login')
    if only_rsp:
        report.violation(
            R, 'pair:request-missing', tf.path, tf.node, tf.qualname,
            'protocol(s) %s register the plugin response but not the plugin '
            'request: the server\'s request is read as an unknown packet and '
            'never answered, so the login never completes'
            % [P.vname(v) for v in only_rsp[:4]])
    if only_req:
        tf2 = P.table_func('serverbound', 'login')
        report.violation(
            R, 'pair:response-missing', tf2.path, tf2.node, tf2.qualname,
            'protocol(s) %s register the plugin request but not the '
            'response the reaction writes' % [P.vname(v)
                                             for v in only_req[:4]])
    report.floor('login tables compared', n, 200)


def switches_quiet(report, db, S, M, cg, fi, paths, rid='R10.2q'):
    """the threshold applies to *everything* that follows; the cipher to
    everything after the encryption response"""
    R = report.rule(rid, 'a change of framing (compression, cipher) applies '
                    'to everything that follows: the arm writes nothing '
                    'before the switch but the encryption response')
    me = sy(fi.all_params[0])
    opts = at(me, 'connection', 'options')
    conn = at(me, 'connection')
    shared.switch_is_quiet(
        report, R, db, S, M, cg, fi, paths, 'set compression',
        lambda e: struct(e.base) == opts and e.attr in (
            'compression_threshold', 'compression_enabled'),
        what='compression threshold')
    wp = M.conn_method('write_packet')
    shared.switch_is_quiet(
        report, R, db, S, M, cg, fi, paths, 'encryption request',
        lambda e: struct(e.base) == conn and e.attr in (
            'socket', 'file_object'),
        allowed=lambda e: e.calls(wp) and any(
            is_packet_of(db, a, 'EncryptionResponsePacket') for a in e.args),
        what='cipher')


def is_packet_of(db, t, clsname):
    return t[0] == 'obj' and t[2].split('.')[-1] == clsname


def plugin_arm(report, db, M, P, fi, arms):
    R = report.rule('R10.3', 'plugin arm: exactly one unsuccessful response '
                    'carrying the request id')
    ps = arms.get('login plugin request')
    if not ps:
        report.violation(R, 'plugin:missing', fi.path, fi.node, fi.qualname,
                         'no arm for login plugin requests: the server '
                         'waits for a response forever')
        return
    pk = sy(fi.all_params[1])
    for p in ps:
        if not p.returns:
            continue
        writes = [e for e in p.flat(('call',))
                  if e.method() == 'write_packet']
        if any(e.loops for e in writes) or len(writes) > 1:
            report.violation(R, 'plugin:count', fi.path, writes[0].node,
                             fi.qualname, 'a plugin request is answered '
                             'several times')
            continue
        if not writes:
            report.violation(R, 'plugin:skipped', fi.path, fi.node,
                             fi.qualname, 'a path through the arm sends no '
                             'response [%s]' % p.cond_text())
            continue
        wp = shared.written_packets(p, P, db)
        cname = wp[0][1][2].split('.')[-1] if wp else None
        fields = wp[0][2] if wp else {}
        vals = {k: v for k, v in fields.items() if k != 'context'}
        if cname == 'PluginResponsePacket' and \
                struct(vals.get('message_id', ('none',))) == at(
                    pk, 'message_id') and \
                vals.get('successful') == ('const', False) and \
                'data' not in vals:
            report.ok(R, 'PluginResponsePacket(message_id=packet.message_id, '
                      'successful=False), once')
        else:
            report.violation(R, 'plugin:response', fi.path, writes[0].node,
                             fi.qualname, 'the default answer is %s(%s); it '
                             'must echo the request id and be unsuccessful'
                             % (cname, {k: show(v) for k, v in
                                        sorted(vals.items())}))


def success_arm(report, db, M, fi, arms):
    R = report.rule('R10.4', 'success arm installs the play reactor')
    ps = arms.get('login success')
    if not ps:
        report.violation(R, 'success:missing', fi.path, fi.node,
                         fi.qualname, 'no arm for login success')
        return
    conn = at(sy(fi.all_params[0]), 'connection')
    for p in ps:
        st = [e for e in p.flat(('store',)) if struct(e.base) == conn
              and e.attr == 'reactor']
        ok = False
        if len(st) == 1 and p.returns:
            v = st[0].value
            ok = v[0] == 'obj' and v[2].split('.')[-1] == 'PlayingReactor' \
                and struct(p.heap.get((v, 'connection'), ('none',))) == conn
        if ok:
            report.ok(R, 'connection.reactor = PlayingReactor(connection)')
        else:
            report.violation(R, 'success:reactor', fi.path, fi.node,
                             fi.qualname, 'login success does not switch '
                             'the connection to the play reactor')


# ---------------------------------------------------------------------------
def text_source_ok(t, pk):
    """The text matched / reported is the raw reason or the "text" member
    of the parsed reason -- never the parsed JSON value itself."""
    if struct(t) == at(pk, 'json_data'):
        return True
    if t[0] == 'op' and t[1] == 'str':
        return True
    if t[0] == 'op' and t[1] == 'index' and t[2][1] == ('const', 'text'):
        b = t[2][0]
        return b[0] == 'call' and b[1] == ('ext', 'json.loads')
    if t[0] == 'call' and t[1][0] == 'attr' and t[1][2] == 'get' and \
            t[2][:1] == (('const', 'text'),):
        b = t[1][1]
        return b[0] == 'call' and b[1] == ('ext', 'json.loads')
    return False


def disconnect_arm(report, db, S, M, fi, arms):
    R = report.rule('R10.5', 'disconnect arm: every path raises -- a login '
                    'failure carrying the server text, or a version '
                    'mismatch for the two "Outdated" messages')
    ps = arms.get('disconnect')
    if not ps:
        report.violation(R, 'disc:missing', fi.path, fi.node, fi.qualname,
                         'no arm for a disconnect during login: the '
                         'rejection passes silently')
        return
    pk = sy(fi.all_params[1])
    vm = M.conn_method('_version_mismatch')
    if S.never_returns(vm):
        report.ok(R, '_version_mismatch raises on every path')
    else:
        report.violation(R, 'disc:mismatch-returns', vm.path, vm.node,
                         vm.qualname, '_version_mismatch can return '
                         'normally: the caller then falls through')
    silent = [p for p in ps if p.returns]
    if silent:
        report.violation(R, 'disc:silent', fi.path, fi.node, fi.qualname,
                         'a path through the disconnect arm returns '
                         'normally [%s]: the server\'s rejection is '
                         'swallowed' % silent[0].cond_text())
    else:
        report.ok(R, 'no normal exit from the arm')
    pats = {}
    carried = False
    bad_src = None
    vcalls = []
    for p in ps:
        matched = None
        for e in p.flat(('call',)):
            if e.fn[0] == 'ext' and e.fn[1] in ('re.match', 're.fullmatch',
                                                're.search'):
                pats[id(e.node)] = e
                matched = e
                if len(e.args) > 1 and not text_source_ok(e.args[1], pk):
                    bad_src = (e, e.args[1])
            if e.calls(vm):
                vcalls.append((p, e))
        if p.raises and len(p.outcome) == 3:
            v = p.outcome[1]
            if v[0] == 'obj' and v[2].split('.')[-1] == 'LoginDisconnect':
                msg = p.heap.get((v, 'args'))
                parts = [t for t in subterms(msg)] if msg else []
                texts = [t for t in parts if text_source_ok(t, pk)
                         and t[0] != 'op' or (
                             t[0] == 'op' and t[1] == 'index'
                             and text_source_ok(t, pk))]
                if texts:
                    carried = True
                for t in parts:
                    if t[0] == 'call' and t[1] == ('ext', 'json.loads') and \
                            not any(x[0] == 'op' and x[1] == 'index'
                                    and x[2][0] == t for x in parts):
                        bad_src = (None, t)
    if carried:
        report.ok(R, 'LoginDisconnect interpolates the server text')
    else:
        report.violation(R, 'disc:message', fi.path, fi.node, fi.qualname,
                         'no LoginDisconnect carrying the server\'s message '
                         'is raised')
    if bad_src:
        report.violation(R, 'disc:message-source', fi.path,
                         bad_src[0].node if bad_src[0] else fi.node,
                         fi.qualname, 'the text matched and reported is '
                         'taken from %s: a reason that is valid JSON but not '
                         'a chat object with a string "text" (an array of '
                         'components, null, a number) reaches re.match and '
                         'fails with TypeError instead of a LoginDisconnect'
                         % show(bad_src[1]))
    elif pats:
        report.ok(R, 'message text comes from the "text" member or the raw '
                  'data')
    consts = set()
    fns = set()
    for e in pats.values():
        fns.add(e.fn[1].split('.')[1])
        consts.add(e.args[0] if e.args else None)
    if len(consts) != 1 or not is_const(list(consts)[0]) or len(fns) != 1:
        report.violation(R, 'disc:pattern', fi.path, fi.node, fi.qualname,
                         'the "Outdated ..." messages are not recognised by '
                         'one constant pattern')
        return
    pat = list(consts)[0][1]
    fn = getattr(re, list(fns)[0])
    pnode = list(pats.values())[0].node
    good = {"Outdated client! Please use 1.16.5": '1.16.5',
            "Outdated server! I'm still on 1.8.9": '1.8.9',
            "Outdated client! Please use 21w07a": '21w07a'}
    bad = ["Outdated client!", "You are banned", "Outdated server! 1.8",
           "Outdated client! Please use 1.16.5 now",
           "x Outdated client! Please use 1.16.5"]
    probs = []
    try:
        for msg, ver in good.items():
            m = fn(pat, msg)
            if not m or m.groupdict().get('ver') != ver:
                probs.append('does not extract %r from %r' % (ver, msg))
        for msg in bad:
            if fn(pat, msg):
                probs.append('also matches %r' % msg)
    except re.error as e:
        probs.append('pattern does not compile: %s' % e)
    if probs:
        report.violation(R, 'disc:pattern-language', fi.path, pnode,
                         fi.qualname, 'the outdated-version pattern %s'
                         % '; '.join(probs[:3]))
    else:
        report.ok(R, 'pattern accepts exactly the two documented forms and '
                  'captures the version')
    good_args = bool(vcalls)
    for p, e in vcalls:
        kw = dict(e.kwargs)
        sv = kw.get('server_version')
        if sv is None:
            a = [x for x in e.args if x[0] == 'call']
            names = vm.params[1:]
            if 'server_version' in names and len(e.args) > names.index(
                    'server_version'):
                sv = e.args[names.index('server_version')]
        if not (sv is not None and sv[0] == 'call' and sv[1][0] == 'attr'
                and sv[1][2] == 'group' and sv[2] == (('const', 'ver'),)):
            good_args = False
        # only when the pattern matched
        m = sv[1][1] if sv is not None and sv[0] == 'call' and \
            sv[1][0] == 'attr' else None
        if m is None or not any(a[1] == 'truth' and pol and a[2][0] == m
                                or a[1] == 'is' and not pol and a[2][0] == m
                                for a, pol, _ in p.conds):
            good_args = False
    if good_args:
        report.ok(R, '_version_mismatch(server_version=ver) when the '
                  'pattern matched')
    else:
        report.violation(R, 'disc:mismatch-args', fi.path, fi.node,
                         fi.qualname, 'the outdated branch does not raise a '
                         'version mismatch naming the server\'s version')


def stateless(report, db, M, fi, paths):
    R = report.rule('R10.6', 'the dispatch is stateless: react keeps no '
                    'state of its own between packets, so per-arm facts '
                    'cover every order of steps')
    me = sy(fi.all_params[0])
    stores = {}
    reads = {}
    for p in paths:
        for e in p.flat(('store',)):
            if struct(e.base) == me:
                stores.setdefault(e.attr, e)
        for t in path_terms(p):
            if t[0] == 'attr' and t[1] == me and t[2] != 'connection':
                reads.setdefault(t[2], p)
    for attr, e in sorted(stores.items()):
        report.violation(R, 'stateful:%s' % attr, fi.path, e.node,
                         fi.qualname, 'react stores self.%s: the reaction '
                         'to a packet depends on earlier packets' % attr)
    if not stores:
        report.ok(R, 'react assigns no attribute of the reactor')
    for attr, p in sorted(reads.items()):
        report.violation(R, 'stateful-read:%s' % attr, fi.path, fi.node,
                         fi.qualname, 'react consults self.%s' % attr)
    if not reads:
        report.ok(R, 'react reads only self.connection')


def transport_lookup(report, db, cg, M, rule_id='R10.9'):
    R = report.rule(rule_id, 'the transport is looked up per packet: every '
                    'read uses connection.file_object as it is at that '
                    'moment, so the cipher wrapper installed by the login '
                    'reaction applies to the very next frame')
    run_ = M.method(M.thread, '_run')
    # _run and the helpers it was split into (not units of the confirmed
    # tree)
    unknown = pathsum.known_unit_pred()
    scope, todo = [], [run_]
    while todo:
        f = todo.pop()
        if f in scope:
            continue
        scope.append(f)
        for cs in cg.sites.get(f, []):
            for m, _, _ in cs.callees:
                if m.cls is M.thread and unknown(m) and m not in scope:
                    todo.append(m)
    n = 0
    for rn in scope:
      g = cfg_of(rn)
      for node in g.reachable_nodes():
          for c in (node.calls() if node.ast is not None else []):
              if not any(m.name == 'read_packet'
                         for m, _, _ in cg.callee_funcs(rn, c)):
                  continue
              n += 1
              a = c.args[0] if c.args else None
              fresh = isinstance(a, ast.Attribute) and \
                  a.attr == 'file_object' and M.is_conn_expr(rn, a.value)
              if not fresh and isinstance(a, ast.Name):
                  # a local is fine when it is (re)loaded from the connection
                  # inside the same loop iteration, after the previous react
                  loads = [x for x in g.reachable_nodes() if isinstance(
                      x.ast, ast.Assign) and any(
                          isinstance(t, ast.Name) and t.id == a.id
                          for t in x.ast.targets)]
                  inner = node.loops[-1] if node.loops else None
                  fresh = bool(loads) and all(
                      inner is not None and inner in x.loops and isinstance(
                          x.ast.value, ast.Attribute)
                      and x.ast.value.attr == 'file_object' for x in loads)
              if fresh:
                  report.ok(R, 'read_packet(%s, ...) evaluated per read'
                            % ast.unparse(a))
              else:
                  report.violation(R, 'transport:stale-stream', rn.path, c,
                                   rn.qualname, 'read_packet is given %s, '
                                   'which is not re-read from the connection '
                                   'for every packet: after the encryption '
                                   'response the next frames are still read '
                                   'from the unwrapped stream'
                                   % (ast.unparse(a) if a is not None
                                      else 'nothing'))
    report.floor('read_packet call sites in _run', n, 1)
