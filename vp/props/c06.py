"""C06 -- per-version packet id tables are total and injective.

Decided completely by folding get_packets(context) and get_id(context) over
every protocol version (exhaustive finite enumeration, no sampling)."""
import ast

from ..common import AnalysisError, rel
from ..fold import ClassVal, Opaque, FoldRaise, Env, FuncVal
from ..protocol import Proto, Raises, STATES, DIRS, PKT


def run(report, db, tier):
    P = Proto(db)
    report.explanation = (
        'get_packets(context) and get_id(context) of all 8 state/direction '
        'modules are folded (constant propagation through the five version '
        'predicates and the literal version table) for every protocol '
        'version; totality and injectivity are then checked per table.')
    report.trusted_base = ['CPython ast parser', 'vp.fold evaluator '
                           '(constant folding of the subset of Python the '
                           'tables are written in)']
    R1 = report.rule('R06.1', 'every registered class folds to a '
                     'non-negative int id in every version of the tier')
    R2 = report.rule('R06.2', 'ids are pairwise distinct within one '
                     '(version, state, direction) table')
    R3 = report.rule('R06.3', 'each reactor keys its decoder dict on '
                     'get_id(context) of exactly its state table')
    R4 = report.rule('R06.4', 'the id Packet.write sends (self.id) equals '
                     'the id the tables register (get_id(context))')
    R5 = report.rule('R06.5', 'every constant passed to a version predicate '
                     'is a known protocol version (else KeyError)')

    supported = set(P.supported)
    versions = P.supported if tier == 'quick' else P.known
    report.note('versions', '%d (%s)' % (len(versions), tier))
    n_tables = 0
    n_members = 0
    ladders = set()
    for v in versions:
        sup = v in supported
        for d in DIRS:
            for s in STATES:
                t = P.table(d, s, v)
                tf = P.table_func(d, s)
                n_tables += 1
                tname = '%s/%s' % (d, s)
                if isinstance(t, Raises):
                    if sup:
                        report.violation(
                            R1, 'table:%s@%s' % (tname, P.vname(v)), tf.path,
                            tf.node, tf.qualname,
                            'get_packets raises %s under supported version %s'
                            % (t.exc, P.vname(v)))
                    else:
                        report.info(R1, 'unsupported %s: %s get_packets '
                                    'raises %s' % (P.vname(v), tname, t.exc))
                    continue
                byid = {}
                for cv in t:
                    n_members += 1
                    ladders.add(cv)
                    i = P.table_id(cv, v)
                    ok = isinstance(i, int) and not isinstance(i, bool) \
                        and i >= 0
                    if not ok:
                        what = ('raises %s' % i.exc) if isinstance(i, Raises) \
                            else ('is %r' % (i,))
                        if sup:
                            fi = db.find_method(cv.ci, 'get_id')
                            report.violation(
                                R1, 'id:%s:%s@%s' % (tname, cv.ci.qualname,
                                                     P.vname(v)),
                                cv.ci.path, (fi.node if fi else cv.ci.node),
                                cv.ci.qualname + '.get_id',
                                'registered for %s in supported version %s '
                                'but its id %s' % (tname, P.vname(v), what))
                        else:
                            report.info(R1, 'unsupported %s: %s %s id %s' % (
                                P.vname(v), tname, cv.ci.qualname, what))
                        continue
                    report.ok(R1)
                    byid.setdefault(i, []).append(cv)
                    # R06.4
                    w = P.wire_id(cv, v)
                    if w == i:
                        report.ok(R4)
                    elif sup:
                        report.violation(
                            R4, 'wireid:%s@%s' % (cv.ci.qualname, P.vname(v)),
                            cv.ci.path, cv.ci.node, cv.ci.qualname,
                            'Packet.write would send id %r but the table '
                            'registers %r in version %s' % (w, i, P.vname(v)))
                for i, cvs in sorted(byid.items()):
                    if len(cvs) == 1:
                        continue
                    names = '+'.join(c.ci.qualname for c in cvs)
                    if sup:
                        c0 = cvs[0]
                        fi = db.find_method(c0.ci, 'get_id')
                        report.violation(
                            R2, 'collision:%s:%s:0x%02X:%s' % (
                                tname, P.vname(v), i, names),
                            c0.ci.path, fi.node if fi else c0.ci.node,
                            c0.ci.qualname + '.get_id',
                            '%s share id 0x%02X in %s under supported '
                            'version %s: one of them is dropped from the '
                            'decoder dict' % (names, i, tname, P.vname(v)),
                            extra=dict(version=v, table=tname, id=i,
                                       classes=[c.ci.qualname for c in cvs]))
                    else:
                        report.info(R2, 'unsupported %s: %s share id 0x%02X '
                                    'in %s' % (P.vname(v), names, i, tname))
                if all(len(c) == 1 for c in byid.values()):
                    report.ok(R2, '%s@%s: %d ids distinct' % (
                        tname, P.vname(v), len(byid)))
    report.note('tables', n_tables)
    report.note('members', n_members)
    for cv in sorted(ladders, key=lambda c: c.ci.fq):
        report.note('classes', cv.ci.fq)
    report.floor('table obligations', n_tables, len(versions) * 8)
    report.floor('registered classes', len(ladders), 45)

    check_reactors(report, db, P, R3)
    check_predicate_constants(report, db, P, R5)
    check_pure(report, db, P, ladders)
    if tier == 'thorough':
        cell_crosscheck(report, db, P)
        shift_consistency(report, db, P)


def registry_functions(db, P, ladders=None):
    """get_packets of the eight tables with what they call inside the
    packets package, and get_id of every class a table registers"""
    from ..callgraph import CallGraph
    cg = CallGraph(db)
    roots = []
    for d in DIRS:
        for s in STATES:
            roots.append(P.table_func(d, s))
    funcs = [f for f in cg.reachable(roots)
             if f.module.name.startswith('minecraft.networking.packets')]
    seen = set(funcs)
    for cv in sorted(ladders or (), key=lambda c: c.ci.fq):
        fi = db.find_method(cv.ci, 'get_id')
        if fi is not None and fi not in seen:
            seen.add(fi)
            funcs.append(fi)
            for g in cg.reachable([fi]):
                if g not in seen and g.module.name.startswith(
                        'minecraft.networking.packets'):
                    seen.add(g)
                    funcs.append(g)
    return sorted(funcs, key=lambda f: (f.path, f.lineno))


def check_pure(report, db, P, ladders, rid='R06.7'):
    from .. import shared
    R = report.rule(rid, 'a table is a function of the version: get_packets '
                    'and get_id change no object that outlives the call')
    funcs = registry_functions(db, P, ladders)
    n = shared.pure_of_shared_state(
        report, R, db, funcs, 'registry functions (get_packets, get_id and '
        'their helpers)', 'the table of one version now depends on which '
        'versions were asked for before -- a class registered for a later '
        'version stays registered for an earlier one, where its id belongs '
        'to another class (or to none)')
    report.floor('registry functions checked for purity', n, 40)


def check_reactors(report, db, P, R3):
    """PacketReactor.__init__ builds {packet.get_id(context): packet for
    packet in self.__class__.get_clientbound_packets(context)} with
    context = self.connection.context, and each reactor binds
    get_clientbound_packets to its own state's table."""
    conn = 'minecraft.networking.connection'
    base = db.get_class(conn, 'PacketReactor')
    init = db.own_method(base, '__init__')
    if init is None:
        raise AnalysisError('PacketReactor.__init__ vanished')
    # the id table, read off the path summaries of __init__: whether it is
    # written as a dict comprehension, a dict(...) of pairs or a loop that
    # fills a dict does not matter
    from ..callgraph import CallGraph
    from .. import shared as _shared
    from ..pathsum import struct, show
    S = _shared.summariser(db, CallGraph(db))
    me = ('sym', init.all_params[0])
    nstores = 0
    for p in S.run(init):
        if not p.returns:
            continue
        st = [e for e in p.flat(('store',)) if struct(e.base) == me
              and e.attr == 'clientbound_packets']
        if len(st) != 1:
            raise AnalysisError('store to clientbound_packets not found in '
                                'PacketReactor.__init__', init.node,
                                rel(init.path))
        nstores += 1
        v = st[0].value
        it = key = val = None
        mf = _shared.mapping_form(v, p)
        if mf is not None:
            it, _, key, val = mf
        good = False
        why = 'the id table is %s: not a mapping built from ' \
            'get_clientbound_packets(context)' % show(v)[:120]
        if it is not None and key is not None:
            el = val
            key_ok = key[0] == 'call' and key[1][0] == 'attr' and \
                key[1][2] == 'get_id' and key[1][1] == el and \
                len(key[2]) == 1 and el[0] == 'elem'
            it_ok = it[0] == 'call' and it[1][0] in ('attr', 'fn') and (
                it[1][2] == 'get_clientbound_packets'
                if it[1][0] == 'attr' else
                it[1][1].name == 'get_clientbound_packets') and \
                len(it[2]) == 1 and el[0] == 'elem' and \
                struct(_shared._strip_seq(el[1])) == struct(it)
            ctx_ok = key_ok and it_ok and struct(key[2][0]) == \
                struct(it[2][0]) and struct(it[2][0]) in (
                    ('attr', ('attr', me, 'connection'), 'context'),
                    ('attr', ('sym', init.all_params[1]), 'context'))
            if key_ok and it_ok and ctx_ok:
                good = True
            else:
                why = ('key is get_id(ctx) of the element: %s, iterates '
                       'get_clientbound_packets(ctx) and maps to the '
                       'element: %s, same context of this connection: %s'
                       % (key_ok, it_ok, ctx_ok))
        if good:
            report.ok(R3, 'PacketReactor.__init__: {p.get_id(ctx): p for p '
                      'in get_clientbound_packets(ctx)}, ctx = '
                      'connection.context')
        else:
            report.violation(R3, 'reactor-dict', init.path, st[0].node,
                             'PacketReactor.__init__', why)
    if not nstores:
        raise AnalysisError('store to clientbound_packets not found in '
                            'PacketReactor.__init__', init.node,
                            rel(init.path))
    want = {'LoginReactor': 'login', 'PlayingReactor': 'play',
            'StatusReactor': 'status', 'PacketReactor': 'handshake',
            'PlayingStatusReactor': 'status'}
    seen = 0
    for name, state in sorted(want.items()):
        ci = db.get_class(conn, name)
        ad = db.find_attr(ci, 'get_clientbound_packets')
        if ad is None:
            raise AnalysisError('%s has no get_clientbound_packets' % name)
        v = ad.value
        tgt = None
        if isinstance(v, ast.Call) and isinstance(v.func, ast.Name) and \
                v.func.id == 'staticmethod' and len(v.args) == 1:
            tgt = db.resolve_dotted(ci.module, v.args[0])
        exp = P.table_func('clientbound', state)
        seen += 1
        if tgt is exp:
            report.ok(R3, '%s decodes with clientbound/%s' % (name, state))
        else:
            report.violation(
                R3, 'reactor-table:%s' % name, ci.path, ad.node, name,
                '%s must decode with clientbound.%s.get_packets but binds %r'
                % (name, state, tgt))
    report.floor('reactor classes', seen, 5)


def check_predicate_constants(report, db, P, R5):
    sites = P.predicate_sites()
    consts = set()
    for m, n, cs in sites:
        for c in cs:
            if isinstance(c, Opaque):
                # run-time argument (e.g. inside ConnectionContext itself)
                continue
            if c is None and (m.name == 'minecraft.utility' or any(
                    isinstance(k, ast.ClassDef) and
                    k.name == 'ConnectionContext' and any(
                        x is n for x in ast.walk(k))
                    for k in m.tree.body)):
                # an open bound inside the implementation of the predicates
                # themselves: what they answer is C08's R08.1 (folded over
                # all pairs), not a version constant of a table
                continue
            consts.add(c)
            if c in P.index:
                report.ok(R5)
            else:
                report.violation(
                    R5, 'predconst:%s:%r' % (rel(m.path), c), m.path, n, None,
                    'version predicate compares with %r, which is not a '
                    'known protocol version: PROTOCOL_VERSION_INDICES[%r] '
                    'raises KeyError' % (c, c))
    report.note('predicate call sites', len(sites))
    report.note('predicate constants', len(consts))
    report.floor('version predicate call sites', len(sites), 250)
    report.floor('distinct predicate constants', len(consts), 40)


def cell_crosscheck(report, db, P):
    """Check on the checker: the predicate constants cut the version order
    into cells; ids and tables must be constant inside a cell (they can only
    depend on the version through those predicates)."""
    R = report.rule('R06.x', 'cell-wise and point-wise folding agree '
                    '(check on the checker)')
    consts = set()
    for m, n, cs in P.predicate_sites():
        for c in cs:
            if not isinstance(c, Opaque) and c in P.index:
                consts.add(c)
    cuts = sorted(P.index[c] for c in consts)
    order = sorted(P.known, key=lambda v: P.index[v])

    def cell(v):
        i = P.index[v]
        return tuple(i >= c for c in cuts), tuple(i > c for c in cuts)
    cells = {}
    for v in order:
        cells.setdefault(cell(v), []).append(v)
    report.note('cells', len(cells))
    for key, vs in cells.items():
        ref = None
        for v in vs:
            sig = []
            for d in DIRS:
                for s in STATES:
                    t = P.table(d, s, v)
                    if isinstance(t, Raises):
                        sig.append(('raises',))
                        continue
                    sig.append(tuple((c.ci.fq, repr(P.table_id(c, v)))
                                     for c in t))
            sig = tuple(sig)
            if ref is None:
                ref = sig
            elif sig != ref:
                raise AnalysisError(
                    'fold engine inconsistency: versions %s and %s are in '
                    'one predicate cell but fold differently'
                    % (P.vname(vs[0]), P.vname(v)))
        report.ok(R, 'cell of %d versions starting %s' % (len(vs),
                                                          P.vname(vs[0])))


def shift_consistency(report, db, P):
    """INFO cross-check between sibling ladders: at a version boundary where
    ids move, an insertion/removal moves every higher id the same way."""
    order = sorted(P.known, key=lambda v: P.index[v])
    outliers = 0
    for d in DIRS:
        prev = None
        for v in order:
            t = P.table(d, 'play', v)
            if isinstance(t, Raises):
                prev = None
                continue
            cur = {c: P.table_id(c, v) for c in t
                   if isinstance(P.table_id(c, v), int)}
            if prev is not None:
                moved = {c: cur[c] - prev[c] for c in cur
                         if c in prev and cur[c] != prev[c]}
                if len(moved) >= 5:
                    lowest = min(prev[c] for c in moved)
                    stay = [c for c in cur if c in prev and
                            cur[c] == prev[c] and prev[c] > lowest + 8]
                    for c in stay[:4]:
                        outliers += 1
                        report.info('R06.shift', '%s play at %s: %d siblings '
                                    'move but %s (0x%02X) stays' % (
                                        d, P.vname(v), len(moved),
                                        c.ci.qualname, cur[c]))
            prev = cur
    report.note('shift outliers', outliers)
