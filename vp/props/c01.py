"""C01 -- the framed packet stream survives any threshold, cipher and read
segmentation.  Structural clauses of the framing code on all paths, decided
on path summaries: the writer's effects are interpreted over a byte-string
algebra, the reader's effects are compared with the mirror sequence, every
request to the stream is shown (by a linear loop invariant) to ask for the
remaining bytes of the frame, the framing mode is looked up per packet, and
the cipher wrappers are pass-through."""
import ast

from ..common import AnalysisError, rel
from ..callgraph import CallGraph
from ..connmodel import ConnModel, CONN
from .. import shared, boolfn, pathsum, reassembly
from ..pathsum import struct, show, is_const, subterms

PACKET = 'minecraft.networking.packets.packet'
BUFFER = 'minecraft.networking.packets.packet_buffer'
BASIC = 'minecraft.networking.types.basic'


def sy(n):
    return ('sym', n)


def at(base, *names):
    for n in names:
        base = ('attr', base, n)
    return base


# -- a tiny byte-string algebra, interpreted over the writer's effects -------
class B(object):
    """symbolic byte string: tuple of pieces"""
    def __init__(self, pieces=()):
        self.pieces = tuple(pieces)

    def __eq__(self, o):
        return isinstance(o, B) and o.pieces == self.pieces

    def __hash__(self):
        return hash(self.pieces)

    def __repr__(self):
        return ' ++ '.join(map(str, self.pieces)) or "b''"


def piece_varint(x):
    return 'VARINT(%s)' % (x,)


class FrameAlgebra(object):
    """Interprets the ordered effects of one path of _write_buffer: calls on
    the packet buffer (get_writable / reset / send), VarInt.send into the
    buffer or onto the socket, compress, socket.send."""

    def __init__(self, fi, path):
        self.fi = fi
        self.sock = sy(fi.all_params[1])
        self.buf = sy(fi.all_params[2])
        self.thr = sy(fi.all_params[3])
        self.path = path
        self.cur = B(('PAYLOAD',))      # id + fields, as Packet.write left it
        self.wire = []
        self.vals = {}                  # uid of a call result -> value
        self.locals = {}                # local buffer -> its content

    def err(self, msg, node):
        return AnalysisError('frame algebra: ' + msg, node, rel(self.fi.path))

    def recv(self, e):
        if e.fn[0] == 'attr':
            return e.fn[1]
        if e.fn[0] == 'fn' and len(e.fn) > 2:
            return e.fn[2]
        return None

    def local_buffer(self, t):
        """Key of a PacketBuffer constructed on this path, else None."""
        if t is not None and t[0] == 'obj' and len(t) > 3 and \
                getattr(t[3], 'name', None) == 'PacketBuffer':
            return t[1]
        return None

    def val(self, t, node):
        if is_const(t):
            if t[1] in (b'', ''):
                return B(())
            return t[1]
        if t[0] == 'call' and t[4] in self.vals:
            return self.vals[t[4]]
        if t[0] == 'unbound':
            return '<unbound local %s>' % t[1]
        if t[0] == 'op' and t[1] == 'len' and len(t[2]) == 1:
            return 'len(%r)' % (self.val(t[2][0], node),)
        if t[0] == 'op' and t[1] == 'bytes' and not t[2]:
            return B(())
        if t[0] == 'op' and t[1] in ('concat', '+') and len(t[2]) >= 2:
            parts = [self.val(x, node) for x in t[2]]
            if all(isinstance(x, B) for x in parts):
                return B(sum((x.pieces for x in parts), ()))
        raise self.err('unsupported value %s' % show(t), node)

    def run(self):
        for e in self.path.flat(('call', 'loop')):
            if e.kind == 'loop':
                raise self.err('loop in the frame writer', e.node)
            r = self.recv(e)
            m = e.method()
            if e.fn == ('ext', 'io.BytesIO') and not e.args:
                continue                # the store of a fresh local buffer
            k = self.local_buffer(r)
            if k is not None:
                # a buffer of its own made on the way (a helper that encodes
                # one number): the same three operations, on its own content
                own = e.fn[1].cls if e.fn[0] == 'fn' else None
                if own is None or own.name != 'PacketBuffer':
                    raise self.err('operation on a local buffer that is not '
                                   'PacketBuffer\'s own', e.node)
                if m == 'get_writable':
                    self.vals[e.res[4]] = self.locals.get(k, B(()))
                elif m == 'reset':
                    self.locals[k] = B(())
                elif m == 'send' and len(e.args) >= 1:
                    v = self.val(e.args[-1], e.node)
                    if not isinstance(v, B):
                        raise self.err('buffer.send of a non-bytes value',
                                       e.node)
                    self.locals[k] = B(self.locals.get(k, B(())).pieces
                                       + v.pieces)
                else:
                    raise self.err('unsupported buffer operation %s' % m,
                                   e.node)
                continue
            if r is not None and struct(r) == self.buf:
                if m == 'get_writable':
                    self.vals[e.res[4]] = self.cur
                elif m == 'reset':
                    self.cur = B(())
                elif m == 'send' and len(e.args) >= 1:
                    v = self.val(e.args[-1], e.node)
                    if not isinstance(v, B):
                        raise self.err('buffer.send of a non-bytes value',
                                       e.node)
                    self.cur = B(self.cur.pieces + v.pieces)
                elif m in ('reset_cursor',):
                    pass
                else:
                    raise self.err('unsupported buffer operation %s' % m,
                                   e.node)
                continue
            if r is not None and struct(r) == self.sock:
                if m in ('send', 'sendall') and e.args:
                    v = self.val(e.args[-1], e.node)
                    if not isinstance(v, B):
                        raise self.err('socket.send of a non-bytes value',
                                       e.node)
                    self.wire.append(v)
                    continue
                raise self.err('unsupported socket operation %s' % m, e.node)
            if m == 'send' and any(t.cls is not None
                                   and t.cls.name == 'VarInt'
                                   for t in (e.targets or ())) or (
                    e.fn[0] == 'attr' and e.fn[2] == 'send'
                    and e.fn[1][0] == 'cls' and e.fn[1][1].name == 'VarInt'):
                args = [a for a in e.args if not (a[0] == 'cls')]
                if len(args) != 2:
                    raise self.err('VarInt.send call shape', e.node)
                n = self.val(args[0], e.node)
                tgt = struct(args[1])
                lk = self.local_buffer(args[1])
                if lk is not None:
                    self.locals[lk] = B(self.locals.get(lk, B(())).pieces
                                        + (piece_varint(n),))
                elif tgt == self.buf:
                    self.cur = B(self.cur.pieces + (piece_varint(n),))
                elif tgt == self.sock:
                    self.wire.append(piece_varint(n))
                else:
                    raise self.err('VarInt.send to %s' % show(args[1]),
                                   e.node)
                continue
            if e.fn[0] == 'ext' and e.fn[1] in ('zlib.compress',) and e.args:
                v = self.val(e.args[0], e.node)
                self.vals[e.res[4]] = B(('ZLIB(%r)' % (v,),))
                continue
            raise self.err('unsupported effect %r' % e, e.node)
        return self


def run(report, db, tier):
    report.explanation = (
        'The ordered effects of every path of Packet._write_buffer are '
        'interpreted over a symbolic byte-string algebra and the emitted '
        'frame compared with the frame grammar; the paths of read_packet '
        'are checked to mirror it (inflate iff the announced size is > 0, '
        'size check, rewind), every request to the stream is shown to ask '
        'for exactly the remaining bytes of the frame (linear loop '
        'invariant over the bytes appended), and the framing mode is looked '
        'up per packet.')
    report.trusted_base = ['zlib compress/decompress are inverse',
                           'VarInt codec (C03)']
    cg = CallGraph(db)
    M = ConnModel(db, cg)
    S = shared.summariser(db, cg)
    # "exactly the same sequence": nothing reaches the wire that was not
    # written -- in particular not the first half of a packet whose
    # serialisation failed (decided first: it does not depend on how the
    # frame is spelt)
    from ..common import borrow as _borrow
    from . import c12 as _c12
    _borrow(report, 'R01.0', "a packet reaches the wire whole or not at all "
            "(C12's rule on the path summaries of Packet.write)",
            lambda rid, c: c == 'frame:partial',
            lambda sub: _c12.whole_frames(sub, db, cg, S))
    writer(report, db, S, M)
    R6 = report.rule('R01.6', 'a new connection starts unframed: _connect '
                     'switches compression off whatever the previous '
                     'connection negotiated')
    shared.fresh_connection_state(report, R6, db, S, M, ('framing',))
    reader(report, db, S, M)
    isolation(report, db, cg, S, M)
    mode(report, db, cg, M)
    R5 = report.rule('R01.5', 'cipher transparency: wrapper methods are '
                     'single pass-through updates')
    shared.wrapper_passthrough_ps(report, R5, db)
    # "... and encryption": the frames that follow the encryption response
    # are read through the cipher wrapper only if the reading loop takes the
    # stream from the connection for every frame
    from .c10 import transport_lookup
    transport_lookup(report, db, cg, M, rule_id='R01.9')
    # the packet that announces the threshold must be decoded: its id is its
    # own in the table of every version (C06's collision rule, for the
    # set-compression classes only)
    from ..common import borrow
    from . import c06
    borrow(report, 'R01.8', "the set-compression packet is decoded: no other "
           "class shares its id in any supported version (C06's rules)",
           lambda rid, c: rid in ('R06.1', 'R06.2')
           and 'SetCompression' in c,
           lambda sub: c06.run(sub, db, 'quick'))
    R7 = report.rule('R01.7', 'whatever threshold is in force: every '
                     'set-compression arm (login, and play for protocol <= '
                     '47) stores the threshold and switches compression on')
    report.floor('set-compression arms', shared.compression_arms(
        report, R7, db, S, M), 2)


def writer(report, db, S, M):
    R = report.rule('R01.1', 'writer: frame = VARINT(len(body)) ++ body on '
                    'every path; body = payload | VARINT(0) ++ payload | '
                    'VARINT(len(payload)) ++ ZLIB(payload)')
    pk = db.get_class(PACKET, 'Packet')
    wb = db.own_method(pk, '_write_buffer')
    if wb is None or len(wb.params) != 4:
        raise AnalysisError('Packet._write_buffer(self, socket, buffer, '
                            'threshold) vanished')
    paths = [p for p in S.run(wb) if p.returns]
    report.floor('paths of _write_buffer', len(paths), 3)
    payload = "PAYLOAD"
    thr = sy(wb.all_params[3])
    kinds = set()
    for p in paths:
        fa = FrameAlgebra(wb, p).run()
        cond = p.cond_text()
        if len(fa.wire) != 2 or not isinstance(fa.wire[1], B):
            report.violation(R, 'frame:shape:%s' % cond[:40], wb.path,
                             wb.node, wb.qualname, 'when %s the frame is '
                             '%r: not a length prefix followed by one body'
                             % (cond, fa.wire))
            continue
        body = fa.wire[1]
        want_prefix = piece_varint('len(%r)' % (body,))
        if fa.wire[0] != want_prefix:
            report.violation(R, 'frame:length:%s' % cond[:40], wb.path,
                             wb.node, wb.qualname, 'when %s the length '
                             'prefix is %s but the body sent is %r'
                             % (cond, fa.wire[0], body))
            continue
        bp = body.pieces
        plain = False
        if bp == (payload,):
            kinds.add('plain')
            plain = True
            report.ok(R, '%s: %r' % (cond, fa.wire))
        elif bp == (piece_varint(0), payload):
            kinds.add('stored')
            report.ok(R, '%s: %r' % (cond, fa.wire))
        elif bp == (piece_varint('len(%r)' % (B((payload,)),)),
                    'ZLIB(%r)' % (B((payload,)),)):
            kinds.add('deflated')
            report.ok(R, '%s: %r' % (cond, fa.wire))
        else:
            report.violation(R, 'frame:body:%s' % cond[:40], wb.path,
                             wb.node, wb.qualname, 'when %s the body is %r; '
                             'the frame grammar allows payload, VARINT(0) ++ '
                             'payload, or VARINT(len(payload)) ++ '
                             'ZLIB(payload)' % (cond, body))
            continue
        # the plain form iff threshold is None (compression not negotiated)
        thr_none = None
        for a, pol, _ in p.conds:
            if a[1] == 'is' and struct(a[2][0]) == thr and \
                    a[2][1] == ('const', None):
                thr_none = pol
        if thr_none is not None and plain != thr_none:
            report.violation(R, 'frame:mode', wb.path, wb.node,
                             wb.qualname, 'with compression %s the '
                             'frame %s a data-length header'
                             % ('off' if thr_none else 'on',
                                'has' if not plain else 'lacks'))
    if kinds == {'plain', 'stored', 'deflated'}:
        report.ok(R, 'all three frame forms are produced')
    elif not report.violations:
        report.violation(R, 'frame:forms', wb.path, wb.node, wb.qualname,
                         'only the forms %s are produced' % sorted(kinds))
    # _write_packet passes the threshold iff compression is enabled
    wp = M.conn_method('_write_packet')
    me = sy(wp.all_params[0])
    write = db.find_method(pk, 'write')
    enabled_at = at(me, 'options', 'compression_enabled')
    nw = 0
    for p in S.run(wp):
        for e in p.flat(('call',)):
            if not e.calls(write):
                continue
            nw += 1
            names = write.params[1:]
            args = [a for a in e.args]
            if len(args) == len(write.params):
                args = args[1:]
            bound = dict(zip(names, args))
            bound.update(dict(e.kwargs))
            has_thr = 'compression_threshold' in bound and \
                bound['compression_threshold'] != ('const', None)
            enabled = [pol for a, pol, _ in p.conds_at(e)
                       if a[1] == 'truth' and struct(a[2][0]) == enabled_at]
            if enabled != [has_thr]:
                report.violation(R, 'frame:enable-mismatch', wp.path, e.node,
                                 wp.qualname, 'packet.write gets a '
                                 'threshold: %s under compression_enabled = '
                                 '%s' % (has_thr, enabled))
                continue
            if has_thr and struct(bound['compression_threshold']) != at(
                    me, 'options', 'compression_threshold'):
                report.violation(R, 'frame:threshold-source', wp.path,
                                 e.node, wp.qualname, 'the threshold passed '
                                 'is %s, not options.compression_threshold'
                                 % show(bound['compression_threshold']))
                continue
            report.ok(R, '_write_packet: threshold passed iff '
                      'compression_enabled (%s)' % has_thr)
    if not nw:
        raise AnalysisError('_write_packet never calls Packet.write',
                            wp.node, rel(wp.path))


def reader(report, db, S, M, rule_id='R01.2'):
    R = report.rule(rule_id, 'reader mirror: under compression read the '
                    'data length, inflate iff it is > 0, check the size, '
                    'replace the buffer and rewind; then read the id')
    rp = M.method(M.reactor, 'read_packet')
    me, stream = sy(rp.all_params[0]), sy(rp.all_params[1])
    pb = db.get_class(BUFFER, 'PacketBuffer')
    enabled_at = at(me, 'connection', 'options', 'compression_enabled')
    prob = {}
    modes = set()
    for p in S.run(rp):
        if not p.returns or p.value == ('const', None):
            continue
        evs = p.flat(('call',))
        top = [e for e in evs if not e.loops]

        def recv(e):
            return e.fn[1] if e.fn[0] == 'attr' else (
                e.fn[2] if e.fn[0] == 'fn' and len(e.fn) > 2 else None)
        bufs = set(recv(e) for e in top if recv(e) is not None
                   and recv(e)[0] == 'obj' and recv(e)[3] is pb)
        if not bufs:
            # no buffer is made on this path: are the stream's bytes collected
            # in something that outlives the call (an attribute of the
            # reactor, its class, the connection)?
            shared = [e for e in evs if e.method() in ('send', 'write',
                                                       'extend', 'append')
                      and recv(e) is not None and recv(e)[0] == 'attr'
                      and any(x[0] == 'call' and (
                          (x[1][0] == 'attr' and struct(x[1][1]) == stream)
                          or (x[1][0] == 'fn' and len(x[1]) > 2
                              and x[1][2] is not None
                              and struct(x[1][2]) == stream))
                              for a in e.args for x in subterms(a))]
            if shared:
                report.violation(
                    R, 'reader:shared-buffer', rp.path, shared[0].node,
                    rp.qualname, 'the bytes of a frame are collected in %s, '
                    'which outlives the call: another reactor / another '
                    'thread reading at the same time (a second connection '
                    'in the process, a successor thread) resets and fills '
                    'the same buffer, and this read then decodes the other '
                    'one\'s bytes' % show(recv(shared[0])))
                return
        if len(bufs) not in (1, 2):
            raise AnalysisError('read_packet: expected one frame buffer per '
                                'path (or a second one holding the inflated '
                                'body), found %d' % len(bufs), rp.node,
                                rel(rp.path))
        vreads = [e for e in top if e.method() == 'read' and any(
            t.cls is not None and t.cls.name == 'VarInt'
            for t in (e.targets or ())) and e.args and e.args[-1] in bufs]
        if not vreads:
            raise AnalysisError('read_packet: no VarInt is read from the '
                                'frame buffer', rp.node, rel(rp.path))
        # the buffer the frame is assembled in, and the one the id is read
        # from (the same, unless the inflated body gets a buffer of its own)
        buf = vreads[0].args[-1]
        idbuf = vreads[-1].args[-1]
        if len(bufs) == 2 and (idbuf == buf or len(vreads) != 2):
            raise AnalysisError('read_packet: two frame buffers on a path '
                                'that does not inflate into the second',
                                rp.node, rel(rp.path))
        comp = [pol for a, pol, _ in p.conds if a[1] == 'truth'
                and struct(a[2][0]) == enabled_at]
        if len(comp) != 1:
            prob['reader:mode-test'] = (
                rp.node, 'expected one decision on compression_enabled per '
                'path, found %d [%s]' % (len(comp), p.cond_text()))
            continue
        modes.add(comp[0])
        if not comp[0]:
            if len(vreads) != 1:
                prob['reader:id'] = (
                    rp.node, 'without compression the packet id is not the '
                    'only VarInt read from the frame buffer (%d reads)'
                    % len(vreads))
            continue
        if len(vreads) != 2:
            prob['reader:data-length'] = (
                rp.node, 'under compression the data-length VarInt is not '
                'read exactly once from the frame before the id (%d VarInt '
                'reads from the frame buffer)' % len(vreads))
            continue
        dl, idr = vreads
        D = dl.res
        marker = None
        for a, pol, _ in p.conds:
            if a[1] == '<' and a[2] == (('const', 0), D):
                marker = ('gt', pol)
            elif a[1] == '<=' and a[2] == (D, ('const', 0)):
                marker = ('gt', not pol)
            elif a[1] == '<' and a[2] == (D, ('const', 1)):
                marker = ('gt', not pol)
            elif a[1] == '<=' and a[2] == (('const', 1), D):
                marker = ('gt', pol)
            elif a[1] == '==' and set(a[2]) == {('const', 0), D}:
                marker = ('gt', not pol)
            elif a[1] == 'truth' and a[2][0] == D:
                marker = ('gt', pol)
            elif a[1] in ('<', '<=') and D in a[2] and marker is None:
                marker = ('other', show(a) if pol else 'not ' + show(a))
        # the announced length decides one thing only (inflate or not) and
        # is compared with one thing only (the inflated size): any other
        # test of it makes the reader refuse frames the format allows
        extra = []
        for a, pol, _ in p.conds:
            if not any(t == D for t in pathsum.subterms(a)):
                continue
            if a[1] in ('<', '<=', '==', 'truth') and (
                    a[2] in ((('const', 0), D), (D, ('const', 0)),
                             (D, ('const', 1)), (('const', 1), D))
                    or a[1] == 'truth' and a[2][0] == D
                    or a[1] == '==' and set(a[2]) == {('const', 0), D}):
                continue
            if a[1] == '==' and any(
                    t[0] == 'op' and t[1] == 'len' for t in a[2]):
                continue
            extra.append(('' if pol else 'not ') + show(a))
        if extra and marker is not None and marker[0] == 'gt':
            prob['reader:extra-size-test'] = (
                dl.node, 'a frame is accepted only when [%s]: the format '
                'puts no other condition on the announced data length than '
                '0 = not compressed, so frames a conforming peer sends are '
                'refused' % ' and '.join(extra))
            continue
        infl = [e for e in top if e.method() == 'decompress']
        if marker is None:
            prob['reader:marker-test'] = (
                dl.node, 'the data length is not tested against 0')
            continue
        if marker[0] != 'gt':
            prob['reader:marker'] = (
                dl.node, 'the body is inflated when [%s]; the writer marks '
                'an uncompressed body with data length 0, so it must be '
                'inflated exactly when the length is > 0' % marker[1])
            continue
        if bool(infl) != marker[1]:
            prob['reader:marker'] = (
                dl.node, 'the body is %sinflated although the data length '
                'is %s 0' % ('' if infl else 'not ',
                             '>' if marker[1] else '='))
            continue
        i_dl, i_id = top.index(dl), top.index(idr)
        if marker[1]:
            x = infl[0]
            steps = []
            src_ok = x.args and x.args[-1][0] == 'call' and \
                x.args[-1][1][0] in ('attr', 'fn') and any(
                    e.res == x.args[-1] and e.method() == 'read'
                    and recv(e) == buf for e in top)
            seq = top[i_dl + 1:i_id]
            if idbuf != buf:
                # a fresh buffer takes the inflated body: nothing to reset
                if any(recv(e) == idbuf for e in top[:i_dl + 1]):
                    steps.append('stale-buffer')
                else:
                    steps.append('reset')
            for e in seq:
                if e is x:
                    steps.append('inflate' if src_ok else 'inflate-other')
                    if idbuf != buf and 'reset' in steps:
                        steps.remove('reset')
                        steps.append('reset')
                elif recv(e) == buf and e.method() == 'reset' and \
                        idbuf == buf:
                    steps.append('reset')
                elif recv(e) == idbuf and e.method() == 'send' and \
                        e.args and e.args[-1] == x.res:
                    steps.append('refill')
                elif recv(e) == idbuf and e.method() == 'send':
                    steps.append('refill-other')
                elif recv(e) == idbuf and e.method() == 'reset_cursor':
                    steps.append('rewind')
            size = False
            for a, pol, _ in p.conds:
                if a[1] == '==' and pol and D in a[2] and any(
                        t == ('op', 'len', (x.res,)) for t in a[2]):
                    size = True
            if size and 'inflate' in steps:
                steps.insert(steps.index('inflate') + 1, 'size-check')
            want = ['inflate', 'size-check', 'reset', 'refill', 'rewind']
            core = [s_ for s_ in steps if s_ in want or s_ in (
                'refill-other', 'stale-buffer', 'inflate-other')]
            if core != want:
                missing = [w for w in want if w not in core]
                prob['reader:inflate-arm'] = (
                    x.node, 'the inflate arm does %s; expected %s%s' % (
                        core, want, (' (missing: %s)' % missing)
                        if missing else ' in this order'))
    if modes != {True, False} and not prob:
        prob['reader:mode-test'] = (
            rp.node, 'the reader does not distinguish compression on/off')
    for key, (node, msg) in sorted(prob.items()):
        report.violation(R, key, rp.path, node, rp.qualname, msg)
    if not prob:
        report.ok(R, 'under compression: data length read once, inflate iff '
                  '> 0')
        report.ok(R, 'inflate arm: inflate -> size-check -> reset -> refill '
                  '-> rewind')
        report.ok(R, 'packet id read from the frame buffer after the '
                  'compression stage')


def isolation(report, db, cg, S, M, rule_id='R01.3'):
    R = report.rule(rule_id, 'frame isolation: the stream is only asked '
                    'for the length prefix and for the remaining bytes of '
                    'this frame; decoding uses the per-frame buffer')
    from .c15 import raw_reads
    rp = M.method(M.reactor, 'read_packet')
    stream = sy(rp.all_params[1])
    pb = db.get_class(BUFFER, 'PacketBuffer')
    type_ci = db.get_class(BASIC, 'Type')
    packet_ci = db.get_class(PACKET, 'Packet')
    raw = set()
    for f in db.funcs:
        if f.module is rp.module or f.module is pb.module:
            raw |= set(id(n) for n in raw_reads(db, cg, f, type_ci,
                                                packet_ci))
    res = reassembly.analyse(S, rp, raw, pb)
    if res['L'] is None:
        raise AnalysisError('read_packet: length prefix / frame buffer not '
                            'found', rp.node, rel(rp.path))
    for key, node, text in res['problems']:
        if key in ('request-size',):
            report.violation(R, 'isolation:read-size', rp.path, node,
                             rp.qualname, text)
    if not any(k == 'request-size' for k, _, _ in res['problems']):
        report.ok(R, 'every stream.read asks for L - (bytes appended) '
                  '(%d requests; %s)' % (res['requests'], '; '.join(
                      sorted(set(res['facts']))[:2])))
    # other uses of the stream; the decoder's input
    uses = 0
    bad = {}
    dec_ok = None
    for p in S.run(rp):
        for e in p.flat(('call',)):
            def direct(t):
                # the stream itself (possibly inside a literal), not a
                # value read from it
                if struct(t) == stream:
                    return True
                if t[0] in ('tuple', 'list', 'set'):
                    return any(direct(x) for x in t[1])
                return False
            r0 = e.fn[1] if e.fn[0] == 'attr' else (
                e.fn[2] if e.fn[0] == 'fn' and len(e.fn) > 2 else None)
            mentions = (r0 is not None and direct(r0)) or any(
                direct(a) for a in tuple(e.args) + tuple(
                    v for _, v in e.kwargs))
            if mentions:
                uses += 1
                recv = e.fn[1] if e.fn[0] == 'attr' else (
                    e.fn[2] if e.fn[0] == 'fn' and len(e.fn) > 2 else None)
                if recv is not None and struct(recv) == stream:
                    if e.method() != 'read':
                        bad['isolation:stream-method'] = (
                            e.node, 'unexpected stream.%s()' % e.method())
                elif e.fn == ('ext', 'select.select'):
                    pass
                elif e.method() == 'read' and any(
                        t.cls is not None and t.cls.name == 'VarInt'
                        for t in (e.targets or ())) and e.res == res['L'] \
                        or struct(e.res) == struct(res['L']):
                    pass
                else:
                    bad['isolation:stream-arg'] = (
                        e.node, 'the stream itself is handed to %s: a '
                        'decoder could read past the end of the frame'
                        % show(e.fn))
            if shared.is_packet_decode(e):
                a = [x for x in e.args if not (x == e.fn[1] if e.fn[0]
                                               == 'attr' else False)]
                src = a[-1] if a else None
                good = src is not None and src[0] == 'obj' and \
                    src[3] is pb
                dec_ok = good if dec_ok is None else (dec_ok and good)
    for key, (node, msg) in sorted(bad.items()):
        report.violation(R, key, rp.path, node, rp.qualname, msg)
    if dec_ok:
        report.ok(R, 'packet.read(frame buffer)')
    else:
        report.violation(R, 'isolation:decoder-input', rp.path, rp.node,
                         rp.qualname, 'the packet decoder is not fed the '
                         'per-frame buffer')
    report.floor('uses of the stream in read_packet', uses, 4)


def mode(report, db, cg, M):
    R = report.rule('R01.4', 'framing mode is looked up per packet from '
                    'the connection options, never cached elsewhere')
    n = 0
    allowed_readers = {M.conn_method('_write_packet'),
                       M.method(M.reactor, 'read_packet')}
    tracked = {'compression_enabled', 'compression_threshold'}
    # a view the options object computes from the mode each time it is asked
    # (a property / method that reads the mode and stores nothing) is read
    # under the same rule as the mode itself
    views = set()
    for fi in db.funcs:
        if fi.cls is not None and fi.cls.name == '_ConnectionOptions' and \
                fi.name != '__init__' and not isinstance(
                    fi.node, ast.Lambda) and fi.params:
            xs = list(cg.shallow(fi))
            reads = [x for x in xs if isinstance(x, ast.Attribute) and
                     x.attr in tracked and isinstance(x.ctx, ast.Load) and
                     isinstance(x.value, ast.Name) and
                     x.value.id == fi.params[0]]
            stores = [x for x in xs if isinstance(x, (ast.Attribute,
                                                      ast.Subscript))
                      and isinstance(x.ctx, (ast.Store, ast.Del))]
            if reads and not stores and not any(
                    isinstance(x, (ast.Global, ast.Nonlocal)) for x in xs):
                views.add(fi)
    tracked |= set(f.name for f in views)
    for fi in db.funcs:
        if fi in views:
            continue
        for x in cg.shallow(fi):
            if isinstance(x, ast.Attribute) and x.attr in tracked:
                n += 1
                if isinstance(x.ctx, ast.Store):
                    continue
                if fi.name == '__init__' and fi.cls is not None and \
                        fi.cls.name == '_ConnectionOptions':
                    continue
                if fi in allowed_readers:
                    base = ast.unparse(x.value)
                    if base.endswith('.options') or base.endswith(
                            'options'):
                        report.ok(R, '%s reads %s.%s at call time'
                                  % (fi.qualname, base, x.attr))
                        continue
                report.violation(R, 'mode:cached:%s' % fi.qualname, fi.path,
                                 x, fi.qualname, 'the framing mode is read '
                                 'outside the per-packet reader/writer '
                                 '(cached): a set-compression packet would '
                                 'not take effect for the next frame')
    report.floor('references to the framing mode', n, 5)
