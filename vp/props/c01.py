"""C01 -- the framed packet stream survives any threshold, cipher and read
segmentation.  Structural clauses of the framing code on all paths: writer
frame algebra, reader mirror, remaining-length reads, per-packet mode,
pass-through cipher wrappers."""
import ast

from ..common import AnalysisError, rel
from ..callgraph import CallGraph
from ..connmodel import ConnModel, CONN
from ..cfg import cfg_of
from .. import shared, boolfn

PACKET = 'minecraft.networking.packets.packet'


# -- a tiny byte-string algebra for Packet._write_buffer -------------------
class B(object):
    """symbolic byte string: tuple of pieces"""
    def __init__(self, pieces=()):
        self.pieces = tuple(pieces)

    def __repr__(self):
        return ' ++ '.join(map(str, self.pieces)) or "b''"


def piece_varint(x):
    return 'VARINT(%s)' % (x,)


class Path(object):
    def __init__(self):
        self.env = {}
        self.buf = B(('PAYLOAD',))      # id + fields, as Packet.write left it
        self.wire = []
        self.conds = []

    def fork(self):
        p = Path()
        p.env = dict(self.env)
        p.buf = self.buf
        p.wire = list(self.wire)
        p.conds = list(self.conds)
        return p


class FrameAlgebra(object):
    def __init__(self, fi):
        self.fi = fi
        self.sock = fi.params[1]
        self.buf = fi.params[2]
        self.thr = fi.params[3]

    def err(self, msg, node):
        return AnalysisError('frame algebra: ' + msg, node, rel(self.fi.path))

    def ev(self, e, p):
        if isinstance(e, ast.Constant):
            return e.value
        if isinstance(e, ast.Name):
            if e.id in p.env:
                return p.env[e.id]
            return ('name', e.id)
        if isinstance(e, ast.Call):
            f = ast.unparse(e.func)
            if f == '%s.get_writable' % self.buf and not e.args:
                return p.buf
            if f == 'len' and len(e.args) == 1:
                v = self.ev(e.args[0], p)
                return 'len(%r)' % (v,)
            if f in ('compress', 'zlib.compress') and e.args:
                v = self.ev(e.args[0], p)
                return B(('ZLIB(%r)' % (v,),))
            if f == 'bytes' and not e.args:
                return B(())
        raise self.err('unsupported expression %s' % ast.unparse(e), e)

    def run(self):
        paths = self.block(self.fi.body, [Path()])
        return paths

    def block(self, stmts, paths):
        for st in stmts:
            nxt = []
            for p in paths:
                nxt.extend(self.stmt(st, p))
            paths = nxt
        return paths

    def stmt(self, st, p):
        if isinstance(st, ast.Expr) and isinstance(st.value, ast.Constant):
            return [p]
        if isinstance(st, ast.If):
            a, b = p.fork(), p.fork()
            a.conds.append((st.test, True))
            b.conds.append((st.test, False))
            return self.block(st.body, [a]) + self.block(st.orelse, [b])
        if isinstance(st, ast.Assign) and len(st.targets) == 1 and \
                isinstance(st.targets[0], ast.Name):
            p.env[st.targets[0].id] = self.ev(st.value, p)
            return [p]
        if isinstance(st, ast.Expr) and isinstance(st.value, ast.Call):
            c = st.value
            f = ast.unparse(c.func)
            if f == '%s.reset' % self.buf:
                p.buf = B(())
                return [p]
            if f == '%s.send' % self.buf and len(c.args) == 1:
                v = self.ev(c.args[0], p)
                if not isinstance(v, B):
                    raise self.err('buffer.send of a non-bytes value', c)
                p.buf = B(p.buf.pieces + v.pieces)
                return [p]
            if f == 'VarInt.send' and len(c.args) == 2:
                n = self.ev(c.args[0], p)
                tgt = ast.unparse(c.args[1])
                if tgt == self.buf:
                    p.buf = B(p.buf.pieces + (piece_varint(n),))
                    return [p]
                if tgt == self.sock:
                    p.wire.append(piece_varint(n))
                    return [p]
            if f in ('%s.send' % self.sock, '%s.sendall' % self.sock) and \
                    len(c.args) == 1:
                v = self.ev(c.args[0], p)
                if not isinstance(v, B):
                    raise self.err('socket.send of a non-bytes value', c)
                p.wire.append(v)
                return [p]
        raise self.err('unsupported statement %s' % ast.unparse(st)[:60], st)


def run(report, db, tier):
    report.explanation = (
        'Packet._write_buffer is executed over a symbolic byte-string '
        'algebra on each of its paths and the emitted frame compared with '
        'the frame grammar; read_packet is checked to mirror it (inflate '
        'iff the announced size is > 0, size check, rewind), to ask the '
        'stream only for the remaining length, and to look the framing '
        'mode up per packet.')
    report.trusted_base = ['zlib compress/decompress are inverse',
                           'VarInt codec (C03)']
    cg = CallGraph(db)
    M = ConnModel(db, cg)
    writer(report, db, cg, M)
    reader(report, db, cg, M)
    isolation(report, db, cg, M)
    mode(report, db, cg, M)
    R5 = report.rule('R01.5', 'cipher transparency: wrapper methods are '
                     'single pass-through updates')
    shared.wrapper_passthrough(report, R5, db)


def writer(report, db, cg, M):
    R = report.rule('R01.1', 'writer: frame = VARINT(len(body)) ++ body on '
                    'every path; body = payload | VARINT(0) ++ payload | '
                    'VARINT(len(payload)) ++ ZLIB(payload)')
    pk = db.get_class(PACKET, 'Packet')
    wb = db.own_method(pk, '_write_buffer')
    if wb is None or len(wb.params) != 4:
        raise AnalysisError('Packet._write_buffer(self, socket, buffer, '
                            'threshold) vanished')
    paths = FrameAlgebra(wb).run()
    report.floor('paths of _write_buffer', len(paths), 3)
    payload = "PAYLOAD"
    kinds = set()
    for p in paths:
        cond = ' and '.join(('' if t else 'not ') + '(%s)' % ast.unparse(e)
                            for e, t in p.conds) or 'always'
        if len(p.wire) != 2 or not isinstance(p.wire[1], B):
            report.violation(R, 'frame:shape:%s' % cond[:40], wb.path,
                             wb.node, wb.qualname, 'when %s the frame is '
                             '%r: not a length prefix followed by one body'
                             % (cond, p.wire))
            continue
        body = p.wire[1]
        want_prefix = piece_varint('len(%r)' % (body,))
        if p.wire[0] != want_prefix:
            report.violation(R, 'frame:length:%s' % cond[:40], wb.path,
                             wb.node, wb.qualname, 'when %s the length '
                             'prefix is %s but the body sent is %r'
                             % (cond, p.wire[0], body))
            continue
        bp = body.pieces
        none_test = any(('%s is not None' % wb.params[3]) in ast.unparse(e)
                        or ('%s is None' % wb.params[3]) in ast.unparse(e)
                        for e, t in p.conds)
        if bp == (payload,):
            kinds.add('plain')
            report.ok(R, '%s: %r' % (cond, p.wire))
        elif bp == (piece_varint(0), payload):
            kinds.add('stored')
            report.ok(R, '%s: %r' % (cond, p.wire))
        elif bp == (piece_varint('len(%r)' % (B((payload,)),)),
                    'ZLIB(%r)' % (B((payload,)),)):
            kinds.add('deflated')
            report.ok(R, '%s: %r' % (cond, p.wire))
        else:
            report.violation(R, 'frame:body:%s' % cond[:40], wb.path,
                             wb.node, wb.qualname, 'when %s the body is %r; '
                             'the frame grammar allows payload, VARINT(0) ++ '
                             'payload, or VARINT(len(payload)) ++ '
                             'ZLIB(payload)' % (cond, body))
    if kinds == {'plain', 'stored', 'deflated'}:
        report.ok(R, 'all three frame forms are produced')
    elif not report.violations:
        report.violation(R, 'frame:forms', wb.path, wb.node, wb.qualname,
                         'only the forms %s are produced' % sorted(kinds))
    # the plain form iff threshold is None (compression not negotiated)
    for p in paths:
        if len(p.wire) == 2 and isinstance(p.wire[1], B):
            plain = p.wire[1].pieces == (payload,)
            thr_none = None
            for e, t in p.conds:
                u = ast.unparse(e)
                if u == '%s is not None' % wb.params[3]:
                    thr_none = not t
                elif u == '%s is None' % wb.params[3]:
                    thr_none = t
            if thr_none is not None and plain != thr_none:
                report.violation(R, 'frame:mode', wb.path, wb.node,
                                 wb.qualname, 'with compression %s the '
                                 'frame %s a data-length header'
                                 % ('off' if thr_none else 'on',
                                    'has' if not plain else 'lacks'))
    # _write_packet passes the threshold iff compression is enabled
    wp = M.conn_method('_write_packet')
    g = cfg_of(wp)
    for n in g.reachable_nodes():
        for c in (n.calls() if n.ast is not None else []):
            if isinstance(c.func, ast.Attribute) and c.func.attr == 'write' \
                    and any(m.name == 'write' and m.cls is pk
                            for m, _, _ in cg.callee_funcs(wp, c)):
                conds = [(ast.unparse(e), t) for e, t in
                         boolfn.path_conditions(g, n)
                         if 'compression_enabled' in ast.unparse(e)]
                has_thr = len(c.args) > 1 or any(
                    k.arg == 'compression_threshold' for k in c.keywords)
                enabled = [t for e, t in conds]
                if enabled == [has_thr]:
                    if has_thr:
                        a = c.args[1] if len(c.args) > 1 else [
                            k.value for k in c.keywords
                            if k.arg == 'compression_threshold'][0]
                        if not ast.unparse(a).endswith(
                                '.compression_threshold'):
                            report.violation(
                                R, 'frame:threshold-source', wp.path, c,
                                wp.qualname, 'the threshold passed is %s, '
                                'not options.compression_threshold'
                                % ast.unparse(a))
                            continue
                    report.ok(R, '_write_packet: threshold passed iff '
                              'compression_enabled (%s)' % has_thr)
                else:
                    report.violation(R, 'frame:enable-mismatch', wp.path, c,
                                     wp.qualname, 'packet.write gets a '
                                     'threshold: %s under '
                                     'compression_enabled = %s'
                                     % (has_thr, enabled))


def reader(report, db, cg, M):
    R = report.rule('R01.2', 'reader mirror: under compression read the '
                    'data length, inflate iff it is > 0, check the size, '
                    'replace the buffer and rewind; then read the id')
    rp = M.method(M.reactor, 'read_packet')
    g = cfg_of(rp)
    live = g.reachable_nodes()
    tests = [n for n in live if n.kind == 'test']
    comp = [n for n in tests if 'compression_enabled' in ast.unparse(n.ast)]
    if len(comp) != 1:
        report.violation(R, 'reader:mode-test', rp.path, rp.node,
                         rp.qualname, 'expected one test of '
                         'compression_enabled, found %d' % len(comp))
        return
    ct = comp[0]
    # data length read from the frame buffer, under the flag
    dl = [n for n in live if isinstance(n.ast, ast.Assign)
          and isinstance(n.ast.value, ast.Call)
          and ast.unparse(n.ast.value.func) == 'VarInt.read'
          and g.dominates(ct, n)
          and any(l == 'true' for s, l in ct.succ)
          and [(ast.unparse(e), t) for e, t in boolfn.path_conditions(g, n)
               if 'compression_enabled' in ast.unparse(e)] ==
          [(ast.unparse(ct.ast), True)]]
    ids = [n for n in live if isinstance(n.ast, ast.Assign)
           and isinstance(n.ast.value, ast.Call)
           and ast.unparse(n.ast.value.func) == 'VarInt.read'
           and n not in dl and 'stream' not in ast.unparse(n.ast.value)]
    if len(dl) != 1:
        report.violation(R, 'reader:data-length', rp.path, ct.ast,
                         rp.qualname, 'under compression the data-length '
                         'VarInt is not read exactly once from the frame')
        return
    dvar = dl[0].ast.targets[0].id
    bufname = ast.unparse(dl[0].ast.value.args[0])
    zt = [n for n in tests if dvar in ast.unparse(n.ast)
          and g.dominates(dl[0], n)]
    if len(zt) != 1:
        report.violation(R, 'reader:marker-test', rp.path, dl[0].ast,
                         rp.qualname, 'the data length is not tested '
                         'against 0 exactly once')
        return
    z = zt[0]
    ref = ast.parse('%s > 0' % dvar, mode='eval').body
    ref2 = ast.parse('%s != 0' % dvar, mode='eval').body
    t = z.ast
    marker_ok = isinstance(t, ast.Compare) and len(t.ops) == 1 and \
        ast.unparse(t.left) == dvar and isinstance(t.comparators[0],
                                                   ast.Constant) and \
        t.comparators[0].value == 0 and isinstance(t.ops[0], (ast.Gt,
                                                               ast.NotEq))
    if isinstance(t, ast.Name) and t.id == dvar:
        marker_ok = True
    if marker_ok:
        report.ok(R, 'inflate iff %s' % ast.unparse(t))
    else:
        report.violation(R, 'reader:marker', rp.path, z.ast, rp.qualname,
                         'the body is inflated when [%s]; the writer marks '
                         'an uncompressed body with data length 0, so it '
                         'must be inflated exactly when the length is > 0'
                         % ast.unparse(t))
    # inside the inflate arm: decompress(rest), size check, reset, send,
    # reset_cursor -- in this order
    arm = []
    seen = set()
    stack = [s for s, l in z.succ if l == 'true']
    while stack:
        n = stack.pop()
        if n in seen or n.ast is None:
            continue
        seen.add(n)
        if g.dominates(z, n) and [c for c in boolfn.path_conditions(g, n)
                                  if c == (z.ast, True)]:
            arm.append(n)
            stack.extend(s for s, l in n.succ if l != 'exc')
    arm.sort(key=lambda n: n.id)
    steps = []
    infl = None
    for n in arm:
        u = ast.unparse(n.ast)
        if 'decompress' in u and isinstance(n.ast, ast.Assign) and \
                '.decompress(' in u:
            src = [c for c in n.calls() if isinstance(c.func, ast.Attribute)
                   and c.func.attr == 'decompress']
            if src and src[0].args and ast.unparse(src[0].args[0]) == \
                    '%s.read()' % bufname:
                steps.append('inflate')
                infl = n.ast.targets[0].id
            else:
                steps.append('inflate-other')
        elif isinstance(n.ast, (ast.Assert,)) or n.kind == 'test':
            if infl and 'len(%s)' % infl in u and dvar in u:
                steps.append('size-check')
        elif u == '%s.reset()' % bufname:
            steps.append('reset')
        elif infl and u == '%s.send(%s)' % (bufname, infl):
            steps.append('refill')
        elif u == '%s.reset_cursor()' % bufname:
            steps.append('rewind')
    want = ['inflate', 'size-check', 'reset', 'refill', 'rewind']
    core = [s for s in steps if s in want]
    if core == want:
        report.ok(R, 'inflate arm: ' + ' -> '.join(core))
    else:
        missing = [w for w in want if w not in core]
        report.violation(R, 'reader:inflate-arm', rp.path, z.ast,
                         rp.qualname, 'the inflate arm does %s; expected %s'
                         '%s' % (core, want, (' (missing: %s)' % missing)
                                 if missing else ' in this order'))
    # the id is read from the same buffer after the arm
    if len(ids) == 1 and ast.unparse(ids[0].ast.value.args[0]) == bufname \
            and not g.exists_path(ids[0], lambda n: n is dl[0]):
        report.ok(R, 'packet id read from the frame buffer after the '
                  'compression stage')
    else:
        report.violation(R, 'reader:id', rp.path, rp.node, rp.qualname,
                         'the packet id is not read once from the frame '
                         'buffer after the compression stage')


def isolation(report, db, cg, M):
    R = report.rule('R01.3', 'frame isolation: the stream is only asked '
                    'for the length prefix and for the remaining bytes of '
                    'this frame; decoding uses the per-frame buffer')
    rp = M.method(M.reactor, 'read_packet')
    stream = rp.params[1]
    g = cfg_of(rp)
    uses = []
    for n in g.reachable_nodes():
        for c in (n.calls() if n.ast is not None else []):
            if any(isinstance(x, ast.Name) and x.id == stream
                   for a in c.args for x in ast.walk(a)) and not any(
                       isinstance(a, ast.Call) for a in c.args
                       if any(isinstance(x, ast.Name) and x.id == stream
                              for x in ast.walk(a))):
                uses.append(('arg', c, n))
            if isinstance(c.func, ast.Attribute) and isinstance(
                    c.func.value, ast.Name) and c.func.value.id == stream:
                uses.append(('method', c, n))
    lname = None
    bufs = []
    for n in g.reachable_nodes():
        if isinstance(n.ast, ast.Assign) and isinstance(
                n.ast.targets[0], ast.Name):
            v = ast.unparse(n.ast.value)
            if v == 'VarInt.read(%s)' % stream:
                lname = n.ast.targets[0].id
            if v.endswith('PacketBuffer()'):
                bufs.append(n.ast.targets[0].id)
    if lname is None or len(bufs) != 1:
        raise AnalysisError('read_packet: length prefix / frame buffer not '
                            'found', rp.node, rel(rp.path))
    buf = bufs[0]
    first_seen = False
    for kind, c, n in uses:
        u = ast.unparse(c)
        if kind == 'arg':
            if u == 'VarInt.read(%s)' % stream or \
                    ast.unparse(c.func).endswith('select'):
                report.ok(R, u[:50])
            else:
                report.violation(R, 'isolation:stream-arg', rp.path, c,
                                 rp.qualname, 'the stream itself is handed '
                                 'to %s: a decoder could read past the end '
                                 'of the frame' % ast.unparse(c.func))
        else:
            if c.func.attr not in ('read',):
                report.violation(R, 'isolation:stream-method', rp.path, c,
                                 rp.qualname, 'unexpected stream.%s()'
                                 % c.func.attr)
                continue
            a = ast.unparse(c.args[0]) if c.args else None
            remaining = '%s - len(%s.get_writable())' % (lname, buf)
            in_loop = bool(n.loops)
            rem_ok = a == remaining
            if c.args and isinstance(c.args[0], ast.BinOp) and isinstance(
                    c.args[0].op, ast.Sub) and \
                    ast.unparse(c.args[0].left) == lname and \
                    ast.unparse(c.args[0].right) in \
                    shared.received_length_exprs(rp, buf):
                rem_ok = True
            if rem_ok or (a == lname and not in_loop
                          and not first_seen):
                report.ok(R, 'stream.read(%s)' % a)
                if a == lname:
                    first_seen = True
            else:
                report.violation(R, 'isolation:read-size', rp.path, c,
                                 rp.qualname, 'the stream is asked for %s '
                                 'bytes; only the remaining %s may be '
                                 'requested, or bytes of the next frame are '
                                 'consumed' % (a, remaining))
    # the decoder gets the per-frame buffer
    dec = [c for n in g.reachable_nodes() if n.ast is not None
           for c in n.calls() if isinstance(c.func, ast.Attribute)
           and c.func.attr == 'read' and any(
               m.name == 'read' and m.cls is not None
               and m.cls.name == 'Packet'
               for m, _, _ in cg.callee_funcs(rp, c))]
    if dec and all([ast.unparse(a) for a in c.args] == [buf] for c in dec):
        report.ok(R, 'packet.read(%s)' % buf)
    else:
        report.violation(R, 'isolation:decoder-input', rp.path, rp.node,
                         rp.qualname, 'the packet decoder is not fed the '
                         'per-frame buffer')
    report.floor('uses of the stream in read_packet', len(uses), 4)


def mode(report, db, cg, M):
    R = report.rule('R01.4', 'framing mode is looked up per packet from '
                    'the connection options, never cached elsewhere')
    n = 0
    allowed_readers = {M.conn_method('_write_packet'),
                       M.method(M.reactor, 'read_packet')}
    for fi in db.funcs:
        for x in cg.shallow(fi):
            if isinstance(x, ast.Attribute) and x.attr in (
                    'compression_enabled', 'compression_threshold'):
                n += 1
                if isinstance(x.ctx, ast.Store):
                    continue
                if fi.name == '__init__' and fi.cls is not None and \
                        fi.cls.name == '_ConnectionOptions':
                    continue
                if fi in allowed_readers:
                    base = ast.unparse(x.value)
                    if base.endswith('.options') or base.endswith(
                            'options'):
                        report.ok(R, '%s reads %s.%s at call time'
                                  % (fi.qualname, base, x.attr))
                        continue
                report.violation(R, 'mode:cached:%s' % fi.qualname, fi.path,
                                 x, fi.qualname, 'the framing mode is read '
                                 'outside the per-packet reader/writer '
                                 '(cached): a set-compression packet would '
                                 'not take effect for the next frame')
    report.floor('references to the framing mode', n, 8)
