"""C14 -- networking-thread exceptions are contained and routed like
try/except.  Dominance, guard-function and rebinding relations on the CFGs
of NetworkingThread.run and Connection._handle_exception."""
import ast

from ..common import AnalysisError, rel
from ..callgraph import CallGraph
from ..connmodel import ConnModel, CONN
from ..cfg import cfg_of
from ..fold import Folder, Instance, Opaque, FuncVal, Env, FoldRaise
from .. import boolfn


def run(report, db, tier):
    report.explanation = (
        'The routing of a fatal exception is a set of relations between '
        'effects in run() and _handle_exception(): which store dominates '
        'which call, which guard protects which stage, what an exceptional '
        'edge rebinds, where the loop is left.  They are decided on the '
        'control-flow graphs (with exception edges), not on the text.')
    cg = CallGraph(db)
    M = ConnModel(db, cg)
    containment(report, db, cg, M)
    chain(report, db, cg, M)
    registration(report, db, cg, M)


def calls_named(n, name):
    return [c for c in (n.calls() if n.ast is not None else [])
            if (isinstance(c.func, ast.Attribute) and c.func.attr == name)
            or (isinstance(c.func, ast.Name) and c.func.id == name)]


def rebinds_both(g, handler_node, names):
    """Every path out of the handler entry first passes a statement binding
    all of `names`."""
    stack = [s for s, _ in handler_node.succ]
    seen = set()
    while stack:
        n = stack.pop()
        if n in seen:
            continue
        seen.add(n)
        a = n.ast
        if isinstance(a, ast.Assign):
            bound = set()
            for t in a.targets:
                for x in ast.walk(t):
                    if isinstance(x, ast.Name):
                        bound.add(x.id)
            if set(names) <= bound:
                continue
        return False
    return True


# ---------------------------------------------------------------------------
def containment(report, db, cg, M):
    R = report.rule('R14.1', 'containment: _run() and the exit callback run '
                    'inside a handler for Exception that first marks the '
                    'thread interrupted, then dispatches; the slot is '
                    'cleared in finally')
    run_ = M.method(M.thread, 'run')
    g = cfg_of(run_)
    live = g.reachable_nodes()
    me = run_.params[0]
    for name in ('_run', '_handle_exit'):
        nodes = [n for n in live if calls_named(n, name)]
        if not nodes:
            report.violation(R, 'contain:missing:%s' % name, run_.path,
                             run_.node, run_.qualname,
                             'run() never calls %s' % name)
            continue
        for n in nodes:
            hs = [s for s, l in n.succ if l == 'exc' and s.kind == 'handler']
            caught = [h for h in hs if h.ast.type is not None and
                      ast.unparse(h.ast.type) in ('Exception',
                                                  'BaseException')]
            esc = [s for s, l in n.succ if l == 'exc' and s is g.raise_exit]
            if caught and not esc:
                report.ok(R, '%s() is inside `except Exception`' % name)
            else:
                report.violation(R, 'contain:%s' % name, run_.path, n.ast,
                                 run_.qualname, 'an exception from %s() is '
                                 'not caught by the thread wrapper: it '
                                 'escapes without being routed to the '
                                 'handlers' % name)
    # the exit callback runs only after _run returned normally
    runs = [n for n in live if calls_named(n, '_run')]
    exits = [n for n in live if calls_named(n, '_handle_exit')]
    for e in exits:
        if runs and all(g.dominates(r, e) for r in runs) and \
                g.exists_path(g.entry, lambda x: x is e,
                              avoid=lambda x: x in runs) is None:
            report.ok(R, '_handle_exit() only after _run() returned')
        else:
            report.violation(R, 'contain:exit-order', run_.path, e.ast,
                             run_.qualname, 'the exit callback can run '
                             'without _run() having finished normally')
    he = [n for n in live if calls_named(n, '_handle_exception')]
    if not he:
        report.violation(R, 'contain:no-dispatch', run_.path, run_.node,
                         run_.qualname, 'the wrapper never dispatches to '
                         '_handle_exception')
        return
    for n in he:
        marks = [m for m in live if isinstance(m.ast, ast.Assign) and any(
            isinstance(t, ast.Attribute) and t.attr == 'interrupt'
            and isinstance(t.value, ast.Name) and t.value.id == me
            for t in m.ast.targets) and isinstance(m.ast.value, ast.Constant)
            and m.ast.value.value is True]
        if marks and any(g.dominates(m, n) for m in marks):
            report.ok(R, 'self.interrupt = True dominates the dispatch')
        else:
            report.violation(R, 'contain:interrupt-mark', run_.path, n.ast,
                             run_.qualname, 'the thread does not mark '
                             'itself interrupted before dispatching: a '
                             'handler that reconnects is refused as "already '
                             'running", and the connection is not closed')
        c = calls_named(n, '_handle_exception')[0]
        hname = None
        for h in live:
            if h.kind == 'handler' and h.ast.name:
                hname = h.ast.name
        if len(c.args) == 2 and isinstance(c.args[0], ast.Name) and \
                c.args[0].id == hname and \
                ast.unparse(c.args[1]) == 'sys.exc_info()':
            report.ok(R, 'dispatch receives (e, sys.exc_info())')
        else:
            report.violation(R, 'contain:dispatch-args', run_.path, c,
                             run_.qualname, 'the dispatch is not given the '
                             'caught exception and its exc_info')


# ---------------------------------------------------------------------------
def chain(report, db, cg, M):
    R2 = report.rule('R14.2', 'first match wins: guarded handler call; '
                     'normal completion leaves the loop; a raising handler '
                     'rebinds exc and exc_info and falls through')
    R3 = report.rule('R14.3', 'the final handler stage runs after the loop '
                     'on both exits, guarded only by `not in (None, False)`; '
                     'an exception from it replaces the current one')
    R4 = report.rule('R14.4', 'the recorded exception is the current '
                     '(exc, exc_info), stored after the final stage')
    R5 = report.rule('R14.5', 'the connection is closed unless a handler '
                     'started a new one (interrupt flag of the newest slot)')
    R6 = report.rule('R14.6', 're-raise iff no final handler is configured '
                     'and nothing caught the exception')
    R0 = report.rule('R14.0', 'the reactor\'s own handler goes first; a true '
                     'result ends the dispatch')
    he = M.conn_method('_handle_exception')
    g = cfg_of(he)
    live = g.reachable_nodes()
    me, exc, exc_info = he.params[0], he.params[1], he.params[2]

    # ---- reactor stage
    rh = [n for n in live if calls_named(n, 'handle_exception')
          and 'reactor' in ast.unparse(n.ast)]
    if rh and rh[0].kind == 'test':
        t = rh[0]
        tr = [s for s, l in t.succ if l == 'true']
        hs = [s for s, l in t.succ if l == 'exc' and s.kind == 'handler']
        if tr and all(isinstance(s.ast, ast.Return) for s in tr):
            report.ok(R0, 'reactor.handle_exception(...) true -> return')
        else:
            report.violation(R0, 'reactor-stage:return', he.path, t.ast,
                             he.qualname, 'a reactor that handled the '
                             'exception does not end the dispatch')
        if hs and all(rebinds_both(g, h, (exc, exc_info)) for h in hs):
            report.ok(R0, 'a raising reactor handler replaces exc and '
                      'exc_info')
        else:
            report.violation(R0, 'reactor-stage:rebind', he.path, t.ast,
                             he.qualname, 'an exception raised by the '
                             'reactor\'s handler does not replace both exc '
                             'and exc_info')
    else:
        report.violation(R0, 'reactor-stage:missing', he.path, he.node,
                         he.qualname, 'the reactor\'s handle_exception is '
                         'not consulted first')

    # ---- the handler loop: the loop whose body calls its loop variable
    fors = [n for n in live if n.kind == 'for']
    head = None
    hvar = tvar = None
    for cand in fors:
        tg = cand.ast.target
        names = [tg.id] if isinstance(tg, ast.Name) else (
            [e.id for e in tg.elts if isinstance(e, ast.Name)]
            if isinstance(tg, ast.Tuple) else [])
        inner = [n for n in live if cand.ast in n.loops]
        for nm in names:
            if any(isinstance(c.func, ast.Name) and c.func.id == nm
                   for n in inner for c in n.calls()):
                head, hvar = cand, nm
                rest = [x for x in names if x != nm]
                tvar = rest[0] if rest else None
    if head is None:
        raise AnalysisError('_handle_exception: handler loop not found',
                            he.node, rel(he.path))
    loop = head.ast
    body = [n for n in live if loop in n.loops]
    hcalls = [n for n in body if any(
        isinstance(c.func, ast.Name) and c.func.id == hvar
        for c in n.calls())]
    if len(hcalls) != 1:
        report.violation(R2, 'chain:handler-call', he.path, loop,
                         he.qualname, 'expected exactly one call of the '
                         'registered handler per iteration, found %d'
                         % len(hcalls))
        return
    hc = hcalls[0]
    call = [c for c in hc.calls() if isinstance(c.func, ast.Name)
            and c.func.id == hvar][0]
    if [ast.unparse(a) for a in call.args] == [exc, exc_info]:
        report.ok(R2, 'handler(exc, exc_info) receives the current pair')
    else:
        report.violation(R2, 'chain:handler-args', he.path, call,
                         he.qualname, 'the handler is not called with the '
                         'current (exc, exc_info)')
    # guard = not types or isinstance(exc, types), evaluated per handler
    # against the *current* exception
    conds = [(e, t) for e, t in boolfn.path_conditions(g, hc)
             if 'isinstance' in ast.unparse(e)
             or (tvar and tvar in ast.unparse(e))]
    guard = False
    if tvar is not None:
        ref = ast.parse('not %s or isinstance(%s, %s)' % (tvar, exc, tvar),
                        mode='eval').body
        guard = bool(conds) and boolfn.same_function(_conj(conds), ref)
    if guard:
        report.ok(R2, 'guard: not types or isinstance(exc, types)')
    else:
        report.violation(R2, 'chain:guard', he.path, hc.ast, he.qualname,
                         'the handler call is not guarded, inside the loop, '
                         'by `not exc_types or isinstance(exc, exc_types)` '
                         'of that handler (found: %s): filters are not '
                         'matched against the exception each handler '
                         'actually receives'
                         % (ast.unparse(_conj(conds)) if conds else 'none'))
    # after a handler raised, the replacement must pass the next handler's
    # own filter: no path from the rebinding to a handler call that skips an
    # isinstance test of the current exception
    rebinds = [s2 for s2, l in hc.succ if l == 'exc' and s2.kind == 'handler']
    tests_ = [n for n in body if n.kind == 'test'
              and 'isinstance(%s' % exc in ast.unparse(n.ast)]
    for rb in rebinds:
        if g.exists_path(rb, lambda n: n is hc,
                         avoid=lambda n: n in tests_) is not None:
            report.violation(R2, 'chain:stale-filter', he.path, rb.ast,
                             he.qualname, 'after a handler raised, the '
                             'replacement exception reaches the next handler '
                             'without that handler\'s type filter being '
                             'evaluated against it')
            break
    else:
        if rebinds:
            report.ok(R2, 'a replacement exception is re-matched against '
                      'each later handler\'s filter')
    # normal completion leaves the loop
    back = g.exists_path(hc, lambda n: n is head,
                         labels=('next', 'true', 'false', 'continue',
                                 'break'))
    if back is None:
        report.ok(R2, 'after a handler returns normally the loop is left')
    else:
        report.violation(R2, 'chain:no-break', he.path, hc.ast, he.qualname,
                         'after a handler caught the exception the loop '
                         'goes on: later matching handlers also receive an '
                         'exception that was already handled')
    # exceptional edge: caught, rebinds both, continues with next handler
    hs = [s for s, l in hc.succ if l == 'exc' and s.kind == 'handler']
    esc = [s for s, l in hc.succ if l == 'exc' and s is g.raise_exit]
    if not hs or esc:
        report.violation(R2, 'chain:handler-raises', he.path, hc.ast,
                         he.qualname, 'an exception raised inside a handler '
                         'is not caught: it cannot be offered to later '
                         'handlers')
    else:
        if all(rebinds_both(g, h, (exc, exc_info)) for h in hs):
            report.ok(R2, 'a raising handler rebinds exc and exc_info')
        else:
            report.violation(R2, 'chain:rebind', he.path, hs[0].ast,
                             he.qualname, 'an exception raised inside a '
                             'handler does not replace both exc and '
                             'exc_info: later handlers and the record see a '
                             'mismatched pair')
        if all(g.exists_path(h, lambda n: n is head) for h in hs):
            report.ok(R2, 'after a raising handler the loop continues')
        else:
            report.violation(R2, 'chain:no-fallthrough', he.path, hs[0].ast,
                             he.qualname, 'after a handler raised, later '
                             'handlers are not tried')

    # ---- final handler stage
    fh = None
    for st in he.body:
        if isinstance(st, ast.Assign) and len(st.targets) == 1 and \
                isinstance(st.targets[0], ast.Name) and \
                ast.unparse(st.value) == '%s.handle_exception' % me:
            fh = st.targets[0].id
    if fh is None:
        raise AnalysisError('_handle_exception: local for the final '
                            'handler not found', he.node, rel(he.path))
    fcalls = [n for n in live if any(isinstance(c.func, ast.Name)
                                     and c.func.id == fh for c in n.calls())]
    if len(fcalls) != 1:
        report.violation(R3, 'final:call-sites', he.path, he.node,
                         he.qualname, 'expected one call of the final '
                         'handler, found %d' % len(fcalls))
        return
    fc = fcalls[0]
    fcond = boolfn.path_conditions(g, fc)
    fcond = [(e, t) for e, t in fcond if loop not in
             [getattr(x, 'note', None) for x in ()]]
    own = [(e, t) for e, t in fcond if fh in ast.unparse(e)]
    other = [(e, t) for e, t in fcond if fh not in ast.unparse(e)
             and 'reactor' not in ast.unparse(e)]
    ref = ast.parse('%s not in (None, False)' % fh, mode='eval').body
    ref2 = ast.parse('%s is not None and %s is not False' % (fh, fh),
                     mode='eval').body
    if own and (boolfn.same_function(_conj(own), ref) or
                boolfn.same_function(_conj(own), ref2)) and not other:
        report.ok(R3, 'final handler guarded only by `%s not in (None, '
                  'False)`' % fh)
    else:
        report.violation(R3, 'final:guard', he.path, fc.ast, he.qualname,
                         'the final handler does not always run when one is '
                         'configured: it is guarded by [%s]' % ast.unparse(
                             _conj(fcond)) if fcond else 'nothing')
    # reachable after the loop on both exits: the guard test post-dominates
    # the loop head (normal paths)
    ftests = [n for n in live if n.kind == 'test' and fh in ast.unparse(
        n.ast) and g.dominates(n, fc)]
    if ftests and g.postdominates(ftests[0], head, include_raise=False):
        report.ok(R3, 'final stage follows the loop on the break exit and '
                  'on exhaustion')
    else:
        report.violation(R3, 'final:not-always', he.path, fc.ast,
                         he.qualname, 'a way out of the handler loop skips '
                         'the final handler stage')
    fhs = [s for s, l in fc.succ if l == 'exc' and s.kind == 'handler']
    if fhs and all(rebinds_both(g, h, (exc, exc_info)) for h in fhs) and \
            not [s for s, l in fc.succ if l == 'exc' and s is g.raise_exit]:
        report.ok(R3, 'an exception from the final handler replaces exc and '
                  'exc_info')
    else:
        report.violation(R3, 'final:raises', he.path, fc.ast, he.qualname,
                         'an exception raised by the final handler is not '
                         'caught and recorded as the current exception')
    if [ast.unparse(a) for a in [c for c in fc.calls() if isinstance(
            c.func, ast.Name) and c.func.id == fh][0].args] != [exc,
                                                               exc_info]:
        report.violation(R3, 'final:args', he.path, fc.ast, he.qualname,
                         'the final handler is not called with the current '
                         '(exc, exc_info)')

    # ---- record
    rec = [n for n in live if isinstance(n.ast, ast.Assign) and
           {'exception', 'exc_info'} <= set(
               x.attr for t in n.ast.targets for x in ast.walk(t)
               if isinstance(x, ast.Attribute) and isinstance(
                   x.value, ast.Name) and x.value.id == me)]
    if len(rec) != 1:
        report.violation(R4, 'record:missing', he.path, he.node, he.qualname,
                         'the last exception is not stored on the '
                         'connection as (exception, exc_info) in one place')
    else:
        r = rec[0]
        tg = ast.unparse(r.ast.targets[0]).replace(' ', '')
        vl = ast.unparse(r.ast.value).replace(' ', '')
        want_t = '%s.exception,%s.exc_info' % (me, me)
        if tg.strip('()') == want_t and vl.strip('()') == '%s,%s' % (
                exc, exc_info):
            report.ok(R4, 'self.exception, self.exc_info = exc, exc_info')
        else:
            report.violation(R4, 'record:pairing', he.path, r.ast,
                             he.qualname, 'recorded pair is %s = %s' % (tg,
                                                                        vl))
        if ftests and g.dominates(ftests[0], r) and \
                g.exists_path(r, lambda n: n is fc) is None:
            report.ok(R4, 'the record follows the final stage')
        else:
            report.violation(R4, 'record:early', he.path, r.ast, he.qualname,
                             'the exception is recorded before the final '
                             'handler could replace it')
        if g.postdominates(r, head, include_raise=False):
            report.ok(R4, 'the record is reached on every path after the '
                      'loop')
        else:
            report.violation(R4, 'record:skipped', he.path, r.ast,
                             he.qualname, 'a path after the handler loop '
                             'does not record the exception')

    # ---- close unless a handler reconnected
    dcs = [n for n in live if calls_named(n, 'disconnect')]
    if len(dcs) != 1:
        report.violation(R5, 'close:sites', he.path, he.node, he.qualname,
                         'expected one disconnect() in the dispatch, found '
                         '%d' % len(dcs))
    else:
        d = dcs[0]
        c = calls_named(d, 'disconnect')[0]
        imm = any(k.arg == 'immediate' and isinstance(k.value, ast.Constant)
                  and k.value.value is True for k in c.keywords) or (
                      c.args and isinstance(c.args[0], ast.Constant)
                      and c.args[0].value is True)
        if imm:
            report.ok(R5, 'disconnect(immediate=True)')
        else:
            report.violation(R5, 'close:not-immediate', he.path, c,
                             he.qualname, 'the failed connection is flushed '
                             'instead of being closed immediately')
        conds = [(e, t) for e, t in boolfn.path_conditions(g, d)
                 if 'interrupt' in ast.unparse(e)]
        ref = '(%s.new_networking_thread or %s.networking_thread).interrupt' \
            % (me, me)
        if len(conds) == 1 and conds[0][1] and \
                ast.unparse(conds[0][0]).replace(' ', '') == \
                ref.replace(' ', ''):
            report.ok(R5, 'guarded by the interrupt flag of the newest '
                      'thread slot')
        else:
            report.violation(R5, 'close:guard', he.path, d.ast, he.qualname,
                             'the close is not guarded by the interrupt '
                             'flag of the newest thread slot (new thread if '
                             'any, else current): found [%s]' % (
                                 ast.unparse(_conj(conds)) if conds else
                                 'unguarded'))
        if rec and g.exists_path(d, lambda n: n is rec[0]) is not None:
            report.violation(R5, 'close:before-record', he.path, d.ast,
                             he.qualname, 'the connection is closed before '
                             'the exception is recorded')

    # ---- re-raise
    raises = [n for n in live if isinstance(n.ast, ast.Raise)]
    if len(raises) != 1:
        report.violation(R6, 'reraise:sites', he.path, he.node, he.qualname,
                         'expected one terminal re-raise, found %d'
                         % len(raises))
        return
    rz = raises[0]
    conds = [(e, t) for e, t in boolfn.path_conditions(g, rz)
             if 'reactor' not in ast.unparse(e)
             and 'interrupt' not in ast.unparse(e)]
    flags = caught_flag(g, he, hc, head, loop)
    if flags is None:
        report.violation(R6, 'reraise:caught-flag', he.path, he.node,
                         he.qualname, 'no flag that is true exactly when a '
                         'handler completed normally (break exit) and false '
                         'on exhaustion')
        return
    ref = ast.parse('%s is None and not %s' % (fh, flags), mode='eval').body
    if conds and boolfn.same_function(_conj(conds), ref):
        report.ok(R6, 're-raise iff %s is None and not %s' % (fh, flags))
    else:
        report.violation(R6, 'reraise:guard', he.path, rz.ast, he.qualname,
                         'the exception is re-raised under [%s]; it must be '
                         'exactly `%s is None and not %s`' % (
                             ast.unparse(_conj(conds)) if conds else 'always',
                             fh, flags))
    if rec and g.exists_path(rz, lambda n: n is rec[0]) is None and \
            g.dominates(rec[0], rz):
        report.ok(R6, 'the re-raise comes after the record')
    elif rec:
        report.violation(R6, 'reraise:before-record', he.path, rz.ast,
                         he.qualname, 're-raise can happen without the '
                         'exception having been recorded')


def _conj(conds):
    parts = [e if t else ast.UnaryOp(op=ast.Not(), operand=e)
             for e, t in conds]
    if not parts:
        return ast.Constant(value=True)
    if len(parts) == 1:
        return parts[0]
    return ast.BoolOp(op=ast.And(), values=parts)


def caught_flag(g, he, hc, head, loop):
    """Name of a local set True right after the handler call on the
    loop-leaving path and False in the loop's else branch."""
    cands = {}
    for n in g.reachable_nodes():
        a = n.ast
        if isinstance(a, ast.Assign) and len(a.targets) == 1 and \
                isinstance(a.targets[0], ast.Name) and \
                isinstance(a.value, ast.Constant) and \
                isinstance(a.value.value, bool):
            cands.setdefault(a.targets[0].id, []).append((n, a.value.value))
    for name, sets in cands.items():
        t = [n for n, v in sets if v]
        f = [n for n, v in sets if not v]
        if not t or not f:
            continue
        # True: dominated by the handler call, on its normal continuation
        ok_t = all(g.dominates(hc, n) and loop in n.loops for n in t)
        # False: only reachable when the loop is exhausted (for-else), or
        # initialised before the loop
        ok_f = all((loop not in n.loops) for n in f)
        if ok_t and ok_f:
            # the False store must not be reachable after a True store
            if any(g.exists_path(a, lambda x: x in f) for a in t):
                continue
            return name
    return None


# ---------------------------------------------------------------------------
def registration(report, db, cg, M):
    R = report.rule('R14.7', 'registration order: early=True inserts before '
                    'all existing handlers, otherwise appends')
    reg = M.conn_method('register_exception_handler')
    he = M.conn_method('_handle_exception')
    attrs = set()
    for n in ast.walk(reg.node):
        if isinstance(n, ast.Call) and isinstance(n.func, ast.Attribute) and \
                n.func.attr in ('append', 'insert') and isinstance(
                    n.func.value, ast.Attribute) and isinstance(
                        n.func.value.value, ast.Name) and \
                n.func.value.value.id == reg.params[0]:
            attrs.add(n.func.value.attr)
    used = set(n.attr for n in ast.walk(he.node)
               if isinstance(n, ast.Attribute) and isinstance(n.value,
                                                              ast.Name)
               and n.value.id == he.params[0])
    if len(attrs) != 1 or not attrs <= used:
        report.violation(R, 'register-handler:list', reg.path, reg.node,
                         reg.qualname, 'handlers are registered in %s but '
                         'the dispatch reads %s' % (sorted(attrs),
                                                    sorted(used)))
        return
    attr = attrs.pop()
    F = Folder(db)
    for early in (False, True):
        lst = ['<first>', '<second>']
        inst = Instance(M.conn, {attr: lst})
        kw = {'early': True} if early else {}
        try:
            F.call_func(FuncVal(reg, bound=inst),
                        [Opaque('handler'), ExcT], kw, reg.node,
                        Env(reg.module))
        except FoldRaise as e:
            report.violation(R, 'register-handler:raises:%s' % early,
                             reg.path, reg.node, reg.qualname,
                             'registration raises %s' % e.exc_type)
            continue
        if len(lst) != 3:
            report.violation(R, 'register-handler:count:%s' % early,
                             reg.path, reg.node, reg.qualname,
                             'registration adds %d entries to %s' % (
                                 len(lst) - 2, attr))
            continue
        pos = 0 if early else 2
        new = lst[pos]
        rest = lst[1:] if early else lst[:2]
        if rest == ['<first>', '<second>'] and isinstance(new, tuple) and \
                len(new) == 2 and isinstance(new[0], Opaque) and \
                new[1] == (ExcT,):
            report.ok(R, 'early=%s -> %s' % (early, 'insert at 0' if early
                                             else 'append'))
        else:
            report.violation(R, 'register-handler:order:%s' % early,
                             reg.path, reg.node, reg.qualname,
                             'with early=%s the handler list becomes %r: the '
                             'new (handler, types) pair must be %s'
                             % (early, lst, 'first' if early else 'last'))


ExcT = 'ValueError'
