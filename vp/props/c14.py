"""C14 -- networking-thread exceptions are contained and routed like
try/except.  Decided on the path summaries (vp.pathsum) of
NetworkingThread.run, Connection._handle_exception and
register_exception_handler: which calls happen on which paths, with which
arguments, under which decisions, and how each path ends."""
import ast

from ..common import AnalysisError, rel
from ..callgraph import CallGraph
from ..connmodel import ConnModel, CONN
from .. import pathsum
from ..pathsum import struct, show, is_const, subterms


def run(report, db, tier):
    report.explanation = (
        'The routing of a fatal exception is a set of relations between '
        'effects in run() and _handle_exception(): which call precedes '
        'which, under which decisions a stage runs, what a raising handler '
        're-binds, how the loop is left and how the function ends.  They are '
        'decided on path summaries: every path through the function '
        '(helpers a later edit extracted are inlined, exceptions of calls '
        'inside try blocks are followed into their handlers, the handler '
        'loop is summarised by one symbolic iteration and its exits), with '
        'values traced to terms over the parameters and decisions in a '
        'normal form -- not on the spelling of the statements.')
    cg = CallGraph(db)
    M = ConnModel(db, cg)
    S = pathsum.PathSum(db, cg, inline_pred=pathsum.known_unit_pred())
    containment(report, db, S, M)
    chain(report, db, S, M)
    registration(report, db, S, M)
    deferred_write_error(report, db, S, M)
    decoder_errors_escape(report, db, cg, M)
    # the reactor's handler goes first (R14.0) and may claim an exception:
    # the only one that does claims exactly EOFError during the status probe
    from .. import shared
    R0e = report.rule('R14.0e', 'what a reactor\'s own handler swallows: '
                      'exactly EOFError, in the status probe, by falling '
                      'back to the default version')
    shared.eof_fallback_ps(report, R0e, db, shared.summariser(db, cg))
    R7d = report.rule('R14.7d', 'the decorator form registers like the '
                      'direct call, however often the decorator is applied')
    shared.decorator_form(report, R7d, db, shared.summariser(db, cg), M,
                          'exception_handler', 'register_exception_handler',
                          ('early',))
    # "closes the connection ... and is dispatched": the dispatcher calls
    # disconnect(immediate=True) before it offers the exception to anyone; if
    # that call raises, nothing is dispatched at all
    from ..common import borrow
    from . import c16
    borrow(report, 'R14.5t', "the dispatcher's own disconnect() does not "
           "raise on a dead peer: teardown guards take every OSError "
           "(C16's teardown rule)",
           lambda rid, c: c.startswith('teardown:'),
           lambda sub: c16.r5(sub, db, cg, M, S))
    borrow(report, 'R14.8', "a handler can connect again: the activity "
           "check of connect()/status() is the thread-slot condition the "
           "dispatch has already made false by marking the thread "
           "interrupted (C16's activity rules)",
           lambda rid, c: rid in ('R16.1', 'R16.3'),
           lambda sub: (c16.r1(sub, db, cg, M, _s1(db, cg, M)),
                        c16.r3(sub, db, cg, M)))
    borrow(report, 'R14.5r', "'unless a handler has already started a new "
           "one': the flag test and the close are one critical section, so "
           "a connection begun meanwhile is not the one closed (C16's rule)",
           lambda rid, c: c.startswith('dispatch:'),
           lambda sub: c16.r8(sub, db, cg, M, S))


def deferred_write_error(report, db, S, M):
    """The write phase of the thread's cycle catches an I/O error (also one
    an outgoing listener raised) and keeps it while the cycle reads; it must
    come out again.  On the path summaries of one cycle of _run: a path on
    which the handler was taken either raises, or has found the kept
    exception cleared -- and the only thing that clears it is a disconnect
    packet."""
    R = report.rule('R14.9', 'an exception caught in the write phase of the '
                    'networking cycle is re-raised at the end of that cycle '
                    '(unless a disconnect packet explains it): it is never '
                    'dropped, so it ends the thread and is dispatched')
    run_ = M.method(M.thread, '_run')
    paths = S.run(run_)
    cycles = []
    for p in paths:
        for e in p.events:
            if e.kind == 'loop' and not any(c is e.node for c, _ in cycles):
                cycles.append((e.node, e))
    n = 0
    dropped = cleared = None
    for node, lp in cycles:
        for q in lp.paths:
            hs = [nt for nt in q.notes if nt[0] == 'caught' and
                  isinstance(nt[1], ast.ExceptHandler)]
            hs = [nt for nt in hs if any(
                isinstance(x, ast.Call) and ast.unparse(x.func) ==
                'sys.exc_info' for b in nt[1].body for x in ast.walk(b))]
            if not hs:
                continue
            n += 1
            kept = {}       # phi term -> loop whose entry value is exc_info()
            direct = set()
            for ev in q.flat(('loop',)):
                for name, pre in (ev.pre or {}).items():
                    if is_exc_info_call(pre) and name in (ev.phis or {}):
                        kept[struct(ev.phis[name])] = (ev, name)
            for v in q.env.values():
                if is_exc_info_call(v):
                    direct.add(struct(v))
            # loop-carried copies after the reading loop: the phi that
            # leaves the loop is a fresh one; match by name
            names = set(nm for _, nm in kept.values())
            if q.outcome[0] == 'raise':
                continue
            consulted = None
            for a, pol, _ in q.conds:
                if a[1] == 'is' and a[2][1] == ('const', None):
                    t = a[2][0]
                    if struct(t) in direct or (
                            t[0] == 'phi' and t[1] in names):
                        consulted = pol
            for nt in q.notes:
                # the reading loop was left by `break` in an iteration that
                # had just cleared the kept exception (whether it may clear
                # it is the other clause)
                if nt[0] == 'left-by-break' and nt[2] is not None and any(
                        nt[2].env.get(nm) == ('const', None)
                        for nm in names):
                    consulted = True
            if consulted is not True:
                dropped = (q, hs[0][1])
            for ev, name in kept.values():
                for r in ev.paths:
                    if r.env.get(name) == ('const', None) and not any(
                            a[1] == '==' and ('const', 'disconnect') in a[2]
                            and pol for a, pol, _ in r.conds):
                        cleared = (r, ev.node)
    if not n:
        raise AnalysisError('_run: no path keeps a write-phase exception '
                            '(sys.exc_info() in a handler)', run_.node,
                            rel(run_.path))
    if dropped:
        q, h = dropped
        report.violation(R, 'deferred:dropped', run_.path, h, run_.qualname,
                         'the exception caught here is dropped when [%s]: '
                         'the cycle ends without re-raising it, so the '
                         'thread goes on, no handler is called and nothing '
                         'is recorded' % q.cond_text()[:200])
    elif cleared:
        r, nd = cleared
        report.violation(R, 'deferred:cleared', run_.path, nd, run_.qualname,
                         'the kept exception is cleared when [%s], not only '
                         'after a disconnect packet' % r.cond_text()[:160])
    else:
        report.ok(R, 'every cycle that caught a write error re-raises it or '
                  'has seen a disconnect packet (%d paths)' % n)
    report.floor('cycle paths that keep a write-phase exception', n, 4)


def decoder_errors_escape(report, db, cg, M):
    """'Any exception escaping ... packet decoding ... ends that thread':
    inside read_packet no handler takes what a packet's decoder raises (a
    handler meant for the table lookup that also covers Packet.read would
    turn a decoder's KeyError into "unknown packet")."""
    from .. import shared
    R = report.rule('R14.1d', 'an exception raised while a packet is decoded '
                    'leaves read_packet: no handler there takes it')
    rp = M.method(M.reactor, 'read_packet')
    S = shared.summariser(db, cg)
    n = 0
    bad = None
    for p in S.run(rp):
        dec = [e for e in p.flat(('call',)) if shared.is_packet_decode(e)]
        n += len(dec)
        nodes = set(id(e.node) for e in dec)
        for nt in p.notes:
            if nt[0] == 'caught' and len(nt) > 3 and id(nt[3]) in nodes:
                bad = (nt, p)
    if bad:
        nt, p = bad
        report.violation(R, 'decode:swallowed', rp.path, nt[1], rp.qualname,
                         'an exception of the packet decoder (%s) is taken '
                         'by `except %s` inside read_packet: the thread goes '
                         'on with a blank packet, no handler is called and '
                         'nothing is recorded' % (
                             ast.unparse(nt[3])[:40],
                             ast.unparse(nt[1].type) if nt[1].type is not None
                             else ''))
    else:
        report.ok(R, 'no handler in read_packet covers the decoder call '
                  '(%d decode sites on the paths)' % n)
    report.floor('packet decode sites in read_packet', n, 1)


def _s1(db, cg, M):
    # as in c16.run: the activity check may live in _check_connection
    chk = db.own_method(M.conn, '_check_connection')
    return pathsum.PathSum(db, cg, inline=[chk] if chk is not None else [],
                           inline_pred=pathsum.known_unit_pred())


def sy(n):
    return ('sym', n)


def at(base, *names):
    for n in names:
        base = ('attr', base, n)
    return base


def caught_notes(p):
    return [n for n in p.notes if n[0] == 'caught']


def is_exc_info_call(t):
    return isinstance(t, tuple) and t and t[0] == 'call' and \
        t[1] == ('ext', 'sys.exc_info') and not t[2]


# ---------------------------------------------------------------------------
def containment(report, db, S, M):
    R = report.rule('R14.1', 'containment: _run() and the exit callback run '
                    'inside a handler for Exception that first marks the '
                    'thread interrupted, then dispatches the caught '
                    'exception with its exc_info; the exit callback runs '
                    'only after _run() returned')
    run_ = M.method(M.thread, 'run')
    me = sy(run_.all_params[0])
    paths = S.run(run_)
    units = {}
    for name, ci in (('_run', M.thread), ('_handle_exit', M.conn),
                     ('_handle_exception', M.conn)):
        units[name] = M.method(ci, name)
    for name in ('_run', '_handle_exit'):
        fi = units[name]
        called = [e for p in paths for e in p.calls() if e.calls(fi)]
        if not called:
            report.violation(R, 'contain:missing:%s' % name, run_.path,
                             run_.node, run_.qualname,
                             'run() never calls %s' % name)
            continue
        nodes = set(id(e.node) for e in called)
        escaped = [p for p in paths if p.raises and len(p.outcome) > 3
                   and p.outcome[3] == 'implicit'
                   and id(p.outcome[2]) in nodes]
        routed = [p for p in paths if any(
            id(n[3]) in nodes and any(e.calls(units['_handle_exception'])
                                      for e in p.calls())
            for n in caught_notes(p))]
        swallowed = [p for p in paths if any(
            id(n[3]) in nodes for n in caught_notes(p)) and not any(
                e.calls(units['_handle_exception']) for e in p.calls())]
        if escaped or not routed:
            report.violation(R, 'contain:%s' % name, run_.path,
                             called[0].node, run_.qualname, 'an exception '
                             'from %s() is not caught by the thread wrapper: '
                             'it escapes without being routed to the '
                             'handlers' % name)
        elif swallowed:
            report.violation(R, 'contain:swallowed:%s' % name, run_.path,
                             called[0].node, run_.qualname, 'an exception '
                             'from %s() is caught by the thread wrapper but '
                             'dropped when [%s]: it reaches no handler and '
                             'is not recorded' % (
                                 name, swallowed[0].cond_text()))
        else:
            report.ok(R, '%s() is inside a handler that dispatches on every '
                      'path' % name)
    # the exit callback runs only after _run returned normally
    good = True
    for p in paths:
        evs = p.flat()
        for i, e in enumerate(evs):
            if not e.calls(units['_handle_exit']):
                continue
            before = [x for x in evs[:i] if x.calls(units['_run'])]
            raised = set(id(n[3]) for n in caught_notes(p))
            if not before or any(id(x.node) in raised for x in before):
                good = False
                report.violation(R, 'contain:exit-order', run_.path, e.node,
                                 run_.qualname, 'the exit callback can run '
                                 'without _run() having finished normally')
    if good:
        report.ok(R, '_handle_exit() only after _run() returned')
    disp = [(p, e) for p in paths for e in p.calls()
            if e.calls(units['_handle_exception'])]
    if not disp:
        report.violation(R, 'contain:no-dispatch', run_.path, run_.node,
                         run_.qualname, 'the wrapper never dispatches to '
                         '_handle_exception')
        return
    marked = args_ok = True
    site = disp[0][1].node
    for p, e in disp:
        evs = p.flat()
        i = evs.index(e)
        if not any(x.kind == 'store' and struct(x.base) == me
                   and x.attr == 'interrupt' and x.value == ('const', True)
                   for x in evs[:i]):
            marked = False
            site = e.node
        cn = caught_notes(p)
        args = list(e.args)
        if args and struct(args[0]) == at(me, 'connection'):
            args = args[1:]
        if not (cn and len(args) == 2 and args[0] == cn[-1][2]
                and is_exc_info_call(args[1])):
            args_ok = False
            site = e.node
    if marked:
        report.ok(R, 'self.interrupt = True precedes the dispatch on every '
                  'path')
    else:
        report.violation(R, 'contain:interrupt-mark', run_.path, site,
                         run_.qualname, 'the thread does not mark itself '
                         'interrupted before dispatching: a handler that '
                         'reconnects is refused as "already running", and '
                         'the connection is not closed')
    if args_ok:
        report.ok(R, 'dispatch receives (e, sys.exc_info())')
    else:
        report.violation(R, 'contain:dispatch-args', run_.path, site,
                         run_.qualname, 'the dispatch is not given the '
                         'caught exception and its exc_info')


# ---------------------------------------------------------------------------
def handler_list_attr(S, M):
    """The attribute register_exception_handler mutates."""
    reg = M.conn_method('register_exception_handler')
    me = sy(reg.all_params[0])
    attrs = set()
    for p in S.run(reg):
        for e in p.calls():
            if e.fn[0] == 'attr' and e.fn[2] in ('append', 'insert') and \
                    e.fn[1][0] == 'attr' and struct(e.fn[1][1]) == me:
                attrs.add(e.fn[1][2])
    return reg, attrs


def fh_state(p, fh):
    """What the path knows about the final handler: 'none', 'false',
    'callable', 'unset' (None or False) or None (nothing)."""
    is_none = is_false = member = None
    for a, pol, _ in p.conds:
        if a[1] == 'is' and struct(a[2][0]) == fh and is_const(a[2][1]):
            if a[2][1][1] is None:
                is_none = pol
            elif a[2][1][1] is False:
                is_false = pol
        elif a[1] == 'in' and struct(a[2][0]) == fh and a[2][1][0] in (
                'tuple', 'list', 'set') and set(a[2][1][1]) == {
                    ('const', None), ('const', False)}:
            member = pol
        elif a[1] == 'truth' and struct(a[2][0]) == fh:
            # `if final_handler:` -- None and False are both falsy
            if pol:
                member = False
    if is_none is True:
        return 'none'
    if is_false is True:
        return 'false'
    if member is False or (is_none is False and is_false is False):
        return 'callable'
    if member is True:
        if is_none is False:
            return 'false'
        if is_false is False:
            return 'none'
        return 'unset'
    if is_none is False:
        return 'not-none'
    return None


def chain(report, db, S, M):
    R0 = report.rule('R14.0', 'the reactor\'s own handler goes first; a true '
                     'result ends the dispatch')
    R2 = report.rule('R14.2', 'first match wins: the handlers are tried in '
                     'list order, a handler is called only when its types '
                     'are empty or match, with the current exception; '
                     'normal completion leaves the loop; a raising handler '
                     're-binds exc and exc_info and the loop goes on')
    R3 = report.rule('R14.3', 'the final handler stage runs after the loop '
                     'on both exits, exactly when the final handler is not '
                     'None/False, with the current exception; an exception '
                     'from it replaces the current one')
    R4 = report.rule('R14.4', 'the recorded exception is the current '
                     '(exc, exc_info), stored after the final stage')
    R5 = report.rule('R14.5', 'the connection is closed unless a handler '
                     'started a new one (interrupt flag of the newest slot)')
    R6 = report.rule('R14.6', 're-raise iff no final handler is configured '
                     'and nothing caught the exception')
    he = M.conn_method('_handle_exception')
    me = sy(he.all_params[0])
    p_exc, p_info = sy(he.all_params[1]), sy(he.all_params[2])
    fh = at(me, 'handle_exception')
    reg, attrs = handler_list_attr(S, M)
    if len(attrs) != 1:
        raise AnalysisError('register_exception_handler: expected one '
                            'handler list, found %s' % sorted(attrs),
                            reg.node, rel(reg.path))
    lattr = sorted(attrs)[0]
    paths = S.run(he)
    report.note('paths', '%s: %d paths' % (he.qualname, len(paths)))
    disconnect = M.conn_method('disconnect')

    def is_rx(e):
        return e.kind == 'call' and e.fn[0] in ('attr', 'fn') and \
            e.method() == 'handle_exception' and (
                (e.fn[0] == 'attr' and struct(e.fn[1]) == at(me, 'reactor'))
                or (e.fn[0] == 'fn' and struct(e.fn[2]) == at(me,
                                                              'reactor')))
    # -- R14.0 ---------------------------------------------------------------
    bad0 = None
    n_early = 0
    rest = []
    for p in paths:
        evs = p.flat(('call', 'store', 'loop'))
        if not evs or not is_rx(evs[0]):
            bad0 = 'the reactor\'s handler is not the first thing consulted'
            break
        rx = evs[0]
        if [struct(a) for a in rx.args] != [p_exc, p_info]:
            bad0 = 'the reactor\'s handler receives %s' % [
                show(a) for a in rx.args]
            break
        truth = [pol for a, pol, _ in p.conds if a[1] == 'truth'
                 and struct(a[2][0]) == struct(rx.res)]
        raised = any(n[3] is rx.node for n in caught_notes(p))
        escaped = p.raises and len(p.outcome) > 3 and \
            p.outcome[2] is rx.node
        if truth == [True]:
            n_early += 1
            if len(evs) > 1 or not p.returns:
                bad0 = 'a true result of the reactor\'s handler does not ' \
                    'end the dispatch'
                break
            continue
        if escaped:
            bad0 = 'an exception of the reactor\'s handler escapes the ' \
                'dispatch'
            break
        if not truth and not raised:
            bad0 = 'the result of the reactor\'s handler is ignored'
            break
        if raised and p.returns and not [
                e for e in evs[1:] if e.kind == 'loop' or (
                    e.kind == 'call' and e.fn != ('ext', 'sys.exc_info'))]:
            bad0 = 'when the reactor\'s handler itself raises (its ' \
                'reconnect failed), the dispatch ends as if it had handled ' \
                'the exception: no handler runs, nothing is recorded'
            break
        if p.raises and len(p.outcome) > 3:
            continue        # an exception nothing here is meant to catch
        rest.append(p)
    if bad0 or not n_early:
        report.violation(R0, 'reactor-handler', he.path, he.node,
                         he.qualname, bad0 or 'no path ends the dispatch on '
                         'a true result of the reactor\'s handler')
    else:
        report.ok(R0, 'reactor.handle_exception(exc, exc_info) first; true '
                  '-> return')
    if not rest:
        raise AnalysisError('_handle_exception: no path reaches the '
                            'registered handlers', he.node, rel(he.path))
    # -- R14.2 ---------------------------------------------------------------
    prob2 = []
    site2 = he.node
    loops = {}
    for p in rest:
        ls = [e for e in p.events if e.kind == 'loop']
        if len(ls) != 1:
            prob2.append('expected one loop over the registered handlers, '
                         'found %d' % len(ls))
            continue
        loops[id(ls[0].node)] = ls[0]
    cur_names = set()
    for lp in loops.values():
        site2 = lp.node
        it = lp.ctx
        while it[0] == 'op' and it[1] in ('list', 'tuple') and \
                len(it[2]) == 1:
            it = it[2][0]       # a snapshot keeps the order
        if struct(it) != at(me, lattr):
            prob2.append('the loop iterates %s, not self.%s in order'
                         % (show(lp.ctx), lattr))
            continue
        n_match = 0
        for bp in lp.paths:
            calls = [e for e in bp.flat(('call',))
                     if not is_exc_info_call(e.res)]
            hcalls = [e for e in calls if e.fn[0] == 'op'
                      and e.fn[1] == 'index' and e.fn[2][0][0] == 'elem'
                      and e.fn[2][1] == ('const', 0)]
            if len(hcalls) != len(calls):
                prob2.append('the loop body calls %s' % [
                    show(e.fn) for e in calls if e not in hcalls])
                continue
            # decisions about the types of this entry
            nonempty = inst = None
            inst_arg = None
            for a, pol, _ in bp.conds:
                if a[1] == 'truth' and a[2][0][0] == 'op' and \
                        a[2][0][1] == 'index' and a[2][0][2][0][0] == 'elem' \
                        and a[2][0][2][1] == ('const', 1):
                    nonempty = pol
                elif a[1] == 'isinstance' and a[2][1][0] == 'op' and \
                        a[2][1][1] == 'index' and a[2][1][2][0][0] == 'elem' \
                        and a[2][1][2][1] == ('const', 1):
                    inst = pol
                    inst_arg = a[2][0]
            matches = (nonempty is False) or (nonempty is True
                                              and inst is True)
            if not hcalls:
                if matches:
                    prob2.append('a matching handler is not called [%s]'
                                 % bp.cond_text())
                if bp.outcome[0] == 'break' and len(bp.outcome) == 1:
                    prob2.append('the loop is left without a handler '
                                 'having completed')
                continue
            if len(hcalls) > 1:
                prob2.append('a handler is called %d times in one '
                             'iteration' % len(hcalls))
                continue
            hc = hcalls[0]
            n_match += 1
            if not matches:
                prob2.append('a handler is called although its types do '
                             'not match (decisions on the path: [%s]); it '
                             'must be guarded by `not types or '
                             'isinstance(exc, types)`' % bp.cond_text())
                continue
            if len(hc.args) != 2:
                prob2.append('the handler receives %d arguments'
                             % len(hc.args))
                continue
            a0, a1 = hc.args
            if inst_arg is not None and struct(inst_arg) != struct(a0):
                prob2.append('the type test is on %s but the handler gets '
                             '%s' % (show(inst_arg), show(a0)))
            raised = [n for n in bp.notes if n[0] == 'caught'
                      and n[3] is hc.node]
            if raised:
                caught = raised[-1][2]
                # the iteration must end with both variables re-bound
                n0 = [k for k, v in bp.env.items() if v == caught
                      and not k.startswith('<')]
                n1 = [k for k, v in bp.env.items() if is_exc_info_call(v)]
                ok0 = a0[0] == 'phi' and a0[1] in n0
                ok1 = a1[0] == 'phi' and a1[1] in n1
                if not (ok0 and ok1):
                    prob2.append('a raising handler does not re-bind both '
                                 'the exception and its exc_info for the '
                                 'handlers that follow (passed: %s, %s; '
                                 're-bound: %s, %s)' % (show(a0), show(a1),
                                                        n0, n1))
                else:
                    cur_names.add((a0[1], a1[1]))
                if bp.outcome[0] in ('break', 'return', 'raise'):
                    prob2.append('a raising handler ends the loop')
            else:
                # `break`, or `return` from the helper the loop lives in
                if not ((bp.outcome[0] == 'break' and len(bp.outcome) == 1)
                        or (bp.outcome[0] == 'return'
                            and lp.fi is not he)):
                    prob2.append('normal completion of a handler does not '
                                 'leave the loop: later handlers would run '
                                 'as well')
        if not n_match:
            prob2.append('no iteration calls a handler')
    if prob2:
        report.violation(R2, 'handler-loop', he.path, site2, he.qualname,
                         '; '.join(sorted(set(prob2))))
    else:
        report.ok(R2, 'loop over self.%s in order: guarded call with the '
                  'current exception; return -> break; raise -> re-bind and '
                  'go on' % lattr)
    names = sorted(cur_names)[0] if len(cur_names) == 1 else None

    def current(t, which):
        """t denotes the current exception (which=0) / exc_info (1)"""
        if t[0] == 'phi' and names and t[1] == names[which]:
            return True
        if struct(t) == (p_exc, p_info)[which]:
            return True
        if which == 0 and t[0] == 'exc':
            return True
        if which == 1 and is_exc_info_call(t):
            return True
        return False
    # -- R14.3 / R14.4 / R14.5 / R14.6 -----------------------------------------
    prob3, prob4, prob5, prob6 = [], [], [], []
    seen3 = set()
    seen6 = set()
    for p in rest:
        top = [e for e in p.events if e.kind in ('call', 'store', 'loop')]
        li = [i for i, e in enumerate(top) if e.kind == 'loop']
        if len(li) != 1:
            continue
        after = top[li[0] + 1:]
        exhausted = any(n[0] == 'exhausted' for n in p.notes)
        broke = any(n[0] == 'left-by-break' or (
            n[0] == 'left-by-return' and top[li[0]].fi is not he)
            for n in p.notes)
        state = fh_state(p, fh)
        finals = [e for e in after if e.kind == 'call'
                  and struct(e.fn) == fh]
        done = p.returns or (p.raises and len(p.outcome) == 3)
        # R14.3
        if state == 'callable':
            seen3.add(('callable', broke))
            if len(finals) != 1:
                prob3.append('the final handler is called %d times although '
                             'it is set [%s]' % (len(finals), p.cond_text()))
            elif not (len(finals[0].args) == 2
                      and current(finals[0].args[0], 0)
                      and current(finals[0].args[1], 1)):
                prob3.append('the final handler receives %s' % [
                    show(a) for a in finals[0].args])
        elif state in ('none', 'false', 'unset'):
            seen3.add((state, broke))
            if finals:
                prob3.append('the final handler is called although it is '
                             '%s' % state)
        elif finals:
            prob3.append('the final handler is called without testing '
                         'that it is neither None nor False [%s]'
                         % p.cond_text())
        elif done:
            prob3.append('whether the final handler runs does not depend '
                         'on it being set [%s]' % p.cond_text())
        # R14.4
        rec = {}
        for e in after:
            if e.kind == 'store' and struct(e.base) == me and e.attr in (
                    'exception', 'exc_info'):
                rec[e.attr] = e
        if done:
            if set(rec) != {'exception', 'exc_info'}:
                prob4.append('the exception is not recorded on the path '
                             '[%s]' % p.cond_text())
            else:
                want0 = want1 = None
                fr = []
                if finals:
                    fr = [n for n in caught_notes(p)
                          if n[3] is finals[0].node]
                    if fr:
                        want0 = fr[-1][2]
                    elif len(finals[0].args) == 2:
                        want0, want1 = finals[0].args
                    if any(top.index(rec[k]) < top.index(finals[0])
                           for k in rec):
                        prob4.append('the exception is recorded before the '
                                     'final handler ran: what the final '
                                     'handler raises is lost')
                v0, v1 = rec['exception'].value, rec['exc_info'].value
                if want0 is not None and v0 != want0:
                    prob4.append('self.exception = %s, not the current '
                                 'exception %s' % (show(v0), show(want0)))
                elif want0 is None and not current(v0, 0):
                    prob4.append('self.exception = %s' % show(v0))
                if want1 is not None and v1 != want1:
                    prob4.append('self.exc_info = %s, not %s'
                                 % (show(v1), show(want1)))
                elif want1 is None and not current(v1, 1):
                    prob4.append('self.exc_info = %s' % show(v1))
                if fr and not is_exc_info_call(v1):
                    prob4.append('after the final handler raised, '
                                 'self.exc_info = %s' % show(v1))
        # R14.5
        closes = [e for e in after if e.kind == 'call'
                  and e.calls(disconnect)]
        nnt = at(me, 'new_networking_thread')
        nt = at(me, 'networking_thread')
        has_new = None
        flags = {}
        for a, pol, _ in p.conds:
            if a[1] == 'truth' and struct(a[2][0]) == nnt:
                has_new = pol
            elif a[1] == 'is' and struct(a[2][0]) == nnt and \
                    a[2][1] == ('const', None):
                has_new = not pol
            elif a[1] == 'truth' and a[2][0][0] == 'attr' and \
                    a[2][0][2] == 'interrupt':
                flags[struct(a[2][0][1])] = pol
        if done:
            slot = nnt if has_new else nt if has_new is False else None
            if slot is None or slot not in flags or len(flags) != 1:
                prob5.append('the close is not decided by the interrupt '
                             'flag of the newest thread slot (new thread if '
                             'any, else current): decisions [%s]'
                             % p.cond_text())
            elif bool(closes) != flags[slot]:
                prob5.append('the connection is %s although the newest '
                             'thread\'s interrupt flag is %s' % (
                                 'closed' if closes else 'left open',
                                 flags[slot]))
            for c in closes:
                kw = dict(c.kwargs)
                pos = [a for a in c.args if struct(a) != me]
                imm = kw.get('immediate', pos[0] if pos else None)
                if imm != ('const', True):
                    prob5.append('the close is not immediate')
        # R14.6
        should = (state == 'none') and exhausted and not broke
        if p.raises and len(p.outcome) == 3:
            seen6.add(True)
            if not should:
                prob6.append('re-raises when the final handler is %s and '
                             'the exception was %s' % (
                                 state, 'caught' if broke else 'not caught'))
            v = p.outcome[1]
            if not (v[0] == 'call' and v[1][0] == 'attr'
                    and v[1][2] == 'with_traceback'):
                prob6.append('re-raises %s' % show(v))
            else:
                src = v[1][1]
                tb = v[2][0] if v[2] else None
                if not (src[0] == 'op' and src[1] == 'index' and
                        src[2][1] == ('const', 1) and current(src[2][0], 1)
                        and tb is not None and tb[0] == 'op'
                        and tb[1] == 'index' and tb[2][1] == ('const', 2)
                        and tb[2][0] == src[2][0]):
                    prob6.append('re-raises %s' % show(v))
        elif p.returns:
            seen6.add(False)
            if should:
                prob6.append('swallows the exception although no final '
                             'handler is configured and nothing caught it')
    if not {('callable', True), ('callable', False)} <= seen3 and not prob3:
        prob3.append('the final stage is not reached on both exits of the '
                     'loop (%s)' % sorted(seen3))
    if seen6 != {True, False} and not prob6:
        prob6.append('re-raise and swallow are not both possible')
    for R, key, prob, good in (
            (R3, 'final-stage', prob3, 'final handler called with the '
             'current exception iff it is neither None nor False, on both '
             'loop exits'),
            (R4, 'record', prob4, 'self.exception / self.exc_info = current '
             'pair, after the final stage'),
            (R5, 'close', prob5, 'disconnect(immediate=True) iff the newest '
             'slot\'s interrupt flag is set'),
            (R6, 'reraise', prob6, 're-raise iff final handler is None and '
             'the loop was exhausted')):
        if prob:
            report.violation(R, key, he.path, he.node, he.qualname,
                             '; '.join(sorted(set(prob))[:4]))
        else:
            report.ok(R, good)


# ---------------------------------------------------------------------------
def registration(report, db, S, M):
    R = report.rule('R14.7', 'registration order: early=True inserts before '
                    'all existing handlers, otherwise appends')
    reg, attrs = handler_list_attr(S, M)
    if len(attrs) != 1:
        report.violation(R, 'register-handler:list', reg.path, reg.node,
                         reg.qualname, 'handlers are registered in %s'
                         % sorted(attrs))
        return
    attr = sorted(attrs)[0]
    me = sy(reg.all_params[0])
    lst = at(me, attr)
    a = reg.node.args
    hparam = reg.all_params[1]
    tparam = a.vararg.arg if a.vararg else None
    seen = {}
    prob = []
    for p in S.run(reg):
        if not p.returns:
            continue
        adds = [e for e in p.calls() if e.fn[0] == 'attr'
                and struct(e.fn[1]) == lst and e.fn[2] in (
                    'append', 'insert', 'extend', 'appendleft')]
        early = None
        for c, pol, _ in p.conds:
            if c[1] == 'truth':
                t = c[2][0]
                if any(x == ('const', 'early') for x in subterms(t)) or \
                        struct(t) == sy('early'):
                    early = pol
        if early is None:
            prob.append('the position does not depend on `early`')
            continue
        if len(adds) != 1:
            prob.append('early=%s adds %d entries' % (early, len(adds)))
            continue
        e = adds[0]
        if e.fn[2] == 'append':
            pos, entry = 'last', e.args[0] if e.args else None
        elif e.fn[2] == 'insert' and len(e.args) == 2 and \
                e.args[0] == ('const', 0):
            pos, entry = 'first', e.args[1]
        elif e.fn[2] == 'insert' and len(e.args) == 2 and \
                struct(e.args[0]) == ('op', 'len', (lst,)):
            pos, entry = 'last', e.args[1]      # insert(len(l), x): append
        else:
            pos, entry = repr(e), None
        seen[early] = pos
        if entry is not None and entry[0] == 'nt' and len(entry) == 3:
            # a namedtuple is the tuple of its fields, in order
            entry = ('tuple', tuple(entry[2]))
        if entry is None or entry[0] != 'tuple' or len(entry[1]) != 2 or \
                struct(entry[1][0]) != sy(hparam) or (
                    tparam and struct(entry[1][1]) != sy('*' + tparam)):
            prob.append('the registered entry is %s, not (handler, types)'
                        % (show(entry) if entry else None))
    if seen != {True: 'first', False: 'last'} and not prob:
        prob.append('early handlers go %s, others %s; early=True must '
                    'insert at 0 and the default must append' % (
                        seen.get(True), seen.get(False)))
    if prob:
        report.violation(R, 'register-handler:order', reg.path, reg.node,
                         reg.qualname, '; '.join(sorted(set(prob))))
    else:
        report.ok(R, 'early=True -> insert at 0; otherwise append; entry = '
                  '(handler, types)')
