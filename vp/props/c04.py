"""C04 -- block positions use the 26/12/26 packing of the connection's
protocol; chunk-section and block-record packings are exact inverses.

Proof over code shape by bit-provenance abstract interpretation (vp.bitprov)
run for every known protocol version."""
import ast
import json
import os

from ..common import AnalysisError, VERIF, rel
from ..fold import Folder
from ..protocol import Proto
from .. import bitprov
from ..bitprov import BV, Rec, Seq, BitInterp

BASIC = 'minecraft.networking.types.basic'
BLOCK = 'minecraft.networking.packets.clientbound.play.block_change_packet'


def sample_values(f):
    """boundary values of a field of f['width'] bits"""
    w = f['width']
    if f['signed']:
        vals = {0, 1, -1, 2 ** (w - 1) - 1, -2 ** (w - 1)}
        for k in range(w - 1):
            vals.add(2 ** k)
            vals.add(-2 ** k)
    else:
        vals = {0, 1, 2 ** w - 1}
        for k in range(w):
            vals.add(2 ** k)
    return sorted(vals)


def concrete_witness(F, ctx, send_fi, vparam, build, read_fi, getres, fields):
    """The same packer / unpacker, interpreted on concrete field values
    (constant bit vectors: every operation folds, nothing is lost): the first
    value that does not come back, as text, or None.  Nothing is executed --
    it is the abstract interpreter run on constants."""
    names = sorted(fields)
    zero = {n: 0 for n in names}
    cases = []
    for n in names:
        for x in sample_values(fields[n]):
            c = dict(zero)
            c[n] = x
            cases.append(c)
    for pick in (min, max):
        cases.append({n: pick(sample_values(fields[n])) for n in names})
    for c in cases:
        try:
            pk = run_packer(F, send_fi, ctx, vparam,
                            build({n: BV.const(x) for n, x in c.items()}))
            up = run_unpacker(F, read_fi, ctx,
                              [(cd, w) for cd, w, _ in pk.out])
            got = getres(up)
        except AnalysisError:
            return None
        if got is None:
            return None
        for n in names:
            g = got.get(n)
            if not isinstance(g, BV) or g.const_value() is None:
                return None
            if g.const_value() != c[n]:
                return '%s = %d is decoded as %d (other fields %s)' % (
                    n, c[n], g.const_value(),
                    {k: v for k, v in c.items() if k != n})
    return None


def undecidable(got, want):
    """The decoded value has bits the analysis lost track of (TOP) and every
    bit it did follow agrees with the input: neither equal nor different can
    be claimed."""
    from ..bitprov import TOP
    if not isinstance(got, BV):
        return False
    pairs = list(zip(got.bits, want.bits)) + [(got.hi, want.hi)]
    if not any(g == TOP for g, _ in pairs):
        return False
    return all(g == TOP or g == w for g, w in pairs)


def ctx_param(fi):
    for p in fi.params:
        if p in ('context', '_context', 'ctx'):
            return p
    return None


def make_inputs(fields):
    return {n: BV.var(n, f['width'], f['signed']) for n, f in fields.items()}


def run_packer(F, fi, ctx, value_param, value, extra=None):
    bi = BitInterp(F, fi, ctx)
    env = {}
    for p in fi.params:
        env[p] = ('param', p)
    env[value_param] = value
    cp = ctx_param(fi)
    if cp:
        env[cp] = ctx
    bi.run(env)
    return bi


def run_unpacker(F, fi, ctx, words):
    bi = BitInterp(F, fi, ctx)
    bi.inputs = list(words)
    env = {}
    for p in fi.params:
        env[p] = ('param', p)
    cp = ctx_param(fi)
    if cp:
        env[cp] = ctx
    bi.run(env)
    return bi


def result_fields(res, order):
    """Map a constructor result (kw or positional) onto field names."""
    if not isinstance(res, Rec):
        return None
    out = {}
    for k, v in res.attrs.items():
        if k.startswith('#'):
            i = int(k[1:])
            if i < len(order):
                out[order[i]] = v
        else:
            out[k] = v
    return out


class Agg(object):
    """Aggregates per-version verdicts into one finding per construct."""

    def __init__(self, report, P):
        self.report = report
        self.P = P
        self.bad = {}
        self.pending = []
        self.tried = {}

    def undecided(self, err, retry=None, where=None):
        """a field the bit analysis lost track of: the concrete retry looks
        for a value that does not come back; without one it is reported as
        'nothing decided' at the end, unless something else is definitely
        wrong"""
        if retry is not None:
            key = where[:2]
            if key not in self.tried:
                self.tried[key] = retry()
            w = self.tried[key]
            if w:
                rid, construct, fi, v = where
                self.fail(rid, construct, fi, None,
                          'a value does not survive the round trip: ' + w, v)
                return
        self.pending.append(err)

    def fail(self, rid, construct, fi, node, msg, v):
        key = (rid, construct)
        if key not in self.bad:
            self.bad[key] = dict(fi=fi, node=node, msg=msg, versions=[v])
        else:
            self.bad[key]['versions'].append(v)

    def flush(self):
        if self.pending and not self.bad:
            raise self.pending[0]
        for (rid, construct), d in self.bad.items():
            vs = d['versions']
            self.report.violation(
                rid, construct, d['fi'].path, d['node'] or d['fi'].node,
                d['fi'].qualname, '%s [first at protocol %s; %d version(s)]'
                % (d['msg'], self.P.vname(vs[0]), len(vs)))


def check_word(word, bits, carrier):
    if word.has_top():
        return 'the packed word contains bits the analysis cannot attribute ' \
               '(overlapping or non-constant shifts)'
    if word.overlap:
        return 'two fields overlap in the packed word'
    if not word.zero_from(bits):
        return 'the packed word does not fit the %d-bit carrier %s' % (
            bits, carrier)
    return None


def layout_matches(words, fields, layouts):
    """Every declared field bit appears exactly once, at the reference
    offset; all other bits are 0."""
    probs = []
    seen = {}
    for wi, (word, lay) in enumerate(zip(words, layouts)):
        got = bitprov.field_layout(word, list(fields))
        for nm in fields:
            g = got.get(nm)
            want = lay.get(nm)
            if want is None:
                if g is not None or any(
                        isinstance(b, tuple) and b[0] == nm
                        for b in word.bits):
                    probs.append('field %s appears in word %d where the '
                                 'layout has none' % (nm, wi))
                continue
            if g is None:
                probs.append('field %s is missing from / not contiguous in '
                             'word %d (%s)' % (nm, wi, word.describe()))
            elif list(g) != list(want):
                probs.append('field %s occupies bits %d..%d (width %d), '
                             'layout prescribes offset %d width %d'
                             % (nm, g[0], g[0] + g[1] - 1, g[1], want[0],
                                want[1]))
            seen[nm] = seen.get(nm, 0) + 1
        for p, b in enumerate(word.bits):
            if b == 1:
                probs.append('constant 1 at bit %d of word %d' % (p, wi))
                break
    for nm in fields:
        if seen.get(nm, 0) != 1:
            probs.append('field %s is packed %d times' % (nm,
                                                          seen.get(nm, 0)))
    return probs


def run(report, db, tier):
    ref = json.load(open(os.path.join(VERIF, 'reference', 'bitlayouts.json')))
    report.explanation = (
        'Packer and unpacker of Position, ChunkSectionPos and the block '
        'Record are abstractly executed over symbolic bit vectors for every '
        'known protocol version; obligations: fields disjoint, cover, at '
        'the reference offsets; unpack(pack(v)) = v bit for bit including '
        'sign extension; one shared version boundary that puts <= 404 on '
        'the old and >= 477 on the new layout.')
    report.trusted_base = ['CPython ast', 'Python integer operator '
                           'semantics as modelled by vp.bitprov',
                           'struct >Q / VarLong carriers (C02, C03)',
                           'reference/bitlayouts.json']
    P = Proto(db)
    F = P.F
    versions = P.known
    agg = Agg(report, P)
    R1 = report.rule('R04.1', 'Position packer: fields disjoint, cover the '
                     'word, at the reference offsets of the arm')
    R2 = report.rule('R04.2', 'Position unpacker inverts the packer bit for '
                     'bit, sign extension at each field width')
    R3 = report.rule('R04.3', 'one switch-over, shared by both sides: '
                     'versions <= 404 old layout, >= 477 new layout')
    R4 = report.rule('R04.4', 'ChunkSectionPos 22/22/20 packing and inverse')
    R5 = report.rule('R04.5', 'block Record packing and inverse either side '
                     'of 741, carriers agree')

    pos_ci = db.get_class(BASIC, 'Position')
    psend = db.find_method(pos_ci, 'send_with_context')
    pread = db.find_method(pos_ci, 'read_with_context')
    mb_ci = db.get_class(BLOCK, 'MultiBlockChangePacket')
    csp = db.get_class(BLOCK, 'MultiBlockChangePacket.ChunkSectionPos')
    rec = db.get_class(BLOCK, 'MultiBlockChangePacket.Record')
    csend, cread = db.own_method(csp, 'send'), db.own_method(csp, 'read')
    rsend = db.own_method(rec, 'send_with_context')
    rread = db.own_method(rec, 'read_with_context')
    for nm, f in (('Position.send_with_context', psend),
                  ('Position.read_with_context', pread),
                  ('ChunkSectionPos.send', csend),
                  ('ChunkSectionPos.read', cread),
                  ('Record.send_with_context', rsend),
                  ('Record.read_with_context', rread)):
        if f is None or f.cls is None or f.cls.module.name not in (BASIC,
                                                                  BLOCK):
            raise AnalysisError('anchor vanished: %s' % nm)
        report.note('functions', f.qualname)

    pr = ref['position']
    arms = {}
    idx404 = P.index.get(pr['last_old_release'])
    idx477 = P.index.get(pr['first_new_release'])
    if idx404 is None or idx477 is None:
        raise AnalysisError('release boundaries 404/477 are not known '
                            'versions')
    n_runs = 0
    for v in versions:
        ctx = P.ctx(v)
        # ---------------- Position
        inp = make_inputs(pr['fields'])
        pk = run_packer(F, psend, ctx, psend.all_params[0],
                        Seq([inp['x'], inp['y'], inp['z']]))
        n_runs += 1
        arm = None
        if len(pk.out) != 1:
            agg.fail(R1, 'position:pack:words', psend, None,
                     'packer sends %d words, expected one 64-bit word'
                     % len(pk.out), v)
        else:
            codec, word, node = pk.out[0]
            p0 = check_word(word, pr['word_bits'], pr['carrier'])
            if codec != pr['carrier']:
                agg.fail(R1, 'position:pack:carrier', psend, node,
                         'position is sent as %s, not %s' % (codec,
                                                             pr['carrier']),
                         v)
            if p0:
                agg.fail(R1, 'position:pack:word', psend, node, p0, v)
            else:
                for a in ('old', 'new'):
                    if not layout_matches([word], pr['fields'], [pr[a]]):
                        arm = a
                if arm is None:
                    agg.fail(R1, 'position:pack:layout', psend, node,
                             'packed word matches neither layout: %s; %s'
                             % (word.describe(), '; '.join(layout_matches(
                                 [word], pr['fields'], [pr['new']])[:2])), v)
                else:
                    report.ok(R1)
            # unpack(pack())
            up = run_unpacker(F, pread, ctx, [(codec, word)])
            n_runs += 1
            got = result_fields(up.result, ['x', 'y', 'z'])
            if [c for c, _, _ in up.read_log] != [pr['carrier']]:
                agg.fail(R2, 'position:unpack:carrier', pread, None,
                         'position is read as %s, not %s' % (
                             [c for c, _, _ in up.read_log], pr['carrier']),
                         v)
            if got is None or set(got) != {'x', 'y', 'z'}:
                raise AnalysisError('Position.read_with_context: result is '
                                    'not Position(x, y, z)', pread.node,
                                    rel(pread.path))
            for nm in ('x', 'y', 'z'):
                if isinstance(got[nm], BV) and got[nm].same(inp[nm]):
                    report.ok(R2)
                elif undecidable(got[nm], inp[nm]):
                    agg.undecided(AnalysisError(
                        'Position: the decoded %s is not followed bit by bit '
                        '(an operation the bit analysis does not interpret); '
                        'nothing decided' % nm, pread.node, rel(pread.path)),
                        retry=lambda ctx=ctx: concrete_witness(
                            F, ctx, psend, psend.all_params[0],
                            lambda d: Seq([d['x'], d['y'], d['z']]), pread,
                            lambda up: result_fields(up.result,
                                                     ['x', 'y', 'z']),
                            pr['fields']),
                        where=(R2, 'position:roundtrip:%s' % nm, pread, v))
                else:
                    d = got[nm].describe() if isinstance(got[nm], BV) \
                        else repr(got[nm])
                    agg.fail(R2, 'position:roundtrip:%s' % nm, pread, None,
                             'decoded %s is not the encoded %s for every '
                             'in-range value (signed %d-bit): decoded bits '
                             'are {%s}' % (nm, nm, pr['fields'][nm]['width'],
                                           d), v)
        arms[v] = arm
        # ---------------- ChunkSectionPos
        cr = ref['chunk_section_pos']
        inp = make_inputs(cr['fields'])
        pk = run_packer(F, csend, ctx, csend.all_params[1],
                        Seq([inp['x'], inp['y'], inp['z']]))
        n_runs += 1
        if len(pk.out) != 1:
            agg.fail(R4, 'csp:pack:words', csend, None,
                     'packer sends %d words' % len(pk.out), v)
        else:
            codec, word, node = pk.out[0]
            p0 = check_word(word, cr['word_bits'], cr['carrier'])
            if codec != cr['carrier']:
                agg.fail(R4, 'csp:pack:carrier', csend, node,
                         'sent as %s, not %s' % (codec, cr['carrier']), v)
            if p0:
                agg.fail(R4, 'csp:pack:word', csend, node, p0, v)
            else:
                pp = layout_matches([word], cr['fields'], [cr['layout']])
                if pp:
                    agg.fail(R4, 'csp:pack:layout', csend, node,
                             '; '.join(pp[:2]), v)
                else:
                    report.ok(R4)
            up = run_unpacker(F, cread, ctx, [(codec, word)])
            n_runs += 1
            got = result_fields(up.result, ['x', 'y', 'z'])
            if [c for c, _, _ in up.read_log] != [cr['carrier']]:
                agg.fail(R4, 'csp:unpack:carrier', cread, None,
                         'read as %s' % [c for c, _, _ in up.read_log], v)
            if got is None or set(got) != {'x', 'y', 'z'}:
                raise AnalysisError('ChunkSectionPos.read: result is not '
                                    'cls(x, y, z)', cread.node,
                                    rel(cread.path))
            for nm in ('x', 'y', 'z'):
                if isinstance(got[nm], BV) and got[nm].same(inp[nm]):
                    report.ok(R4)
                elif undecidable(got[nm], inp[nm]):
                    agg.undecided(AnalysisError(
                        'ChunkSectionPos: the decoded %s is not followed bit '
                        'by bit; nothing decided' % nm, cread.node,
                        rel(cread.path)),
                        retry=lambda ctx=ctx: concrete_witness(
                            F, ctx, csend, csend.all_params[1],
                            lambda d: Seq([d['x'], d['y'], d['z']]), cread,
                            lambda up: result_fields(up.result,
                                                     ['x', 'y', 'z']),
                            cr['fields']),
                        where=(R4, 'csp:roundtrip:%s' % nm, cread, v))
                else:
                    d = got[nm].describe() if isinstance(got[nm], BV) \
                        else repr(got[nm])
                    agg.fail(R4, 'csp:roundtrip:%s' % nm, cread, None,
                             'decoded %s differs from the encoded %s '
                             '(signed %d-bit): {%s}' % (
                                 nm, nm, cr['fields'][nm]['width'], d), v)
        # ---------------- Record
        new = P.index[v] >= P.index[ref['record_new']['since']]
        rr = ref['record_new'] if new else ref['record_old']
        inp = make_inputs(rr['fields'])
        pk = run_packer(F, rsend, ctx, rsend.all_params[1], Rec(inp))
        n_runs += 1
        codecs = [c for c, _, _ in pk.out]
        words = [w for _, w, _ in pk.out]
        if codecs != rr['carrier']:
            agg.fail(R5, 'record:pack:carrier:%s' % ('new' if new else 'old'),
                     rsend, None, 'record is sent as %s, protocol prescribes '
                     '%s' % (codecs, rr['carrier']), v)
        else:
            bad = False
            for w, bits, c, (_, _, node) in zip(words, rr['word_bits'],
                                                rr['carrier'], pk.out):
                p0 = check_word(w, bits, c)
                if p0:
                    bad = True
                    agg.fail(R5, 'record:pack:word:%s' % (
                        'new' if new else 'old'), rsend, node, p0, v)
            if not bad:
                pp = layout_matches(words, rr['fields'], rr['layout'])
                if pp:
                    agg.fail(R5, 'record:pack:layout:%s' % (
                        'new' if new else 'old'), rsend, None,
                        '; '.join(pp[:2]), v)
                else:
                    report.ok(R5)
            up = run_unpacker(F, rread, ctx, list(zip(codecs, words)))
            n_runs += 1
            if [c for c, _, _ in up.read_log] != rr['carrier']:
                agg.fail(R5, 'record:unpack:carrier:%s' % (
                    'new' if new else 'old'), rread, None,
                    'record is read as %s but written as %s' % (
                        [c for c, _, _ in up.read_log], rr['carrier']), v)
            res = up.result
            if not isinstance(res, Rec):
                raise AnalysisError('Record.read_with_context does not '
                                    'return the record', rread.node,
                                    rel(rread.path))
            for nm in rr['fields']:
                g = res.attrs.get(nm)
                if isinstance(g, BV) and g.same(inp[nm]):
                    report.ok(R5)
                elif undecidable(g, inp[nm]):
                    agg.undecided(AnalysisError(
                        'Record: the decoded %s is not followed bit by bit; '
                        'nothing decided' % nm, rread.node, rel(rread.path)),
                        retry=lambda ctx=ctx, rr=rr: concrete_witness(
                            F, ctx, rsend, rsend.all_params[1],
                            lambda d: Rec(d), rread,
                            lambda up: up.result.attrs if isinstance(
                                up.result, Rec) else None, rr['fields']),
                        where=(R5, 'record:roundtrip:%s:%s' % (
                            'new' if new else 'old', nm), rread, v))
                else:
                    d = g.describe() if isinstance(g, BV) else repr(g)
                    agg.fail(R5, 'record:roundtrip:%s:%s' % (
                        'new' if new else 'old', nm), rread, None,
                        'decoded %s differs from the encoded %s: {%s}'
                        % (nm, nm, d), v)
    # "the connection's protocol": which side of the switch a version is on
    # is decided by its place in the order of publication, which the library
    # derives from the record list -- the list itself must be chronological
    from ..common import borrow
    from . import c08
    borrow(report, 'R04.7', "the order the layout switch relies on is "
           "chronological (C08's record rule)",
           lambda rid, c: c.startswith('chronology:'),
           lambda sub: c08.check_records(sub, db, c08.records_of(F, db),
                                         sub.rule('R08.3', '')))
    agg.flush()
    report.note('abstract runs', n_runs)
    report.note('versions', len(versions))
    report.floor('abstract packer/unpacker runs', n_runs, 6 * 300)

    # R04.3 -- boundary placement and single switch-over
    order = sorted(versions, key=lambda v: P.index[v])
    seq = [arms[v] for v in order]
    if None not in seq:
        flips = [(order[i], seq[i - 1], seq[i]) for i in range(1, len(seq))
                 if seq[i] != seq[i - 1]]
        if len(flips) == 1 and flips[0][1] == 'old' and flips[0][2] == 'new':
            b = flips[0][0]
            if P.index[b] > idx404 and P.index[b] <= idx477:
                report.ok(R3, 'single switch-over at %s: every version '
                          '<= 404 packs x/y/z, every version >= 477 packs '
                          'x/z/y' % P.vname(b))
            else:
                side = 'a release up to 1.13.2 uses the new layout' \
                    if P.index[b] <= idx404 else \
                    'a release from 1.14 on still uses the old layout'
                report.violation(
                    R3, 'position:boundary', psend.path, psend.node,
                    psend.qualname, 'layout switches at %s: %s'
                    % (P.vname(b), side))
        else:
            report.violation(
                R3, 'position:switch-count', psend.path, psend.node,
                psend.qualname, 'layout switches %d times along the version '
                'order (%s)' % (len(flips), ', '.join(
                    '%s:%s->%s' % (P.vname(a), b, c) for a, b, c in
                    flips[:4])))
    # the layout is chosen from packet.context: a packet sent on a connection
    # must carry that connection's context
    from ..callgraph import CallGraph
    from ..connmodel import ConnModel
    from .. import shared
    cg = CallGraph(db)
    R6 = report.rule('R04.6', 'of the connection\'s protocol: write_packet '
                     'imposes the connection\'s context on every packet')
    shared.context_imposed(report, R6, db, shared.summariser(db, cg),
                           ConnModel(db, cg))


def boundary_constants(fi):
    out = set()
    for n in ast.walk(fi.node):
        if isinstance(n, ast.Call) and isinstance(n.func, ast.Attribute) and \
                n.func.attr.startswith('protocol_'):
            out.add((n.func.attr, ast.unparse(n.args[0]) if n.args else ''))
    return out
