"""C08 -- protocol versions are totally ordered by publication; derived
tables agree.

The version tables are *folded* from the literal record list through the
source of initglobals (constant propagation; nothing is imported) and
compared with a reference projection computed by this checker from the same
literal records.  The predicates are decided by an order-type argument: a
function that touches versions only through comparisons of their indices is
determined by its value on the finitely many orderings of its arguments."""
import ast
import itertools
import re

from ..common import AnalysisError, rel
from ..fold import (Folder, ClassVal, FuncVal, Env, FoldRaise, NTVal, Opaque,
                    NTClass)
from .. import terms

PRE = 1 << 30
TABLES = ['KNOWN_MINECRAFT_VERSIONS', 'SUPPORTED_MINECRAFT_VERSIONS',
          'RELEASE_MINECRAFT_VERSIONS', 'KNOWN_PROTOCOL_VERSIONS',
          'SUPPORTED_PROTOCOL_VERSIONS', 'RELEASE_PROTOCOL_VERSIONS',
          'PROTOCOL_VERSION_INDICES']


def reference_projection(records):
    """Independent statement of what the tables must be."""
    known_v, supp_v, rel_v = {}, {}, {}
    known_p, supp_p, rel_p = [], [], []
    for (vid, proto, supported) in records:
        known_v[vid] = proto
        if proto not in known_p:
            known_p.append(proto)
    # dict semantics: a repeated id keeps its first position, last value
    for (vid, proto, supported) in records:
        if supported:
            supp_v[vid] = proto
    for vid, proto in supp_v.items():
        if proto not in supp_p:
            supp_p.append(proto)
        if re.fullmatch(r'[0-9]+(?:\.[0-9]+)+', vid):
            rel_v[vid] = proto
            if proto not in rel_p:
                rel_p.append(proto)
    return dict(KNOWN_MINECRAFT_VERSIONS=known_v,
                SUPPORTED_MINECRAFT_VERSIONS=supp_v,
                RELEASE_MINECRAFT_VERSIONS=rel_v,
                KNOWN_PROTOCOL_VERSIONS=known_p,
                SUPPORTED_PROTOCOL_VERSIONS=supp_p,
                RELEASE_PROTOCOL_VERSIONS=rel_p)


def records_of(F, db):
    m = db.modules['minecraft']
    recs = F.module_global(m, 'KNOWN_MINECRAFT_VERSION_RECORDS')
    out = []
    if not isinstance(recs, list):
        raise AnalysisError('KNOWN_MINECRAFT_VERSION_RECORDS does not fold '
                            'to a list')
    for r in recs:
        if not (isinstance(r, NTVal) and r.ntc.fields ==
                ('id', 'protocol', 'supported')):
            raise AnalysisError('version record is not Version(id, protocol, '
                                'supported): %r' % (r,))
        out.append((r.attr('id'), r.attr('protocol'), r.attr('supported')))
    return out


def compare_tables(report, rid, folded, ref, where, db, tag):
    m = db.modules['minecraft']
    init = db.get_func('minecraft', 'initglobals')
    for name in TABLES:
        got = folded[name]
        if name == 'PROTOCOL_VERSION_INDICES':
            kp = ref['KNOWN_PROTOCOL_VERSIONS']
            ok = isinstance(got, dict) and list(got.keys()) == kp or (
                isinstance(got, dict) and set(got.keys()) == set(kp))
            if ok:
                vals = [got[p] for p in kp]
                ok = all(isinstance(x, int) for x in vals) and all(
                    a < b for a, b in zip(vals, vals[1:]))
            msg = ('index map is not strictly increasing along the '
                   'chronological list of known protocol versions')
        elif isinstance(ref[name], dict):
            ok = isinstance(got, dict) and list(got.items()) == \
                list(ref[name].items())
            msg = 'is not the order-preserving projection of the records'
        else:
            ok = isinstance(got, list) and got == ref[name]
            msg = ('is not the order-preserving duplicate-free projection '
                   'of the records')
        if ok:
            report.ok(rid, '%s %s (%d entries)' % (name, tag, len(got)))
        else:
            detail = ''
            if isinstance(got, (list, dict)) and not isinstance(
                    ref.get(name), type(None)) and name in ref:
                g = list(got.items()) if isinstance(got, dict) else got
                r = list(ref[name].items()) if isinstance(ref[name], dict) \
                    else ref[name]
                for i, (x, y) in enumerate(itertools.zip_longest(g, r)):
                    if x != y:
                        detail = ' (first difference at position %d: ' \
                                 'folded %r, expected %r)' % (i, x, y)
                        break
            report.violation(rid, 'table:%s:%s' % (name, tag), init.path,
                             init.node, 'initglobals',
                             '%s %s %s%s' % (name, tag, msg, detail))


def run(report, db, tier):
    report.explanation = (
        'minecraft/__init__.py is folded (literal records -> initglobals) '
        'and the derived tables compared with an independently stated '
        'projection; predicates decided by order types plus exhaustive '
        'folding over all pairs in the thorough tier.')
    report.trusted_base = ['CPython ast parser', 'vp.fold evaluator',
                           'Python re for the release-name pattern']
    F = Folder(db)
    recs = records_of(F, db)
    report.note('records', len(recs))
    report.floor('version records', len(recs), 400)

    R3 = report.rule('R08.3', 'literal data: records well-formed and '
                     'chronological (ordinary numbers non-decreasing, PRE '
                     'numbers increasing among themselves)')
    check_records(report, db, recs, R3)

    R2 = report.rule('R08.2', 'derived tables are the order-preserving, '
                     'duplicate-free projections of the records')
    T = F.tables()
    ref = reference_projection(recs)
    compare_tables(report, R2, T, ref, None, db, 'after import')

    R4 = report.rule('R08.4', 're-initialising is idempotent; tables are '
                     'rebuilt in place and follow run-time extensions')
    check_reinit(report, db, F, recs, ref, R4)
    check_no_rebinding(report, db, R4)
    check_no_outside_mutation(report, db, R4)
    check_no_memo(report, db, R4)
    # the order the predicates define is the order the library *uses*: a
    # version guard that orders the numbers themselves follows another order
    from ..protocol import Proto
    from .. import shared
    R6 = report.rule('R08.6', 'protocol numbers are ordered only through '
                     'the publication-order predicates, never numerically')
    nf = shared.numeric_version_order(report, R6, db, Proto(db, F))
    report.floor('functions scanned for numeric version order', nf, 300)

    R1 = report.rule('R08.1', 'the comparison predicates are the strict / '
                     'non-strict chronological order and its compositions')
    check_predicates(report, db, F, T, tier, R1)

    R5 = report.rule('R08.5', 'README releases are supported versions')
    check_readme(report, db, T, R5)


def check_records(report, db, recs, R3):
    m = db.modules['minecraft']
    init = db.get_func('minecraft', 'initglobals')
    last_ord = None
    last_pre = None
    for i, (vid, proto, supported) in enumerate(recs):
        ok = isinstance(vid, str) and isinstance(proto, int) and \
            not isinstance(proto, bool) and isinstance(supported, bool) \
            and proto >= 0
        if not ok:
            report.violation(R3, 'record:%r' % (vid,), m.path, None, None,
                             'ill-formed version record %r' % ((vid, proto,
                                                                supported),))
            continue
        if proto & PRE:
            if last_pre is not None and proto < last_pre[1]:
                report.violation(
                    R3, 'chronology:%s' % vid, m.path, None, None,
                    'pre-release protocol %s (PRE|%d) is listed after %s '
                    '(PRE|%d): list order is not publication order'
                    % (vid, proto & ~PRE, last_pre[0], last_pre[1] & ~PRE))
            else:
                report.ok(R3)
            last_pre = (vid, proto)
        else:
            if last_ord is not None and proto < last_ord[1]:
                report.violation(
                    R3, 'chronology:%s' % vid, m.path, None, None,
                    'protocol %d (%s) is listed after %d (%s): list order '
                    'is not numeric order for ordinary protocol numbers'
                    % (proto, vid, last_ord[1], last_ord[0]))
            else:
                report.ok(R3)
            last_ord = (vid, proto)


def check_reinit(report, db, F, recs, ref, R4):
    m = db.modules['minecraft']
    init = db.get_func('minecraft', 'initglobals')
    env = Env(m)

    def call(**kw):
        F.memo.clear()
        return F.call_func(FuncVal(init), [], kw, init.node, env)
    ids_before = {n: id(F.module_global(m, n)) for n in TABLES}
    # (a) idempotence in both modes
    call(use_known_records=True)
    compare_tables(report, R4, F.tables(), ref, None, db,
                   'after a second initglobals(True)')
    call()
    compare_tables(report, R4, F.tables(), ref, None, db,
                   'after initglobals() in compatibility mode')
    # (b) extension of the record list, then rebuild
    recs_val = F.module_global(m, 'KNOWN_MINECRAFT_VERSION_RECORDS')
    ntc = recs_val[0].ntc
    # contexts that exist before the extension must keep comparing
    # chronologically afterwards (nothing about the order may be cached)
    old_known = list(F.tables()['KNOWN_PROTOCOL_VERSIONS'])
    probes = [old_known[len(old_known) // 2], old_known[-1]]
    old_ctx = {v: F.context(v) for v in probes}
    mid = len(recs) // 2
    ins = ('50w50a', PRE | 123456, True)
    recs_val.insert(mid, NTVal(ntc, list(ins)))
    call(use_known_records=True)
    ref_ins = reference_projection(recs[:mid] + [ins] + recs[mid:])
    compare_tables(report, R4, F.tables(), ref_ins, None, db,
                   'after inserting a record in mid-list and rebuilding')
    pos_new = {p: i for i, p in enumerate(
        ref_ins['KNOWN_PROTOCOL_VERSIONS'])}
    ctxci = db.get_class('minecraft.networking.connection',
                         'ConnectionContext')
    others = [old_known[0], recs[mid - 1][1], ins[1], recs[mid][1],
              old_known[-1]]
    stale = None
    for v, ctx in old_ctx.items():
        for name, rel_ in (('protocol_earlier', lambda a, b: a < b),
                           ('protocol_earlier_eq', lambda a, b: a <= b),
                           ('protocol_later', lambda a, b: a > b),
                           ('protocol_later_eq', lambda a, b: a >= b)):
            fi = db.find_method(ctxci, name)
            for o in others:
                try:
                    got = F.call(FuncVal(fi, bound=ctx), [o], {}, fi.node,
                                 Env(fi.module))
                except FoldRaise as e:
                    got = 'raises %s' % e.exc_type
                want = rel_(pos_new[v], pos_new[o])
                if got is not want and stale is None:
                    stale = (v, name, o, got, want, fi)
    if stale is None:
        report.ok(R4, 'contexts created before a mid-list extension compare '
                  'by the rebuilt order')
    else:
        v, name, o, got, want, fi = stale
        report.violation(R4, 'stale-context:%s' % name, fi.path, fi.node,
                         'ConnectionContext.' + name,
                         'a context for %r created before the records were '
                         'extended answers %s(%r) = %r after the rebuild; the '
                         'rebuilt order says %r (something about the order '
                         'is cached outside the rebuilt tables)'
                         % (v, name, o, got, want))
    del recs_val[mid]
    call(use_known_records=True)
    extra = [('9.9-verif-a', 99990, True), ('9.9-verif-b', 99990, False),
             ('9.9.1', 99991, True), ('99w01a', PRE | 9999, True)]
    for e in extra:
        recs_val.append(NTVal(ntc, list(e)))
    call(use_known_records=True)
    ref2 = reference_projection(recs + extra)
    compare_tables(report, R4, F.tables(), ref2, None, db,
                   'after extending the records and rebuilding')
    del recs_val[-len(extra):]
    call(use_known_records=True)
    compare_tables(report, R4, F.tables(), ref, None, db,
                   'after removing the extension and rebuilding')
    ids_after = {n: id(F.module_global(m, n)) for n in TABLES}
    for n in TABLES:
        if ids_before[n] == ids_after[n]:
            report.ok(R4, '%s updated in place' % n)
        else:
            report.violation(R4, 'rebound:%s' % n, init.path, init.node,
                             'initglobals', '%s is rebound by initglobals; '
                             'references imported elsewhere go stale' % n)


def check_no_rebinding(report, db, R4):
    """No table name is rebound anywhere (global statement / second
    module-level assignment), so `from minecraft import X` stays valid."""
    m = db.modules['minecraft']
    for name in TABLES + ['KNOWN_MINECRAFT_VERSION_RECORDS']:
        recs = m.bindings.get(name, [])
        if len(recs) != 1:
            report.violation(R4, 'bindings:%s' % name, m.path, None, None,
                             '%s has %d module-level bindings (expected 1)'
                             % (name, len(recs)))
        else:
            report.ok(R4, '%s bound once' % name)
    for mod in db.modules.values():
        for n in ast.walk(mod.tree):
            if isinstance(n, ast.Global) and set(n.names) & set(TABLES):
                report.violation(R4, 'global:%s' % ','.join(n.names),
                                 mod.path, n, None,
                                 'version table rebound through a global '
                                 'statement')
            if isinstance(n, ast.Assign):
                for t in n.targets:
                    if isinstance(t, ast.Attribute) and t.attr in TABLES:
                        report.violation(
                            R4, 'attrstore:%s' % t.attr, mod.path, n, None,
                            'version table replaced by attribute store')


def check_no_outside_mutation(report, db, R4):
    """Only initglobals changes the derived tables.  Elsewhere a table may be
    read, copied, iterated -- but neither changed in place directly nor
    through a local name bound to the very object (`x = TABLE; x += [...]`
    appends to the shared list)."""
    MUT = ('append', 'add', 'update', 'extend', 'insert', 'pop', 'remove',
           'clear', 'setdefault', 'popitem', 'sort', 'reverse', 'discard')
    names = set(TABLES + ['KNOWN_MINECRAFT_VERSION_RECORDS'])
    n = 0
    for fi in db.funcs:
        if isinstance(fi.node, ast.Lambda):
            continue
        if fi.module.name == 'minecraft':
            continue        # the tables' own module (initglobals and what
            #                 it is split into); R08.2/R08.4 fold that
        local = set(a.arg for a in ast.walk(fi.node.args)
                    if isinstance(a, ast.arg))
        # is the global name visible here (imported / module level)?
        def is_table(e):
            if isinstance(e, ast.Name) and e.id in names and \
                    e.id not in local:
                try:
                    ent = db.resolve_dotted(fi.module, e)
                except AnalysisError:
                    return False
                return ent is not None
            if isinstance(e, ast.Attribute) and e.attr in names:
                return True
            return False
        # local names that may hold the table object itself
        alias = set()
        changed = True
        while changed:
            changed = False
            for x in ast.walk(fi.node):
                if not isinstance(x, ast.Assign):
                    continue
                vals = [x.value]
                if isinstance(x.value, ast.IfExp):
                    vals = [x.value.body, x.value.orelse]
                if isinstance(x.value, ast.BoolOp):
                    vals = list(x.value.values)
                for v in vals:
                    if is_table(v) or (isinstance(v, ast.Name)
                                       and v.id in alias):
                        for t in x.targets:
                            if isinstance(t, ast.Name) and \
                                    t.id not in alias:
                                alias.add(t.id)
                                changed = True

        def shared(e):
            return is_table(e) or (isinstance(e, ast.Name) and e.id in alias)
        for x in ast.walk(fi.node):
            hit = None
            if isinstance(x, ast.AugAssign) and shared(x.target):
                hit = (x.target, 'is changed in place by `%s`'
                       % ast.unparse(x)[:50])
            elif isinstance(x, ast.Call) and isinstance(
                    x.func, ast.Attribute) and x.func.attr in MUT and \
                    shared(x.func.value):
                hit = (x.func.value, 'is changed by .%s()' % x.func.attr)
            elif isinstance(x, ast.Subscript) and isinstance(
                    x.ctx, (ast.Store, ast.Del)) and shared(x.value):
                hit = (x.value, 'has an entry stored / deleted')
            elif isinstance(x, ast.Delete) and any(shared(t)
                                                   for t in x.targets):
                hit = (x.targets[0], 'is deleted')
            if hit:
                n += 1
                what = ast.unparse(hit[0])
                via = '' if is_table(hit[0]) else \
                    ' (a local name bound to a version table)'
                report.violation(
                    R4, 'table-mutated:%s:%s' % (fi.qualname, what),
                    fi.path, x, fi.qualname, '%s%s %s outside initglobals: '
                    'the derived tables stop being the projection of the '
                    'records, and the next initglobals() changes them again'
                    % (what, via, hit[1]))
    if not n:
        report.ok(R4, 'no function but initglobals changes a version table, '
                  'directly or through a local alias')


def check_no_memo(report, db, R4):
    """The predicates must see a rebuilt table at once: nothing on the way
    from a predicate to the index table may remember an earlier answer (a
    memoising decorator, a module-level cache the function fills, a value
    kept on the function object)."""
    from ..callgraph import CallGraph
    cg = CallGraph(db)
    ctxci = db.get_class('minecraft.networking.connection',
                         'ConnectionContext')
    roots = [db.get_func('minecraft.utility', n) for n in REL]
    roots += [f for f in db.funcs if f.cls is ctxci
              and f.name.startswith('protocol_')]
    seen, todo = [], [r for r in roots if r is not None]
    while todo:
        f = todo.pop()
        if f in seen:
            continue
        seen.append(f)
        for cs in cg.sites.get(f, []):
            for m, _, _ in cs.callees:
                if m not in seen:
                    todo.append(m)
    MEMO = ('functools.lru_cache', 'functools.cache',
            'functools.cached_property', 'functools.singledispatch')
    for f in seen:
        if isinstance(f.node, ast.Lambda):
            continue
        for d in f.node.decorator_list:
            core = d.func if isinstance(d, ast.Call) else d
            try:
                ent = db.resolve_dotted(f.module, core) if isinstance(
                    core, (ast.Name, ast.Attribute)) else None
            except AnalysisError:
                ent = None
            dotted = getattr(ent, 'dotted', None)
            plain = isinstance(core, ast.Name) and core.id in (
                'staticmethod', 'classmethod', 'property')
            if dotted in MEMO or (dotted or '').endswith('cache'):
                report.violation(
                    R4, 'memo:%s' % f.qualname, f.path, d, f.qualname,
                    '%s, which the version predicates call, is memoised '
                    '(@%s): after a run-time extension and rebuild of the '
                    'tables it keeps answering with the old positions'
                    % (f.qualname, ast.unparse(d)))
            elif not plain and getattr(ent, 'dotted', None) is None and \
                    not (isinstance(core, ast.Attribute)
                         and core.attr in ('setter', 'deleter', 'getter')):
                # an in-repo or unknown decorator: it may wrap the function
                # in anything
                tgt = ent if ent is not None else None
                wraps_cache = False
                if tgt is not None and hasattr(tgt, 'node'):
                    wraps_cache = any(
                        isinstance(x, ast.Dict) or (
                            isinstance(x, ast.Call) and isinstance(
                                x.func, ast.Name) and x.func.id == 'dict')
                        for x in ast.walk(tgt.node))
                if wraps_cache:
                    report.violation(
                        R4, 'memo:%s' % f.qualname, f.path, d, f.qualname,
                        '%s is wrapped by @%s, which keeps a dictionary of '
                        'earlier answers' % (f.qualname, ast.unparse(d)))
        # a cache the function fills itself: a store into a subscript of a
        # module-level name or of an attribute of the function / its class
        gl = set(f.module.bindings) if hasattr(f.module, 'bindings') else set()
        for x in ast.walk(f.node):
            tgt = None
            if isinstance(x, ast.Subscript) and isinstance(
                    x.ctx, ast.Store):
                tgt = x.value
            elif isinstance(x, ast.Call) and isinstance(
                    x.func, ast.Attribute) and x.func.attr in (
                        'setdefault', 'update', '__setitem__'):
                tgt = x.func.value
            if tgt is None:
                continue
            base = tgt
            while isinstance(base, ast.Attribute):
                base = base.value
            local = set(a.arg for a in ast.walk(f.node.args)
                        if isinstance(a, ast.arg)) | set(
                n.id for n in ast.walk(f.node) if isinstance(n, ast.Name)
                and isinstance(n.ctx, ast.Store))
            if isinstance(base, ast.Name) and base.id not in local and \
                    base.id not in TABLES:
                report.violation(
                    R4, 'memo:%s' % f.qualname, f.path, x, f.qualname,
                    '%s, which the version predicates call, stores into %s: '
                    'a cache of earlier answers survives a rebuild of the '
                    'tables' % (f.qualname, ast.unparse(tgt)))
    report.ok(R4, 'no memoisation between the predicates and the index '
              'table (%d functions reachable)' % len(seen))
    report.floor('functions reachable from the version predicates',
                 len(seen), 7)


# ---------------------------------------------------------------------------
REL = {
    'protocol_earlier': lambda a, b: a < b,
    'protocol_earlier_eq': lambda a, b: a <= b,
}
CTX = {
    'protocol_earlier': lambda s, o: s < o,
    'protocol_earlier_eq': lambda s, o: s <= o,
    'protocol_later': lambda s, o: s > o,
    'protocol_later_eq': lambda s, o: s >= o,
}


def is_order_pure(db, fi):
    """After inlining, the function touches its parameters (and
    self.protocol_version) only as keys of PROTOCOL_VERSION_INDICES, and
    those index values only as operands of comparisons combined by boolean
    operators."""
    try:
        val, effects, _ = terms.straight_line_value(fi)
    except AnalysisError:
        return False
    if effects:
        return False
    expr = terms.inline(db, fi.module, val, fi.cls)
    params = set(fi.params)

    def is_idx(e):
        return (isinstance(e, ast.Subscript) and isinstance(e.value, ast.Name)
                and e.value.id == 'PROTOCOL_VERSION_INDICES'
                and is_ver(e.slice))

    def is_ver(e):
        if isinstance(e, ast.Name) and e.id in params:
            return True
        return (isinstance(e, ast.Attribute) and e.attr == 'protocol_version'
                and isinstance(e.value, ast.Name) and e.value.id == 'self')

    def ok(e):
        if isinstance(e, ast.BoolOp):
            return all(ok(v) for v in e.values)
        if isinstance(e, ast.UnaryOp) and isinstance(e.op, ast.Not):
            return ok(e.operand)
        if isinstance(e, ast.Compare):
            ops_ok = all(isinstance(o, (ast.Lt, ast.LtE, ast.Gt, ast.GtE,
                                        ast.Eq, ast.NotEq)) for o in e.ops)
            return ops_ok and all(is_idx(x) for x in [e.left] + e.comparators)
        if isinstance(e, ast.IfExp):
            return ok(e.test) and ok(e.body) and ok(e.orelse)
        if isinstance(e, ast.Constant) and isinstance(e.value, bool):
            return True
        return False
    return ok(expr)


def check_predicates(report, db, F, T, tier, R1):
    known = list(T['KNOWN_PROTOCOL_VERSIONS'])
    pos = {p: i for i, p in enumerate(known)}     # chronological position
    util = db.modules['minecraft.utility']
    ctxci = db.get_class('minecraft.networking.connection',
                         'ConnectionContext')
    # representative points: ordinary numbers and PRE-flagged ones, chosen so
    # that numeric order and chronological order disagree among them
    pre = [p for p in known if p & PRE]
    reps = []
    if pre:
        later_ord = [p for p in known if not p & PRE and pos[p] > pos[pre[0]]]
        reps = [known[len(known) // 3], pre[0]] + later_ord[:1] + pre[-1:] \
            + [known[-1]]
    else:
        reps = [known[0], known[len(known) // 2], known[-1]]
    reps = sorted(set(reps), key=lambda p: pos[p])
    report.note('representative versions', reps)

    def fold_call(fv, args, node, env):
        try:
            return F.call(fv, list(args), {}, node, env)
        except FoldRaise as e:
            return 'raises %s' % e.exc_type

    # -- the two utility functions ------------------------------------
    for name, relation in sorted(REL.items()):
        fi = db.get_func('minecraft.utility', name)
        pure = is_order_pure(db, fi)
        exhaustive = (tier == 'thorough') or not pure
        domain = known if exhaustive else reps
        bad = None
        n = 0
        for a in domain:
            for b in domain:
                n += 1
                got = fold_call(FuncVal(fi), (a, b), fi.node, Env(util))
                if got is not relation(pos[a], pos[b]):
                    bad = (a, b, got)
                    break
            if bad:
                break
        how = ('all %d pairs of known versions' % n) if exhaustive else (
            'order-pure (indices only compared); %d pairs over %d '
            'representative versions covering every ordering' % (n, len(reps)))
        if bad is None:
            report.ok(R1, 'utility.%s is the chronological %s: %s' % (
                name, '<' if name.endswith('earlier') else '<=', how))
        else:
            report.violation(
                R1, 'predicate:utility.%s' % name, fi.path, fi.node, name,
                '%s(%r, %r) folds to %r but chronological positions are %d '
                'and %d' % (name, bad[0], bad[1], bad[2], pos[bad[0]],
                            pos[bad[1]]))
        report.note('predicate evaluations', '%s: %d' % (name, n))

    # -- a context is about the version it was made for ---------------
    # (the order-type argument below folds the predicates at representative
    # versions; it needs the constructor to be the identity on *every* one)
    init = db.find_method(ctxci, '__init__')
    badv = []
    for v in known:
        try:
            got = F.getattr(F.context(v), 'protocol_version', ctxci.node,
                            ctxci.module)
        except FoldRaise as e:
            got = 'raises %s' % e.exc_type
        if not (got == v and type(got) is type(v)):
            badv.append((v, got))
    if badv:
        report.violation(
            R1, 'context:holds-version', ctxci.path,
            init.node if init is not None else ctxci.node,
            'ConnectionContext.__init__', 'ConnectionContext('
            'protocol_version=%r).protocol_version folds to %r (%d of %d '
            'known versions differ): its predicates then answer for another '
            'version' % (badv[0][0], badv[0][1], len(badv), len(known)))
    else:
        report.ok(R1, 'ConnectionContext(protocol_version=v).protocol_version'
                  ' is v for all %d known versions' % len(known))

    # -- the five context predicates -----------------------------------
    for name in ['protocol_earlier', 'protocol_earlier_eq', 'protocol_later',
                 'protocol_later_eq', 'protocol_in_range']:
        fi = db.find_method(ctxci, name)
        if fi is None:
            raise AnalysisError('ConnectionContext.%s vanished' % name)
        pure = is_order_pure(db, fi)
        exhaustive2 = (tier == 'thorough' and name != 'protocol_in_range') \
            or not pure
        domain = known if exhaustive2 else reps
        if name == 'protocol_in_range' and not pure:
            domain = known[::7] + reps      # triples: thinned, documented
        bad = None
        n = 0
        for s in domain:
            ctx = F.context(s)
            fv = FuncVal(fi, bound=ctx)
            if name == 'protocol_in_range':
                for a in domain:
                    for b in domain:
                        n += 1
                        got = fold_call(fv, (a, b), fi.node, Env(fi.module))
                        want = pos[a] <= pos[s] < pos[b]
                        if got is not want:
                            bad = (s, (a, b), got, want)
                            break
                    if bad:
                        break
            else:
                for o in domain:
                    n += 1
                    got = fold_call(fv, (o,), fi.node, Env(fi.module))
                    want = CTX[name](pos[s], pos[o])
                    if got is not want:
                        bad = (s, (o,), got, want)
                        break
            if bad:
                break
        how = 'exhaustive' if exhaustive2 else 'order types over %d ' \
            'representatives (order-pure)' % len(reps)
        if bad is None:
            report.ok(R1, 'ConnectionContext.%s: %d evaluations, %s' % (
                name, n, how))
        else:
            report.violation(
                R1, 'predicate:ConnectionContext.%s' % name, fi.path, fi.node,
                'ConnectionContext.' + name,
                'context at %r: %s%r folds to %r, chronological answer is %r'
                % (bad[0], name, bad[1], bad[2], bad[3]))
        report.note('predicate evaluations', 'ctx.%s: %d' % (name, n))

    # chronological position agrees with numeric order inside each family
    ordn = [p for p in known if not p & PRE]
    pren = [p for p in known if p & PRE]
    if ordn == sorted(ordn) and pren == sorted(pren):
        report.ok(R1, 'index order = numeric order within ordinary (%d) and '
                  'within PRE (%d) numbers' % (len(ordn), len(pren)))
    else:
        m = db.modules['minecraft']
        report.violation(R1, 'numeric-order', m.path, None, None,
                         'chronological order of known protocol numbers '
                         'disagrees with numeric order inside a family')


def check_readme(report, db, T, R5):
    import os
    path = os.path.join(db.repo, 'README.rst')
    if not os.path.exists(path):
        raise AnalysisError('README.rst vanished')
    names = readme_releases(path)
    report.floor('README release names', len(names), 40)
    supp = T['SUPPORTED_MINECRAFT_VERSIONS']
    rel_ = T['RELEASE_MINECRAFT_VERSIONS']
    for n in names:
        if n in supp and n in rel_:
            report.ok(R5)
        else:
            report.violation(R5, 'readme:%s' % n, path, None, None,
                             'README lists %s as supported but the version '
                             'table does not mark it so' % n)


def readme_releases(path):
    names = []
    active = False
    for line in open(path, encoding='utf-8'):
        if line.startswith('Supported Minecraft versions'):
            active = True
            continue
        if active and line.startswith('Supported') and \
                'Minecraft versions' not in line:
            break
        if active and line.startswith('* '):
            for tok in line[2:].split(','):
                tok = tok.strip()
                if re.fullmatch(r'[0-9]+(\.[0-9]+)+', tok):
                    names.append(tok)
    return names
