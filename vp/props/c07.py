"""C07 -- core packets match the published protocol for every supported
release.  The folded ids and layouts (vp.fold, nothing imported) are compared
with reference/protocol_core.json, a table authored from the protocol
documentation that shares no code with pyCraft."""
import ast
import json
import os

from ..common import AnalysisError, VERIF, rel
from ..fold import ClassVal, Instance, Env, FoldRaise
from ..protocol import Proto, Raises, type_name
from .c08 import readme_releases

SHAPES = {
    'VarInt': 'varint', 'VarLong': 'varlong', 'String': 'string',
    'UnsignedShort': 'u16', 'Short': 'i16', 'Byte': 'i8',
    'UnsignedByte': 'i8', 'Integer': 'i32', 'Long': 'i64',
    'UnsignedLong': 'u64', 'Float': 'f32', 'Double': 'f64',
    'Boolean': 'bool', 'UUID': 'uuid', 'VarIntPrefixedByteArray': 'bytes',
    'ShortPrefixedByteArray': 'bytes16', 'TrailingByteArray': 'rest',
    'NBT': 'nbt', 'Position': 'i64', 'Angle': 'i8',
}


def shape(t):
    if isinstance(t, ClassVal):
        return SHAPES.get(t.ci.qualname, t.ci.qualname)
    if isinstance(t, Instance):
        args, kw = t.ctor_args or ([], {})
        if t.ci.name == 'PrefixedArray' and len(args) == 2:
            return 'array(%s,%s)' % (shape(args[0]), shape(args[1]))
        if t.ci.name == 'FixedPoint' and args:
            return shape(args[0])
        return type_name(t)
    return repr(t)


def load_ref():
    return json.load(open(os.path.join(VERIF, 'reference',
                                       'protocol_core.json')))


def check_boundaries(report, db, P, ref, rid='R07.6', only=None):
    """Layout changes the pre-release changelogs date to one development
    version: the field has the old shape in every supported version published
    before it and the new shape from it on."""
    R = report.rule(rid, 'dated layout changes: a field changes its wire '
                    'shape at the development version the changelog names, '
                    'not a version earlier or later')
    n = 0
    for b in ref.get('boundaries', []):
        if only is not None and not only(b):
            continue
        spec = ref['packets'][b['packet']]
        mod, qn = spec['cls'].split(':')
        ci = db.get_class(mod, qn)
        cv = ClassVal(ci)
        if b['protocol'] not in P.index:
            raise AnalysisError('reference boundary %d is not a known '
                                'protocol version' % b['protocol'])
        at = P.index[b['protocol']]
        bad = []
        for v in P.supported:
            t = P.table(spec['direction'], spec['state'], v)
            if isinstance(t, Raises) or cv not in t:
                continue
            d = P.definition(cv, v)
            if not isinstance(d, list):
                continue
            lay = [shape(ty) for e in d for k, ty in e.items()]
            want = b['since'] if P.index[v] >= at else b['before']
            n += 1
            got = lay[b['field']] if b['field'] < len(lay) else None
            if got != want:
                bad.append((v, got, want))
            else:
                report.ok(R)
        if bad:
            fi = db.find_method(ci, 'get_definition')
            v, got, want = bad[0]
            report.violation(
                R, 'boundary:%s:%d' % (b['packet'], b['protocol']), ci.path,
                fi.node if fi is not None else ci.node, ci.qualname,
                '%s: field %d is %s in %s, the documentation says %s (%s); '
                '%d supported version(s) differ' % (
                    b['packet'], b['field'], got, P.vname(v), want,
                    b['source'], len(bad)))
    return n


def run(report, db, tier):
    ref = load_ref()
    report.explanation = (
        'For each release the README lists and each core packet, the folded '
        'registration, id and field layout (reduced to wire shapes) are '
        'compared with reference/protocol_core.json.')
    report.assumptions.append(
        'reference/protocol_core.json is written from memory of the '
        'published protocol documentation (no network in the sandbox)')
    P = Proto(db)
    R1 = report.rule('R07.1', 'README releases map to the reference release '
                     'protocol numbers and are supported')
    R2 = report.rule('R07.2', 'core packet is registered in the right '
                     'state/direction table with the published id')
    R3 = report.rule('R07.3', 'core packet field layout equals the '
                     'published wire layout')
    R4 = report.rule('R07.4', 'handshake next-state constants')
    names = readme_releases(os.path.join(db.repo, 'README.rst'))
    supp = P.T['SUPPORTED_MINECRAFT_VERSIONS']
    protos = []
    for n in names:
        p = supp.get(n)
        if p is None:
            report.violation(R1, 'readme:%s' % n, os.path.join(db.repo,
                                                              'README.rst'),
                             None, None, 'README release %s is not a '
                             'supported version in the table' % n)
            continue
        if p not in protos:
            protos.append(p)
    report.note('README release names', len(names))
    report.note('release protocol numbers', protos)
    report.floor('README release names', len(names), 40)
    missing = [p for p in protos if p not in ref['releases']]
    extra = [p for p in ref['releases'] if p not in protos]
    if missing:
        report.violation(R1, 'reference-gap', None, None, None,
                         'README releases use protocol(s) %s for which the '
                         'reference table has no row' % missing)
    else:
        report.ok(R1, '%d README names -> %d protocol numbers, all in the '
                  'reference' % (len(names), len(protos)))
    if extra:
        report.info(R1, 'reference rows for %s are not README releases'
                    % extra)
    n_cells = 0
    bad_id = {}
    bad_lay = {}
    for key, spec in sorted(ref['packets'].items()):
        mod, qn = spec['cls'].split(':')
        ci = db.get_class(mod, qn)
        cv = ClassVal(ci)
        report.note('core classes', ci.fq)
        for row in spec['rows']:
            for p in row['protocols']:
                if p not in protos:
                    continue
                n_cells += 1
                t = P.table(spec['direction'], spec['state'], p)
                if isinstance(t, Raises) or cv not in t:
                    bad_id.setdefault((key, 'not registered in %s/%s' % (
                        spec['direction'], spec['state']), None), []).append(p)
                    continue
                i = P.table_id(cv, p)
                if i != row['id']:
                    bad_id.setdefault((key, 'id', (repr(i), row['id'])),
                                      []).append(p)
                else:
                    report.ok(R2)
                d = P.definition(cv, p)
                if not isinstance(d, list):
                    bad_lay.setdefault((key, 'no declarative layout', ''),
                                       []).append(p)
                    continue
                lay = []
                for e in d:
                    for k, ty in e.items():
                        lay.append(shape(ty))
                if lay != row['layout']:
                    bad_lay.setdefault((key, tuple(lay),
                                        tuple(row['layout'])), []).append(p)
                else:
                    report.ok(R3)
    for (key, what, detail), ps in bad_id.items():
        spec = ref['packets'][key]
        mod, qn = spec['cls'].split(':')
        ci = db.get_class(mod, qn)
        fi = db.find_method(ci, 'get_id')
        if what == 'id':
            msg = 'id folds to %s but the protocol publishes 0x%02X' % (
                detail[0] if not detail[0].isdigit()
                else '0x%02X' % int(detail[0]), detail[1])
        else:
            msg = what
        report.violation(R2, 'id:%s:%s' % (key, ','.join(map(str, ps))),
                         ci.path, fi.node if fi is not None and fi.cls is ci
                         else ci.node, ci.qualname,
                         '%s: %s for release protocol(s) %s' % (key, msg, ps))
    for (key, got, want), ps in bad_lay.items():
        spec = ref['packets'][key]
        mod, qn = spec['cls'].split(':')
        ci = db.get_class(mod, qn)
        fi = db.find_method(ci, 'get_definition')
        report.violation(R3, 'layout:%s:%s' % (key, ','.join(map(str, ps))),
                         ci.path, fi.node if fi is not None and fi.cls is ci
                         else ci.node, ci.qualname,
                         '%s: layout folds to %s but the protocol publishes '
                         '%s for release protocol(s) %s' % (
                             key, list(got) if isinstance(got, tuple)
                             else got, list(want), ps))
    # a core packet is *decoded* by its published id only if no other class
    # registered in the same table of that release claims the id too (the
    # reactor keeps one class per id)
    # a layout is a function of the version: get_definition / get_id of the
    # core classes change no object that outlives the call
    from .. import shared
    from ..callgraph import CallGraph
    R7 = report.rule('R07.7', 'the layout of a core packet depends on the '
                     'version alone: get_definition / get_id change no '
                     'module- or class-level object')
    cgx = CallGraph(db)
    fns = []
    for key, spec in sorted(ref['packets'].items()):
        mod, qn = spec['cls'].split(':')
        ci = db.get_class(mod, qn)
        for nm in ('get_definition', 'get_id'):
            fi = db.find_method(ci, nm)
            if fi is not None:
                for g in [fi] + sorted(
                        (x for x in cgx.reachable([fi]) if x is not fi
                         and x.module.name.startswith(
                             'minecraft.networking.packets')),
                        key=lambda f: (f.path, f.lineno)):
                    if g not in fns:
                        fns.append(g)
    nf = shared.pure_of_shared_state(
        report, R7, db, fns, 'layout / id functions of the core packets',
        'the layout one version gets now depends on which versions were '
        'asked for before in the same process')
    report.floor('core layout functions checked for purity', nf, 15)
    # (check_boundaries -- layout changes dated to a development version --
    # is not run here: C07 quantifies over releases only; C11 runs it)
    R5 = report.rule('R07.5', 'in every README release, no other registered '
                     'class shares the published id of a core packet')
    n_tables = 0
    clashes = {}
    for key, spec in sorted(ref['packets'].items()):
        mod, qn = spec['cls'].split(':')
        cv = ClassVal(db.get_class(mod, qn))
        for row in spec['rows']:
            for p in row['protocols']:
                if p not in protos:
                    continue
                t = P.table(spec['direction'], spec['state'], p)
                if isinstance(t, Raises) or cv not in t:
                    continue
                n_tables += 1
                for other in t:
                    if other == cv:
                        continue
                    if P.table_id(other, p) == row['id']:
                        clashes.setdefault((key, other.ci.qualname,
                                            row['id']), []).append(p)
    for (key, other, i), ps in sorted(clashes.items()):
        oci = [c for c in db.classes if c.qualname == other][0]
        fi = db.find_method(oci, 'get_id')
        report.violation(
            R5, 'clash:%s:%s:%s' % (key, other, ','.join(map(str, ps))),
            oci.path, fi.node if fi is not None else oci.node, other,
            '%s also resolves to id 0x%02X, the published id of %s, in '
            'release protocol(s) %s: frames of one are decoded as the other'
            % (other, i, key, ps))
    if not clashes:
        report.ok(R5, 'no other class claims a core packet\'s id (%d '
                  'packet x release tables)' % n_tables)
    report.note('(packet, release) cells', n_cells)
    report.floor('(packet, release) cells', n_cells, 550)
    # constants
    conn = db.modules.get('minecraft.networking.connection')
    if conn is None:
        raise AnalysisError('connection module vanished')
    for name, val in sorted(ref['constants'].items()):
        try:
            got = P.F.module_global(conn, name)
        except (AnalysisError, FoldRaise):
            got = None
        if got == val:
            report.ok(R4, '%s = %d' % (name, val))
        else:
            report.violation(R4, 'const:%s' % name, conn.path, None, None,
                             '%s is %r, the protocol prescribes %d'
                             % (name, got, val))
