"""C09 -- status queries and version negotiation pick the right version or
the right error.  Branch structure and call ordering on the CFGs of
Connection.__init__/connect/status, PlayingStatusReactor and StatusReactor;
guards compared as boolean functions; _version_mismatch and the version
helper folded on representative inputs."""
import ast

from ..common import AnalysisError, rel
from ..callgraph import CallGraph
from ..connmodel import ConnModel, CONN
from ..cfg import cfg_of
from ..protocol import Proto
from ..fold import (Folder, Instance, Opaque, FuncVal, Env, FoldRaise,
                    ClassVal)
from .. import shared, boolfn
from .c10 import find_calls

SB = 'minecraft.networking.packets.serverbound'


def conj(conds):
    parts = [e if t else ast.UnaryOp(op=ast.Not(), operand=e)
             for e, t in conds]
    if not parts:
        return ast.Constant(value=True)
    return parts[0] if len(parts) == 1 else ast.BoolOp(op=ast.And(),
                                                      values=parts)


def run(report, db, tier):
    report.explanation = (
        'Negotiation is a decision tree over (allowed set size, status '
        'contents, membership); each leaf effect (raise invalid, default '
        'version, mismatch, proceed) is located on the CFG and its path '
        'condition compared, as a boolean function, with the documented '
        'one.  The version helper and _version_mismatch are folded on '
        'representative constants.')
    cg = CallGraph(db)
    M = ConnModel(db, cg)
    P = Proto(db)
    construction(report, db, cg, M, P)
    shortcut(report, db, cg, M, P)
    status_evaluation(report, db, cg, M, P)
    mismatch(report, db, cg, M, P)
    R5 = report.rule('R09.5', 'EOF fallback: exactly EOFError, close '
                     'immediately, default version, handled')
    shared.eof_fallback(report, R5, db, cg)
    plain_status(report, db, cg, M, P)
    R7 = report.rule('R09.7', 'status arms: compared names exist in the '
                     'status table, fields read exist')
    sr = db.get_class(CONN, 'StatusReactor')
    shared.name_agreement(report, R7, db, P, sr, 'status', M)
    R3 = report.rule('R09.3', 'handshake / request / ping packets have '
                     'every field set, from the right sources')
    n = 0
    for nm in ('_handshake', 'connect', 'status'):
        n += shared.field_completeness(report, R3, db, cg, P, M,
                                       M.conn_method(nm))
    n += shared.field_completeness(report, R3, db, cg, P, M,
                                   db.own_method(sr, 'react'))
    report.floor('negotiation write sites', n, 5)
    handshake_sources(report, db, cg, M, P, R3)
    version_in_force(report, db, cg, M, P)


# ---------------------------------------------------------------------------
def construction(report, db, cg, M, P):
    R = report.rule('R09.1', 'construction: every allowed / initial '
                    'version goes through a helper that returns a '
                    'supported protocol number or raises ValueError')
    init = M.conn_method('__init__')
    helpers = [f for f in db.funcs if f.outer is init]
    used = set()
    for n in ast.walk(init.node):
        if isinstance(n, ast.Call):
            if isinstance(n.func, ast.Name) and [ast.unparse(a) for a in
                                                 n.args] == \
                    ['initial_version']:
                used.add(n.func.id)
            if ast.unparse(n.func) == 'map' and len(n.args) == 2 and \
                    ast.unparse(n.args[1]) == 'allowed_versions':
                used.add(ast.unparse(n.args[0]))
    hp = [f for f in helpers if f.name in used]
    if len(hp) != 1:
        raise AnalysisError('Connection.__init__: version helper not found',
                            init.node, rel(init.path))
    h = hp[0]
    g = cfg_of(h)
    rets = [n for n in g.reachable_nodes() if isinstance(n.ast, ast.Return)]
    okk = True
    for r in rets:
        conds = boolfn.path_conditions(g, r)
        val = ast.unparse(r.ast.value) if r.ast.value else 'None'
        member = [(e, t) for e, t in conds
                  if 'SUPPORTED_PROTOCOL_VERSIONS' in ast.unparse(e)]
        good = False
        for e, t in member:
            if isinstance(e, ast.Compare) and len(e.ops) == 1 and \
                    ast.unparse(e.left) == val:
                if (isinstance(e.ops[0], ast.NotIn) and not t) or \
                        (isinstance(e.ops[0], ast.In) and t):
                    good = True
        if not good:
            okk = False
            report.violation(R, 'helper:return-unchecked', h.path, r.ast,
                             h.qualname, 'the helper can return %s without '
                             'it having been found in '
                             'SUPPORTED_PROTOCOL_VERSIONS' % val)
    if okk and rets:
        report.ok(R, 'every return of %s is a member of '
                  'SUPPORTED_PROTOCOL_VERSIONS' % h.name)
    # folding on representative inputs
    F = P.F
    sup = P.supported[-1]
    unsup = [v for v in P.known if v not in P.supported][0]
    supname = [k for k, v in P.T['SUPPORTED_MINECRAFT_VERSIONS'].items()
               if v == sup][0]
    unsupname = [k for k, v in P.T['KNOWN_MINECRAFT_VERSIONS'].items()
                 if v == unsup][0]
    cases = [(sup, sup), (supname, sup), (unsup, 'ValueError'),
             (unsupname, 'ValueError'), (999999, 'ValueError'),
             ('no-such-version', 'ValueError'), (None, 'ValueError'),
             (1.5, 'ValueError')]
    for arg, want in cases:
        try:
            got = F.call_func(FuncVal(h, closure=Env(h.module)), [arg], {},
                              h.node, Env(h.module))
        except FoldRaise as e:
            got = e.exc_type
        if got == want:
            report.ok(R, '%s(%r) -> %r' % (h.name, arg, got))
        else:
            report.violation(R, 'helper:value:%r' % (arg,), h.path, h.node,
                             h.qualname, '%s(%r) folds to %r, expected %r'
                             % (h.name, arg, got, want))
    # both inputs pass through it
    src = ast.unparse(init.node)
    uses = [n for n in ast.walk(init.node) if isinstance(n, ast.Name)
            and n.id == h.name and isinstance(n.ctx, ast.Load)]
    allowed_ok = any(isinstance(n, ast.Call) and ast.unparse(n.func) == 'map'
                     and ast.unparse(n.args[0]) == h.name
                     and ast.unparse(n.args[1]) == 'allowed_versions'
                     for n in ast.walk(init.node)) or any(
        isinstance(n, (ast.SetComp, ast.ListComp, ast.GeneratorExp))
        and isinstance(n.elt, ast.Call)
        and ast.unparse(n.elt.func) == h.name
        and ast.unparse(n.generators[0].iter) == 'allowed_versions'
        for n in ast.walk(init.node))
    initial_ok = any(isinstance(n, ast.Call) and ast.unparse(n.func) == h.name
                     and [ast.unparse(a) for a in n.args] ==
                     ['initial_version'] for n in ast.walk(init.node))
    if allowed_ok and initial_ok:
        report.ok(R, 'allowed_versions and initial_version are both mapped '
                  'through %s' % h.name)
    else:
        report.violation(R, 'helper:bypassed', init.path, init.node,
                         init.qualname, 'allowed_versions (%s) / '
                         'initial_version (%s) do not pass through the '
                         'validating helper' % (allowed_ok, initial_ok))
    # the stores use the validated values
    stores = {}
    for n in ast.walk(init.node):
        if isinstance(n, ast.Assign) and isinstance(n.targets[0],
                                                    ast.Attribute) and \
                n.targets[0].attr in ('allowed_proto_versions',
                                      'default_proto_version'):
            stores.setdefault(n.targets[0].attr, []).append(
                ast.unparse(n.value))
    report.note('stores', stores)


# ---------------------------------------------------------------------------
def shortcut(report, db, cg, M, P):
    R = report.rule('R09.2', 'connect(): exactly one allowed version -> '
                    'handshake(playing) + login start naming the profile '
                    'or user + LoginReactor, no status request; otherwise '
                    'handshake(status) + request + PlayingStatusReactor')
    fi = M.conn_method('connect')
    g = cfg_of(fi)
    me = fi.params[0]
    hs = M.conn_method('_handshake')
    live = g.reachable_nodes()
    ref = ast.parse('len(%s.allowed_proto_versions) == 1' % me,
                    mode='eval').body

    def arm_of(n):
        conds = [(e, t) for e, t in boolfn.path_conditions(g, n)
                 if 'allowed_proto_versions' in ast.unparse(e)]
        if len(conds) != 1:
            return None
        e, t = conds[0]
        if boolfn.same_function(e, ref):
            return 'single' if t else 'multi'
        return None
    info = {'single': dict(hs=[], writes=[], reactor=[]),
            'multi': dict(hs=[], writes=[], reactor=[])}
    for n in live:
        if n.ast is None:
            continue
        a = arm_of(n)
        for c in n.calls():
            if any(m is hs for m, _, _ in cg.callee_funcs(fi, c)):
                if a is None:
                    report.violation(R, 'connect:handshake-unguarded',
                                     fi.path, c, fi.qualname, 'a handshake '
                                     'is sent outside the single/multi '
                                     'version decision')
                else:
                    info[a]['hs'].append(c)
            if isinstance(c.func, ast.Attribute) and \
                    c.func.attr == 'write_packet' and a is not None:
                info[a]['writes'].append(c)
        if isinstance(n.ast, ast.Assign) and a is not None and any(
                isinstance(t, ast.Attribute) and t.attr == 'reactor'
                for t in n.ast.targets):
            info[a]['reactor'].append(n.ast)
    built = shared.constructed_packets(db, cg, P, fi)

    def cls_of(arg):
        if isinstance(arg, ast.Name) and arg.id in built:
            return built[arg.id][0].name
        if isinstance(arg, ast.Call):
            ent = db.resolve_dotted(fi.module, arg.func)
            return getattr(ent, 'name', None)
        return None
    want = {'single': ('STATE_PLAYING', ['LoginStartPacket'],
                       'LoginReactor'),
            'multi': ('STATE_STATUS', ['RequestPacket'],
                      'PlayingStatusReactor')}
    for arm, (state, pkts, reactor) in want.items():
        d = info[arm]
        states = []
        for c in d['hs']:
            v = [k.value for k in c.keywords if k.arg == 'next_state'] or \
                list(c.args[:1])
            states.append(ast.unparse(v[0]) if v else
                          'STATE_PLAYING (default)')
        got_p = [cls_of(c.args[0]) for c in d['writes'] if c.args]
        got_r = [ast.unparse(a.value.func).split('.')[-1]
                 for a in d['reactor'] if isinstance(a.value, ast.Call)]
        if states == [state] and got_p == pkts and got_r == [reactor]:
            report.ok(R, '%s allowed version(s): handshake(%s), write %s, '
                      'reactor %s' % ('one' if arm == 'single'
                                      else 'several', state, pkts, reactor))
        else:
            report.violation(R, 'connect:%s-arm' % arm, fi.path, fi.node,
                             fi.qualname, 'with %s allowed version(s) '
                             'connect() does handshake%s, writes %s, '
                             'installs %s; expected handshake[%s], %s, [%s]'
                             % ('one' if arm == 'single' else 'several',
                                states, got_p, got_r, state, pkts, reactor))
    # login name source
    names = [n for n in live if isinstance(n.ast, ast.Assign) and any(
        isinstance(t, ast.Attribute) and t.attr == 'name'
        for t in n.ast.targets)]
    srcs = {}
    for n in names:
        conds = [(ast.unparse(e), t) for e, t in
                 boolfn.path_conditions(g, n) if 'auth_token' in
                 ast.unparse(e)]
        srcs[ast.unparse(n.ast.value)] = conds
    want_src = {'%s.auth_token.profile.name' % me:
                [('%s.auth_token' % me, True)],
                '%s.username' % me: [('%s.auth_token' % me, False)]}
    if srcs == want_src:
        report.ok(R, 'login name: profile name if a token is set, else the '
                  'configured username')
    else:
        report.violation(R, 'connect:login-name', fi.path, fi.node,
                         fi.qualname, 'the login start names %s; it must '
                         'name the authenticated profile when a token is '
                         'set and the configured username otherwise' % srcs)


# ---------------------------------------------------------------------------
def status_evaluation(report, db, cg, M, P):
    R = report.rule('R09.4', 'status evaluation order: empty -> invalid; '
                    'no version/protocol -> default version; not allowed '
                    '-> mismatch naming the server; else narrow to the '
                    'server\'s version and reconnect')
    psr = db.get_class(CONN, 'PlayingStatusReactor')
    fi = db.own_method(psr, 'handle_status')
    if fi is None:
        raise AnalysisError('PlayingStatusReactor.handle_status vanished')
    g = cfg_of(fi)
    st = fi.params[1]
    live = g.reachable_nodes()
    vm = M.conn_method('_version_mismatch')
    A = "%s == {}" % st
    B = "'version' not in %s or 'protocol' not in %s['version']" % (st, st)
    proto_src = "%s['version']['protocol']" % st
    eff = {}
    for n in live:
        if n.ast is None:
            continue
        if isinstance(n.ast, ast.Raise):
            eff.setdefault('invalid', []).append(n)
        for c in n.calls():
            f = ast.unparse(c.func)
            if f.endswith('.handle_failure'):
                eff.setdefault('default', []).append(n)
            elif any(m is vm for m, _, _ in cg.callee_funcs(fi, c)):
                eff.setdefault('mismatch', []).append((n, c))
            elif f.endswith('.handle_proto_version'):
                eff.setdefault('proceed', []).append((n, c))
    pvar = None
    for n in live:
        if isinstance(n.ast, ast.Assign) and isinstance(
                n.ast.targets[0], ast.Name) and \
                ast.unparse(n.ast.value) == proto_src:
            pvar = n.ast.targets[0].id
    if pvar is None:
        report.violation(R, 'status:proto-source', fi.path, fi.node,
                         fi.qualname, 'the server protocol is not taken '
                         'from status["version"]["protocol"]')
        return
    C = '%s not in %s.connection.allowed_proto_versions' % (pvar,
                                                             fi.params[0])
    refs = {
        'invalid': A,
        'default': 'not (%s) and (%s)' % (A, B),
        'mismatch': 'not (%s) and not (%s) and (%s)' % (A, B, C),
        'proceed': 'not (%s) and not (%s) and not (%s)' % (A, B, C),
    }
    for kind in ('invalid', 'default', 'mismatch', 'proceed'):
        nodes = eff.get(kind, [])
        if len(nodes) != 1:
            report.violation(R, 'status:%s:sites' % kind, fi.path, fi.node,
                             fi.qualname, 'expected exactly one site for '
                             'the %r outcome, found %d' % (kind, len(nodes)))
            continue
        n = nodes[0][0] if isinstance(nodes[0], tuple) else nodes[0]
        conds = boolfn.path_conditions(g, n)
        if kind == 'proceed' and eff.get('mismatch'):
            # the mismatch call raises: falling past it means it was not
            # taken
            mn = eff['mismatch'][0][0]
            mc = boolfn.path_conditions(g, mn)
            extra = [c for c in mc if c not in conds]
            if extra:
                conds = conds + [(conj(extra), False)]
        got = conj(conds)
        ref = ast.parse(refs[kind], mode='eval').body
        if boolfn.same_function(got, ref):
            report.ok(R, '%s when %s' % (kind, refs[kind]))
        else:
            report.violation(R, 'status:%s:condition' % kind, fi.path,
                             n.ast, fi.qualname, 'the %r outcome is taken '
                             'when [%s]; documented: [%s]' % (
                                 kind, ast.unparse(got), refs[kind]))
    # arguments
    if eff.get('mismatch'):
        n, c = eff['mismatch'][0]
        kw = {k.arg: ast.unparse(k.value) for k in c.keywords}
        if kw.get('server_protocol') == pvar and kw.get(
                'server_version') == "%s['version'].get('name')" % st:
            report.ok(R, '_version_mismatch(server_protocol=proto, '
                      'server_version=name)')
        else:
            report.violation(R, 'status:mismatch-args', fi.path, c,
                             fi.qualname, 'the mismatch error is built '
                             'from %s, not from the server\'s protocol and '
                             'version name' % kw)
    if eff.get('proceed'):
        n, c = eff['proceed'][0]
        if [ast.unparse(a) for a in c.args] == [pvar]:
            report.ok(R, 'handle_proto_version(proto)')
        else:
            report.violation(R, 'status:proceed-arg', fi.path, c,
                             fi.qualname, 'login proceeds with %s, not with '
                             'the server\'s protocol' % [ast.unparse(a)
                                                         for a in c.args])
    if eff.get('invalid'):
        n = eff['invalid'][0]
        if 'IOError' in ast.unparse(n.ast) or 'OSError' in ast.unparse(
                n.ast):
            report.ok(R, 'empty status raises an I/O error')
    # handle_failure -> default version; handle_proto_version narrows, then
    # connects
    hf = db.own_method(psr, 'handle_failure')
    hpv = db.own_method(psr, 'handle_proto_version')
    if hf is None or hpv is None:
        raise AnalysisError('handle_failure / handle_proto_version vanished')
    calls = [c for c in ast.walk(hf.node) if isinstance(c, ast.Call)
             and ast.unparse(c.func).endswith('handle_proto_version')]
    if len(calls) == 1 and ast.unparse(calls[0].args[0]).endswith(
            '.connection.default_proto_version'):
        report.ok(R, 'handle_failure -> handle_proto_version(default)')
    else:
        report.violation(R, 'status:default-version', hf.path, hf.node,
                         hf.qualname, 'the fallback does not use the '
                         'configured default version')
    gp = cfg_of(hpv)
    pv = hpv.params[1]
    narrow = [n for n in gp.reachable_nodes() if isinstance(
        n.ast, ast.Assign) and any(isinstance(t, ast.Attribute)
                                   and t.attr == 'allowed_proto_versions'
                                   for t in n.ast.targets)]
    conn = [n for n in gp.reachable_nodes() if n.ast is not None and any(
        ast.unparse(c.func).endswith('.connect') for c in n.calls())]
    if len(narrow) == 1 and len(conn) == 1 and \
            ast.unparse(narrow[0].ast.value) in ('{%s}' % pv,
                                                 'set([%s])' % pv,
                                                 'set((%s,))' % pv) and \
            gp.dominates(narrow[0], conn[0]):
        report.ok(R, 'allowed set narrowed to {version} before connect()')
    else:
        report.violation(R, 'status:narrow', hpv.path, hpv.node,
                         hpv.qualname, 'the allowed set is not narrowed to '
                         'exactly the chosen version before reconnecting: '
                         'the login would use another version or query the '
                         'status again')


# ---------------------------------------------------------------------------
def mismatch(report, db, cg, M, P):
    R = report.rule('R09.4m', '_version_mismatch names the server version '
                    'and states correctly whether it is unsupported or '
                    'merely not allowed')
    vm = M.conn_method('_version_mismatch')
    F = P.F
    sup = P.supported[0]
    unsup = [v for v in P.known if v not in P.supported][0]
    cases = [
        (dict(server_protocol=sup, server_version='X'), sup, 'X', True),
        (dict(server_protocol=unsup, server_version='Y'), unsup, 'Y', False),
        (dict(server_protocol=987654), 987654, None, False),
        (dict(server_protocol=sup), sup, None, True),
    ]
    for kw, proto, name, supported in cases:
        inst = Instance(M.conn, {})
        try:
            F.call_func(FuncVal(vm, bound=inst), [], dict(kw), vm.node,
                        Env(vm.module))
            report.violation(R, 'mismatch:returns', vm.path, vm.node,
                             vm.qualname, '_version_mismatch(%s) returns '
                             'instead of raising' % kw)
            continue
        except FoldRaise as e:
            exc = e
        if exc.exc_type != 'VersionMismatch' or not exc.exc_args or \
                not isinstance(exc.exc_args[0], Instance):
            report.violation(R, 'mismatch:type', vm.path, vm.node,
                             vm.qualname, 'raises %s, not VersionMismatch'
                             % exc.exc_type)
            continue
        err = exc.exc_args[0]
        msg = (err.ctor_args[0][0] if err.ctor_args and err.ctor_args[0]
               else None)
        probs = []
        if err.attrs.get('server_protocol') != proto:
            probs.append('server_protocol attribute is %r'
                         % err.attrs.get('server_protocol'))
        if err.attrs.get('server_version') != name:
            probs.append('server_version attribute is %r'
                         % err.attrs.get('server_version'))
        if isinstance(msg, str):
            says_unsupported = 'not supported' in msg
            says_allowed = 'not allowed' in msg
            if supported and not (says_allowed and not says_unsupported):
                probs.append('message %r for a supported version' % msg)
            if not supported and not (says_unsupported and
                                      not says_allowed):
                probs.append('message %r for an unsupported version' % msg)
            if str(proto) not in msg:
                probs.append('message does not name protocol %d' % proto)
        else:
            probs.append('message does not fold to a string')
        if probs:
            report.violation(R, 'mismatch:content:%s' % (
                'supported' if supported else 'unsupported'), vm.path,
                vm.node, vm.qualname, '; '.join(probs))
        else:
            report.ok(R, '%s -> %r' % (kw, msg))


# ---------------------------------------------------------------------------
def plain_status(report, db, cg, M, P):
    R = report.rule('R09.6', 'plain status: the handler gets the parsed '
                    'status exactly once; ping only if requested; every '
                    'terminal arm disconnects; status() maps '
                    'False/None/callable and installs the reactor under '
                    'the lock')
    sr = db.get_class(CONN, 'StatusReactor')
    fi = db.own_method(sr, 'react')
    arms = shared.reactor_arms(fi)
    g = cfg_of(fi)
    me, pk = fi.params[0], fi.params[1]
    if 'response' not in arms or 'ping' not in arms:
        report.violation(R, 'status:arms', fi.path, fi.node, fi.qualname,
                         'StatusReactor lacks a response or ping arm')
        return
    st, body = arms['response']
    hs = find_calls(body, lambda c: ast.unparse(c.func) ==
                    '%s.handle_status' % me)
    tests = [n for n in g.reachable_nodes() if n.kind == 'test'
             and n.ast is st.test]
    hn = []
    for h in hs:
        hn += M.cfg_nodes_of(fi, h)
    once = len(hs) == 1 and tests and g.exists_path(
        tests[0], lambda x: x is g.exit, avoid=lambda x: x in hn,
        start_labels=('true',)) is None and not any(
            g.exists_path(n, lambda x: x is n) for n in hn)
    if once:
        a = hs[0].args[0]
        src = None
        for s in body:
            for x in ast.walk(s):
                if isinstance(x, ast.Assign) and isinstance(
                        x.targets[0], ast.Name) and isinstance(a, ast.Name) \
                        and x.targets[0].id == a.id:
                    src = ast.unparse(x.value)
        if src == 'json.loads(%s.json_response)' % pk:
            report.ok(R, 'handle_status(json.loads(packet.json_response)) '
                      'exactly once')
        else:
            report.violation(R, 'status:handler-arg', fi.path, hs[0],
                             fi.qualname, 'the status handler receives %s, '
                             'not the parsed response' % src)
    else:
        report.violation(R, 'status:handler-once', fi.path, st, fi.qualname,
                         'the status handler is not called exactly once on '
                         'every path of the response arm (%d call sites)'
                         % len(hs))
    # ping only under do_ping; disconnect otherwise
    pings = find_calls(body, lambda c: isinstance(c.func, ast.Attribute)
                       and c.func.attr == 'write_packet')
    dcs = find_calls(body, lambda c: isinstance(c.func, ast.Attribute)
                     and c.func.attr == 'disconnect')
    okp = True
    for c in pings:
        for n in M.cfg_nodes_of(fi, c):
            conds = [(ast.unparse(e), t) for e, t in
                     boolfn.path_conditions(g, n) if 'do_ping' in
                     ast.unparse(e)]
            if conds != [('%s.do_ping' % me, True)]:
                okp = False
    for c in dcs:
        for n in M.cfg_nodes_of(fi, c):
            conds = [(ast.unparse(e), t) for e, t in
                     boolfn.path_conditions(g, n) if 'do_ping' in
                     ast.unparse(e)]
            if conds != [('%s.do_ping' % me, False)]:
                okp = False
    if okp and len(pings) == 1 and len(dcs) == 1:
        report.ok(R, 'response arm: ping iff do_ping, else disconnect')
    else:
        report.violation(R, 'status:ping-guard', fi.path, st, fi.qualname,
                         'the response arm must write one ping exactly when '
                         'latency was requested and disconnect otherwise '
                         '(%d pings, %d disconnects)' % (len(pings),
                                                         len(dcs)))
    st2, body2 = arms['ping']
    d2 = find_calls(body2, lambda c: isinstance(c.func, ast.Attribute)
                    and c.func.attr == 'disconnect')
    hp = find_calls(body2, lambda c: ast.unparse(c.func) ==
                    '%s.handle_ping' % me)
    if len(d2) == 1 and len(hp) == 1:
        report.ok(R, 'ping arm: disconnect and handle_ping once')
    else:
        report.violation(R, 'status:pong-arm', fi.path, st2, fi.qualname,
                         'the pong arm must disconnect and report the '
                         'latency once (%d / %d)' % (len(d2), len(hp)))
    # latency = now - sent, same clock on both sides
    sent = None
    for s in body:
        for x in ast.walk(s):
            if isinstance(x, ast.Assign) and isinstance(
                    x.targets[0], ast.Attribute) and \
                    x.targets[0].attr == 'time':
                sent = ast.unparse(x.value)
    now = None
    nowvar = None
    for s in body2:
        for x in ast.walk(s):
            if isinstance(x, ast.Assign) and isinstance(
                    x.targets[0], ast.Name) and isinstance(x.value,
                                                           ast.Call):
                nowvar, now = x.targets[0].id, ast.unparse(x.value)
    if hp and sent and now == sent and [ast.unparse(a) for a in hp[0].args] \
            == ['%s - %s.time' % (nowvar, pk)]:
        report.ok(R, 'latency = now - packet.time on one clock (%s)' % now)
    else:
        report.violation(R, 'status:latency', fi.path, st2, fi.qualname,
                         'latency is %s with sent=%s now=%s: both stamps '
                         'must come from the same clock expression and the '
                         'difference be now - sent' % (
                             [ast.unparse(a) for a in hp[0].args] if hp
                             else None, sent, now))
    # status(): handler mapping, lock
    sf = M.conn_method('status')
    gs = cfg_of(sf)
    for hname in ('handle_status', 'handle_ping'):
        stores = [n for n in gs.reachable_nodes() if isinstance(
            n.ast, ast.Assign) and any(
                isinstance(t, ast.Attribute) and t.attr == hname
                for t in n.ast.targets)]
        table = {}
        for n in stores:
            conds = [(ast.unparse(e), t) for e, t in
                     boolfn.path_conditions(gs, n) if hname in
                     ast.unparse(e)]
            val = n.ast.value
            kind = 'noop' if isinstance(val, ast.Lambda) and isinstance(
                val.body, ast.Constant) and val.body.value is None else (
                    'user' if ast.unparse(val) == hname else 'other')
            table[kind] = conds
        want = {'noop': [('%s is False' % hname, True)],
                'user': [('%s is False' % hname, False),
                         ('%s is not None' % hname, True)]}
        if table == want:
            report.ok(R, 'status(): %s False -> no-op, callable -> '
                      'installed, None -> default' % hname)
        else:
            report.violation(R, 'status:map:%s' % hname, sf.path, sf.node,
                             sf.qualname, 'the %s argument is mapped as %s'
                             % (hname, table))
    # the reactor's do_ping flag: read off the constructor call, whichever
    # way the argument is passed or pre-computed
    flag = None
    sr_ci = db.get_class('minecraft.networking.connection', 'StatusReactor')
    for n in ast.walk(sf.node):
        if isinstance(n, ast.Call):
            ent = None
            try:
                ent = db.resolve_dotted(sf.module, n.func)
            except AnalysisError:
                pass
            if ent is sr_ci:
                m = shared.call_args(db, sf.module, n)
                if m and 'do_ping' in m:
                    flag = shared.expand_locals(sf, m['do_ping'])
    ref = ast.parse('handle_ping is not False', mode='eval').body
    if flag is not None and boolfn.same_function(flag, ref):
        report.ok(R, 'do_ping = handle_ping is not False')
    else:
        report.violation(R, 'status:do-ping', sf.path, sf.node, sf.qualname,
                         'the status reactor is built with do_ping = %s; it '
                         'must ping unless handle_ping is False' % (
                             ast.unparse(flag) if flag is not None
                             else '<no StatusReactor construction>'))
    rs = [n for n in gs.reachable_nodes() if isinstance(n.ast, ast.Assign)
          and any(isinstance(t, ast.Attribute) and t.attr == 'reactor'
                  for t in n.ast.targets)]
    if rs and all(M.node_in_lock(sf, n) for n in rs):
        report.ok(R, 'status(): reactor installed while holding the lock '
                  'the new thread needs before its first write/read cycle')
    else:
        report.violation(R, 'status:reactor-unlocked', sf.path, sf.node,
                         sf.qualname, 'the StatusReactor is installed '
                         'outside the write lock: the thread started just '
                         'before may read the reply with the old reactor')


def handshake_sources(report, db, cg, M, P, R):
    hs = M.conn_method('_handshake')
    me = hs.params[0]
    vals = {}
    for n in ast.walk(hs.node):
        if isinstance(n, ast.Assign) and isinstance(n.targets[0],
                                                    ast.Attribute) and \
                isinstance(n.targets[0].value, ast.Name) and \
                n.targets[0].value.id != me:
            vals[n.targets[0].attr] = ast.unparse(n.value)
        if isinstance(n, ast.Call):
            for k in n.keywords:
                if k.arg in ('protocol_version', 'server_address',
                             'server_port', 'next_state'):
                    vals[k.arg] = ast.unparse(k.value)
    want = {'protocol_version': '%s.context.protocol_version' % me,
            'server_address': '%s.options.address' % me,
            'server_port': '%s.options.port' % me,
            'next_state': hs.params[1]}
    if vals == want:
        report.ok(R, 'handshake fields: %s' % vals)
    else:
        diff = {k: vals.get(k) for k in want if vals.get(k) != want[k]}
        report.violation(R, 'handshake:sources', hs.path, hs.node,
                         hs.qualname, 'handshake fields come from %s; '
                         'expected %s' % (diff, {k: want[k] for k in diff}))


def version_in_force(report, db, cg, M, P):
    R = report.rule('R09.8', 'connect() puts the newest allowed version in '
                    'force before the handshake and before the reactor '
                    'builds its id table')
    fi = M.conn_method('connect')
    g = cfg_of(fi)
    me = fi.params[0]
    st = [n for n in g.reachable_nodes() if isinstance(n.ast, ast.Assign)
          and any(ast.unparse(t) == '%s.context.protocol_version' % me
                  for t in n.ast.targets)]
    if len(st) != 1:
        report.violation(R, 'inforce:store', fi.path, fi.node, fi.qualname,
                         'connect() does not set context.protocol_version '
                         'exactly once')
        return
    s = st[0]
    v = s.ast.value
    okv = isinstance(v, ast.Call) and ast.unparse(v.func) == 'max' and \
        ast.unparse(v.args[0]) == '%s.allowed_proto_versions' % me and \
        any(k.arg == 'key' and ast.unparse(k.value) ==
            'PROTOCOL_VERSION_INDICES.get' for k in v.keywords)
    if okv:
        report.ok(R, 'version in force = max(allowed, key=chronological '
                  'index)')
    else:
        report.violation(R, 'inforce:value', fi.path, s.ast, fi.qualname,
                         'the version in force is %s, not the '
                         'chronologically newest allowed version'
                         % ast.unparse(v))
    later = []
    hs = M.conn_method('_handshake')
    for n in g.reachable_nodes():
        if n.ast is None:
            continue
        for c in n.calls():
            if any(m is hs for m, _, _ in cg.callee_funcs(fi, c)):
                later.append(n)
            ent = db.resolve_dotted(fi.module, c.func) if isinstance(
                c.func, (ast.Name, ast.Attribute)) else None
            if hasattr(ent, 'attrs') and db.is_subclass(ent, M.reactor):
                later.append(n)
    if later and all(g.dominates(s, n) for n in later):
        report.ok(R, 'the store dominates %d handshake / reactor '
                  'construction sites' % len(later))
    else:
        report.violation(R, 'inforce:order', fi.path, s.ast, fi.qualname,
                         'a handshake or reactor is created before the '
                         'version in force is set: it would use the '
                         'previous connection\'s version')
