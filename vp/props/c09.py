"""C09 -- status queries and version negotiation pick the right version or
the right error.  Branch structure and call ordering on the CFGs of
Connection.__init__/connect/status, PlayingStatusReactor and StatusReactor;
guards compared as boolean functions; _version_mismatch and the version
helper folded on representative inputs."""
import ast

from ..common import AnalysisError, rel
from ..callgraph import CallGraph
from ..connmodel import ConnModel, CONN
from ..cfg import cfg_of
from ..protocol import Proto
from ..fold import (Folder, Instance, Opaque, FuncVal, Env, FoldRaise,
                    ClassVal)
from .. import shared, boolfn, pathsum
from ..pathsum import struct, show, is_const, subterms
from .c10 import find_calls

SB = 'minecraft.networking.packets.serverbound'


def conj(conds):
    parts = [e if t else ast.UnaryOp(op=ast.Not(), operand=e)
             for e, t in conds]
    if not parts:
        return ast.Constant(value=True)
    return parts[0] if len(parts) == 1 else ast.BoolOp(op=ast.And(),
                                                      values=parts)


def run(report, db, tier):
    report.explanation = (
        'Negotiation is a decision tree over (allowed set size, status '
        'contents, membership).  Every path of connect(), of the status '
        'evaluation, of the status reactor and of status() is summarised '
        '(vp.pathsum: decisions in normal form, effects in order, values as '
        'terms, helpers inlined) and each leaf effect (raise invalid, '
        'default version, mismatch, proceed; handshake + login start or '
        'status request; ping / disconnect) is compared with the '
        'documented decision table.  The version helper and '
        '_version_mismatch are folded on representative constants.')
    cg = CallGraph(db)
    M = ConnModel(db, cg)
    P = Proto(db)
    S = shared.summariser(db, cg)
    construction(report, db, cg, M, P)
    # "the latest allowed version": latest by the publication order the
    # derived tables give -- which must be the order of the records
    from ..common import borrow
    from . import c08
    from ..fold import Folder

    def tables(sub):
        F = Folder(db)
        recs = c08.records_of(F, db)
        c08.compare_tables(sub, sub.rule('R08.2', ''), F.tables(),
                           c08.reference_projection(recs), None, db,
                           'after import')
    borrow(report, 'R09.1t', "the version announced and the default are the "
           "latest by publication order: the derived version tables are the "
           "order-preserving duplicate-free projection of the records "
           "(C08's table rule)",
           lambda rid, c: c.startswith('table:'), tables)
    shortcut(report, db, S, M, P)
    status_evaluation(report, db, S, M, P)
    mismatch(report, db, cg, M, P)
    R5 = report.rule('R09.5', 'EOF fallback: exactly EOFError, close '
                     'immediately, default version, handled')
    shared.eof_fallback_ps(report, R5, db, S, others_too=False)
    plain_status(report, db, S, M, P)
    R9 = report.rule('R09.9', 'the first frames of every connection are the '
                     'handshake and what connect()/status() queue after it: '
                     '_connect starts from an empty outgoing queue')
    shared.fresh_connection_state(report, R9, db, S, M, ('queue',))
    R7 = report.rule('R09.7', 'status arms: compared names exist in the '
                     'status table, fields read exist')
    sr = db.get_class(CONN, 'StatusReactor')
    shared.name_agreement_ps(report, R7, db, P, S, sr, 'status')
    R3 = report.rule('R09.3', 'handshake / request / ping packets have '
                     'every field set, from the right sources')
    n = 0
    for nm in ('_handshake', 'connect', 'status'):
        n += shared.field_completeness_ps(report, R3, db, P, S,
                                          M.conn_method(nm))
    n += shared.field_completeness_ps(report, R3, db, P, S,
                                      db.own_method(sr, 'react'))
    report.floor('negotiation write sites', n, 5)
    handshake_sources(report, db, S, M, P, R3)


# ---------------------------------------------------------------------------
def construction(report, db, cg, M, P):
    R = report.rule('R09.1', 'construction: every allowed / initial '
                    'version goes through a helper that returns a '
                    'supported protocol number or raises ValueError')
    init = M.conn_method('__init__')
    me = ('sym', init.all_params[0])
    # phase 1: what __init__ stores, with every call kept as a call (nothing
    # inlined): the validating helper is the function both inputs go through
    S0 = pathsum.PathSum(db, cg, max_depth=0, implicit_raises=False)
    initial, allowed = ('sym', 'initial_version'), ('sym', 'allowed_versions')
    if 'initial_version' not in init.params or \
            'allowed_versions' not in init.params:
        raise AnalysisError('Connection.__init__ lost its version parameters',
                            init.node, rel(init.path))

    def applied_to(t, arg_ok):
        """in-repo function V when t is V(<arg>) (None otherwise)"""
        if t[0] == 'call' and t[1][0] == 'fn' and not t[3]:
            args = [x for x in t[2] if struct(x) != me]
            if len(args) == 1 and arg_ok(args[0]):
                return t[1][1]
        return None

    def elementwise(t):
        """V when t is a collection of V(x) for x in allowed_versions"""
        while t[0] == 'op' and t[1] in ('set', 'frozenset', 'list', 'tuple',
                                        'sorted') and len(t[2]) == 1:
            t = t[2][0]
        if t[0] == 'op' and t[1] == 'map' and len(t[2]) == 2 and \
                struct(t[2][1]) == allowed and t[2][0][0] == 'fn':
            return t[2][0][1]
        if t[0] == 'op' and t[1] in ('genexp', 'listcomp', 'setcomp') and \
                len(t[2][0][1]) == 1 and struct(t[2][0][1][0]) == allowed \
                and not t[2][2][1]:
            vs = set()
            for alt in t[2][1][1]:
                vs.add(applied_to(alt[1][0], lambda a: a[0] == 'elem'
                                  and struct(a[1]) == allowed))
            if len(vs) == 1:
                return vs.pop()
        return None
    def collection_of(t, src_ok, depth=0):
        """V when t is a collection every element of which is V(x) for the
        x of a source the caller accepts; a helper that builds the
        collection is followed (one level per helper)"""
        while t[0] == 'op' and t[1] in ('set', 'frozenset', 'list', 'tuple',
                                        'sorted') and len(t[2]) == 1:
            t = t[2][0]
        if t[0] == 'op' and t[1] == 'map' and len(t[2]) == 2 and \
                src_ok(t[2][1]) and t[2][0][0] == 'fn':
            return t[2][0][1]
        if t[0] == 'call' and t[1][0] == 'fn' and not t[3] and \
                len(t[2]) == 1 and depth < 3:
            h = t[1][1]
            if isinstance(h.node, ast.Lambda) or len(h.all_params) != 1:
                return None
            par = ('sym', h.all_params[0])
            arg = t[2][0]
            vs = set()
            for q in S0.run(h):
                if not q.returns:
                    continue
                if arg[0] in ('tuple', 'list', 'set') and any(
                        a[1] == 'is' and struct(a[2][0]) == par and
                        a[2][1] == ('const', None) and pol
                        for a, pol, _ in q.conds):
                    continue    # the argument is a literal, not None
                vs.add(collection_of(
                    q.value, lambda x: struct(x) == par and src_ok(arg),
                    depth + 1) if q.value is not None else None)
            if len(vs) == 1:
                return vs.pop()
        return None

    def one_validated(t):
        """V when t is V(initial_version), or the largest / smallest of a
        collection whose only element is V(initial_version)"""
        v = applied_to(t, lambda a: struct(a) == initial)
        if v is not None:
            return v
        if t[0] == 'op' and t[1] in ('max', 'min') and t[2]:
            return collection_of(
                t[2][0], lambda x: x[0] in ('tuple', 'list', 'set') and
                len(x[1]) == 1 and struct(x[1][0]) == initial)
        return None
    def plain(t, depth=0):
        """a collection-building helper called with a literal argument (or
        None) is what its one matching path returns"""
        if t[0] == 'call' and t[1][0] == 'fn' and not t[3] and \
                len(t[2]) == 1 and depth < 3 and not isinstance(
                    t[1][1].node, ast.Lambda) and \
                len(t[1][1].all_params) == 1 and (
                    t[2][0] == ('const', None) or
                    t[2][0][0] in ('tuple', 'list', 'set')):
            h = t[1][1]
            par = ('sym', h.all_params[0])
            arg = t[2][0]
            outs = []
            for q in S0.run(h):
                if not q.returns or q.value is None:
                    continue
                isnone = [pol for a, pol, _ in q.conds if a[1] == 'is'
                          and struct(a[2][0]) == par
                          and a[2][1] == ('const', None)]
                if isnone and isnone[0] != (arg == ('const', None)):
                    continue
                outs.append(pathsum.replace(q.value, par, arg))
            if len(outs) == 1:
                return plain(outs[0], depth + 1)
        return t
    val_init, val_allowed = set(), set()
    bypass = []
    default_bad = []
    npaths = 0
    for p in S0.run(init):
        if not p.returns:
            continue
        npaths += 1
        none_i = none_a = None
        for a, pol, _ in p.conds:
            if a[1] == 'is' and a[2][1] == ('const', None):
                if struct(a[2][0]) == initial:
                    none_i = pol
                elif struct(a[2][0]) == allowed:
                    none_a = pol
        for e in p.flat(('store',)):
            if struct(e.base) != me:
                continue
            if e.attr == 'default_proto_version' and none_i is False:
                v = one_validated(e.value)
                if v is None:
                    bypass.append((e, 'initial_version is stored as %s'
                                   % show(e.value)))
                else:
                    val_init.add(v)
            elif e.attr == 'default_proto_version' and none_i is True:
                # no initial version: the default is the latest *allowed*
                # one (what this path stored as the allowed set)
                stored = [x.value for x in p.flat(('store',))
                          if struct(x.base) == me and
                          x.attr == 'allowed_proto_versions']
                t = e.value
                coll = t[2][0] if t[0] == 'op' and t[1] == 'max' and t[2] \
                    else None
                if coll is None or not stored or \
                        struct(plain(coll)) != struct(plain(stored[-1])):
                    default_bad.append((e, show(t)[:120]))
            elif e.attr == 'default_proto_version' and none_i is None:
                bypass.append((e, 'the default version does not depend on '
                               'initial_version being given'))
            elif e.attr == 'allowed_proto_versions' and none_a is False:
                v = elementwise(e.value)
                if v is None:
                    bypass.append((e, 'allowed_versions are stored as %s'
                                   % show(e.value)[:100]))
                else:
                    val_allowed.add(v)
            elif e.attr == 'allowed_proto_versions' and none_a is None:
                bypass.append((e, 'the allowed versions do not depend on '
                               'allowed_versions being given'))
    if not npaths:
        raise AnalysisError('Connection.__init__: no returning path',
                            init.node, rel(init.path))
    for e, why in bypass[:3]:
        report.violation(R, 'helper:bypassed', init.path, e.node,
                         init.qualname, '%s: it does not pass through the '
                         'validating helper' % why)
    for e, what in default_bad[:1]:
        report.violation(R, 'default:not-latest-allowed', init.path, e.node,
                         init.qualname, 'without an initial_version the '
                         'default version is %s: not the latest of the '
                         'allowed versions -- the fallback after a failed '
                         'status query then logs in with a version the '
                         'caller did not allow' % what)
    if not default_bad:
        report.ok(R, 'without an initial_version the default is the latest '
                  'allowed version')
    if bypass:
        return
    if len(val_init) != 1 or val_init != val_allowed:
        raise AnalysisError('Connection.__init__: version helper not found '
                            '(initial: %s, allowed: %s)' % (
                                sorted(f.qualname for f in val_init),
                                sorted(f.qualname for f in val_allowed)),
                            init.node, rel(init.path))
    h = val_init.pop()
    report.ok(R, 'allowed_versions and initial_version are both mapped '
              'through %s' % h.name)
    # phase 2: the helper itself, by its path summaries: a value is returned
    # only after it was found in SUPPORTED_PROTOCOL_VERSIONS; every other
    # path raises ValueError
    S1 = pathsum.PathSum(db, cg, implicit_raises=False,
                         inline_pred=pathsum.known_unit_pred())
    okk = True
    nret = 0
    for p in S1.run(h):
        if p.returns:
            nret += 1
            v = p.value
            member = [pol for a, pol, _ in p.conds if a[1] == 'in'
                      and struct(a[2][0]) == struct(v)
                      and a[2][1][0] == 'glob'
                      and a[2][1][2] == 'SUPPORTED_PROTOCOL_VERSIONS']
            if member != [True]:
                okk = False
                report.violation(R, 'helper:return-unchecked', h.path,
                                 p.outcome[2], h.qualname, 'the helper can '
                                 'return %s without it having been found in '
                                 'SUPPORTED_PROTOCOL_VERSIONS [%s]'
                                 % (show(v), p.cond_text()))
        elif p.raises:
            ex = p.outcome[1]
            if not (ex[0] == 'call' and ex[1] == ('builtin', 'ValueError')):
                okk = False
                report.violation(R, 'helper:raises-other', h.path,
                                 p.outcome[2], h.qualname, 'an unsupported '
                                 'version raises %s, not ValueError'
                                 % show(ex))
    if okk and nret:
        report.ok(R, 'every return of %s is a member of '
                  'SUPPORTED_PROTOCOL_VERSIONS' % h.name)
    elif not nret:
        report.violation(R, 'helper:never-returns', h.path, h.node,
                         h.qualname, 'the helper never returns a version')
    # folding on representative inputs
    F = P.F
    sup = P.supported[-1]
    unsup = [v for v in P.known if v not in P.supported][0]
    supname = [k for k, v in P.T['SUPPORTED_MINECRAFT_VERSIONS'].items()
               if v == sup][0]
    unsupname = [k for k, v in P.T['KNOWN_MINECRAFT_VERSIONS'].items()
                 if v == unsup][0]
    cases = [(sup, sup), (supname, sup), (unsup, 'ValueError'),
             (unsupname, 'ValueError'), (999999, 'ValueError'),
             ('no-such-version', 'ValueError'), (None, 'ValueError'),
             (1.5, 'ValueError')]
    # the whole finite domain: every version name and every protocol number
    # the tables know -- a name is accepted exactly when it is a supported
    # name (an unsupported snapshot may share its protocol number with a
    # supported release), a number exactly when it is a supported number
    supported_names = P.T['SUPPORTED_MINECRAFT_VERSIONS']
    seen_args = set(a for a, _ in cases if isinstance(a, (str, int)))
    for name, proto in P.T['KNOWN_MINECRAFT_VERSIONS'].items():
        if name not in seen_args:
            cases.append((name, supported_names[name]
                          if name in supported_names else 'ValueError'))
    for proto in P.known:
        if proto not in seen_args:
            cases.append((proto, proto if proto in P.supported
                          else 'ValueError'))
    nbad = 0
    cenv = closure_env(F, h)
    for arg, want in cases:
        try:
            got = F.call_func(FuncVal(h, closure=cenv), [arg], {},
                              h.node, Env(h.module))
        except FoldRaise as e:
            got = e.exc_type
        if got == want:
            report.ok(R, '%s(%r) -> %r' % (h.name, arg, got))
        else:
            nbad += 1
            if nbad <= 5:
                report.violation(
                    R, 'helper:value:%r' % (arg,), h.path, h.node,
                    h.qualname, '%s(%r) folds to %r, expected %r'
                    % (h.name, arg, got, want))


def closure_env(F, h):
    """Folding environment of a nested helper: the module's names plus the
    enclosing function's locals the helper reads, when those are assigned
    once, at the top level of the enclosing body, from an expression over
    module-level names (a table of readers, a constant)."""
    env = Env(h.module)
    outer = getattr(h, 'outer', None)
    if outer is None or isinstance(outer.node, ast.Lambda):
        return env
    local = set(h.params)
    for x in ast.walk(h.node):
        if isinstance(x, ast.Name) and isinstance(x.ctx, ast.Store):
            local.add(x.id)
    free = {x.id for x in ast.walk(h.node) if isinstance(x, ast.Name)
            and isinstance(x.ctx, ast.Load)} - local
    for st in outer.node.body:
        if isinstance(st, ast.Assign) and len(st.targets) == 1 and \
                isinstance(st.targets[0], ast.Name) and \
                st.targets[0].id in free:
            nm = st.targets[0].id
            stores = [y for y in ast.walk(outer.node)
                      if isinstance(y, ast.Name) and y.id == nm
                      and isinstance(y.ctx, ast.Store)]
            if len(stores) != 1:
                continue
            try:
                env.vars[nm] = F.eval(st.value, Env(h.module))
            except (AnalysisError, FoldRaise):
                pass
    return env


def does_nothing(S, f):
    """the function accepts any arguments, has no effect and returns None
    on every path"""
    a = f.node.args
    if a.vararg is None or a.kwarg is None or a.args or a.kwonlyargs or \
            a.posonlyargs:
        return False
    if isinstance(f.node, ast.Lambda):
        return isinstance(f.node.body, ast.Constant) and \
            f.node.body.value is None
    sub = pathsum.PathSum(S.db, S.cg, implicit_raises=False, max_depth=0)
    paths = sub.run(f)
    return bool(paths) and all(
        (p.returns and p.value == ('const', None) or p.outcome[0] == 'fall')
        and not p.events for p in paths)


# ---------------------------------------------------------------------------
def sy(n):
    return ('sym', n)


def at(base, *names):
    for n in names:
        base = ('attr', base, n)
    return base


def obj_class(t, name):
    return t[0] == 'obj' and t[2].split('.')[-1] == name


def call_arg(e, fi_target, name, skip_self=True):
    """argument bound to parameter `name` of the (unit) callee of event e"""
    kw = dict(e.kwargs)
    if name in kw:
        return kw[name]
    params = list(fi_target.params)
    args = list(e.args)
    if fi_target.kind in ('instance', 'class') and len(args) < len(params) \
            and skip_self:
        params = params[1:]
    elif fi_target.kind in ('instance', 'class') and skip_self and \
            len(args) == len(params):
        pass
    if name in params and params.index(name) < len(args):
        return args[params.index(name)]
    return None


def shortcut(report, db, S, M, P):
    R = report.rule('R09.2', 'connect(): exactly one allowed version -> '
                    'handshake(playing) + login start naming the profile '
                    'or user + LoginReactor, no status request; otherwise '
                    'handshake(status) + request + PlayingStatusReactor')
    R8 = report.rule('R09.8', 'connect() puts the newest allowed version in '
                     'force before the handshake and before the reactor '
                     'builds its id table')
    fi = M.conn_method('connect')
    me = sy(fi.all_params[0])
    hs = M.conn_method('_handshake')
    consts = {'STATE_PLAYING': P.F.module_global(fi.module, 'STATE_PLAYING'),
              'STATE_STATUS': P.F.module_global(fi.module, 'STATE_STATUS')}
    single = ('op', '==', (('op', 'len', (at(me, 'allowed_proto_versions'),)),
                           ('const', 1)))
    want = {True: ('STATE_PLAYING', ['LoginStartPacket'], 'LoginReactor'),
            False: ('STATE_STATUS', ['RequestPacket'],
                    'PlayingStatusReactor')}
    seen = {True: 0, False: 0}
    prob = {}
    names = {}
    inforce = []
    for p in S.run(fi):
        if not p.returns:
            continue
        arm = None
        for a, pol, _ in p.conds:
            if struct(a) == single:
                arm = pol
        evs = p.flat(('call', 'store'))
        hcalls = [e for e in evs if e.calls(hs)]
        writes = shared.written_packets(p, P, db)
        reactor = [e for e in evs if e.kind == 'store'
                   and struct(e.base) == me and e.attr == 'reactor']
        if not (hcalls or writes or reactor):
            continue
        if arm is None:
            prob['connect:handshake-unguarded'] = (
                hcalls[0].node if hcalls else fi.node,
                'a handshake is sent outside the single/multi version '
                'decision')
            continue
        seen[arm] += 1
        state, pkts, rname = want[arm]
        states = []
        for e in hcalls:
            v = call_arg(e, hs, 'next_state')
            if v is None:
                d = hs.node.args.defaults
                v = ('const', consts['STATE_PLAYING']) if d else None
            states.append(v[1] if v is not None and is_const(v) else
                          show(v) if v is not None else None)
        got_p = [o[2].split('.')[-1] for _, o, _ in writes]
        got_r = [e.value[2].split('.')[-1] if e.value[0] == 'obj'
                 else show(e.value) for e in reactor]
        if not (states == [consts[state]] and got_p == pkts
                and got_r == [rname]):
            prob['connect:%s-arm' % ('single' if arm else 'multi')] = (
                fi.node, 'with %s allowed version(s) connect() does '
                'handshake%s, writes %s, installs %s; expected '
                'handshake[%s], %s, [%s]' % (
                    'one' if arm else 'several', states, got_p, got_r,
                    state, pkts, rname))
        # the login name
        if arm:
            tok = None
            for a, pol, _ in p.conds:
                if a[1] == 'truth' and struct(a[2][0]) == at(me,
                                                             'auth_token'):
                    tok = pol
                if a[1] == 'is' and struct(a[2][0]) == at(
                        me, 'auth_token') and a[2][1] == ('const', None):
                    tok = not pol
            for _, o, fields in writes:
                if obj_class(o, 'LoginStartPacket'):
                    names[tok] = fields.get('name')
        # R09.8: the version in force
        st = [i for i, e in enumerate(evs) if e.kind == 'store'
              and struct(e.base) == at(me, 'context')
              and e.attr == 'protocol_version']
        later = [i for i, e in enumerate(evs) if e.calls(hs) or (
            e.kind == 'store' and e.base[0] == 'obj' and e.base[3]
            is not None and db.is_subclass(e.base[3], M.reactor))]
        inforce.append((p, [evs[i] for i in st],
                        bool(st) and bool(later) and st[0] < min(later)))
    for arm in (True, False):
        if not seen[arm] and not prob:
            prob['connect:%s-arm' % ('single' if arm else 'multi')] = (
                fi.node, 'no path of connect() handles %s allowed '
                'version(s)' % ('exactly one' if arm else 'several'))
    for key, (node, msg) in sorted(prob.items()):
        report.violation(R, key, fi.path, node, fi.qualname, msg)
    if not prob:
        report.ok(R, 'one allowed version: handshake(playing), login '
                  'start, LoginReactor; several: handshake(status), '
                  'request, PlayingStatusReactor')
    want_names = {True: at(me, 'auth_token', 'profile', 'name'),
                  False: at(me, 'username')}
    got_names = {k: struct(v) if v is not None else None
                 for k, v in names.items()}
    if got_names == want_names:
        report.ok(R, 'login name: profile name if a token is set, else the '
                  'configured username')
    else:
        report.violation(R, 'connect:login-name', fi.path, fi.node,
                         fi.qualname, 'the login start names %s; it must '
                         'name the authenticated profile when a token is '
                         'set and the configured username otherwise' % {
                             {True: 'with a token', False: 'without a token',
                              None: 'regardless of the token'}[k]:
                             show(v) if v is not None else None
                             for k, v in names.items()})
    # R09.8
    if not inforce or any(len(sts) != 1 for _, sts, _ in inforce):
        report.violation(R8, 'inforce:store', fi.path, fi.node, fi.qualname,
                         'connect() does not set context.protocol_version '
                         'exactly once on every path')
        return
    vals = set()
    for _, sts, _ in inforce:
        v = sts[0].value
        okv = v[0] == 'op' and v[1] == 'max' and len(v[2]) == 2 and \
            struct(v[2][0]) == at(me, 'allowed_proto_versions') and \
            v[2][1][0] == 'op' and v[2][1][1] == 'kw:key' and \
            struct(v[2][1][2][0]) in (
                ('attr', ('glob', 'minecraft', 'PROTOCOL_VERSION_INDICES'),
                 'get'),) or (
            v[0] == 'op' and v[1] == 'max' and len(v[2]) == 2 and
            struct(v[2][0]) == at(me, 'allowed_proto_versions') and
            v[2][1][0] == 'op' and v[2][1][1] == 'kw:key' and
            v[2][1][2][0][0] == 'attr' and v[2][1][2][0][2] == 'get' and
            v[2][1][2][0][1][0] == 'glob' and
            v[2][1][2][0][1][2] == 'PROTOCOL_VERSION_INDICES')
        vals.add((okv, show(v)))
    if all(k for k, _ in vals):
        report.ok(R8, 'version in force = max(allowed, key=chronological '
                  'index)')
    else:
        report.violation(R8, 'inforce:value', fi.path, inforce[0][1][0].node,
                         fi.qualname, 'the version in force is %s, not the '
                         'chronologically newest allowed version'
                         % sorted(t for k, t in vals if not k))
    if all(o for _, _, o in inforce):
        report.ok(R8, 'the store precedes the handshake and the reactor '
                  'construction on %d path(s)' % len(inforce))
    else:
        report.violation(R8, 'inforce:order', fi.path, inforce[0][1][0].node,
                         fi.qualname, 'a handshake or reactor is created '
                         'before the version in force is set: it would use '
                         'the previous connection\'s version')


# ---------------------------------------------------------------------------
def status_evaluation(report, db, S, M, P):
    R = report.rule('R09.4', 'status evaluation order: empty -> invalid; '
                    'no version/protocol -> default version; not allowed '
                    '-> mismatch naming the server; else narrow to the '
                    'server\'s version and reconnect')
    psr = db.get_class(CONN, 'PlayingStatusReactor')
    fi = db.own_method(psr, 'handle_status')
    if fi is None:
        raise AnalysisError('PlayingStatusReactor.handle_status vanished')
    me, st = sy(fi.all_params[0]), sy(fi.all_params[1])
    vm = M.conn_method('_version_mismatch')
    hf = db.own_method(psr, 'handle_failure')
    hpv = db.own_method(psr, 'handle_proto_version')
    if hf is None or hpv is None:
        raise AnalysisError('handle_failure / handle_proto_version vanished')
    ver = ('op', 'index', (st, ('const', 'version')))
    proto = ('op', 'index', (ver, ('const', 'protocol')))
    allowed = at(me, 'connection', 'allowed_proto_versions')

    def facts(p):
        f = dict(empty=None, has_version=None, has_proto=None, allowed=None)
        for a, pol, _ in p.conds:
            sa = struct(a)
            if sa[1] == '==' and set(sa[2]) == {st, ('dict', ())}:
                f['empty'] = pol
            elif sa[1] == 'truth' and sa[2][0] == st:
                f['empty'] = not pol
            elif sa[1] == 'in' and sa[2] == (('const', 'version'), st):
                f['has_version'] = pol
            elif sa[1] == 'in' and sa[2] == (('const', 'protocol'), ver):
                f['has_proto'] = pol
            elif sa[1] == 'in' and sa[2][1] == allowed:
                f['allowed'] = (pol, a[2][0])
        return f
    outcomes = {}
    prob = []
    for p in S.run(fi):
        f = facts(p)
        evs = p.flat(('call',))
        kinds = []
        for e in evs:
            if e.calls(hf):
                kinds.append(('default', e))
            elif e.calls(vm):
                kinds.append(('mismatch', e))
            elif e.calls(hpv):
                kinds.append(('proceed', e))
        if p.raises and len(p.outcome) == 3:
            kinds.append(('invalid', None))
        if f['empty'] is True:
            want = 'invalid'
        elif f['empty'] is False and (f['has_version'] is False or (
                f['has_version'] and f['has_proto'] is False)):
            want = 'default'
        elif f['empty'] is False and f['has_version'] and f['has_proto'] \
                and f['allowed'] is not None:
            want = 'proceed' if f['allowed'][0] else 'mismatch'
            if struct(f['allowed'][1]) != proto:
                prob.append(('status:proto-source', fi.node, 'the server '
                             'protocol tested against the allowed set is '
                             '%s, not status["version"]["protocol"]'
                             % show(f['allowed'][1])))
        else:
            want = None
        got = [k for k, _ in kinds]
        outcomes.setdefault(want, []).append((p, kinds))
        if want is None:
            if got:
                prob.append(('status:%s:condition' % got[0], fi.node,
                             'the %r outcome is taken when [%s]; the '
                             'documented order is: empty -> invalid, no '
                             'version/protocol -> default, not allowed -> '
                             'mismatch, else proceed' % (got[0],
                                                         p.cond_text())))
            continue
        if got != [want]:
            prob.append(('status:%s:condition' % want, fi.node, 'when [%s] '
                         'the outcome is %s; documented: %s' % (
                             p.cond_text(), got or 'nothing', want)))
            continue
        e = kinds[0][1]
        if want == 'invalid':
            v = p.outcome[1]
            cls = v[1][1] if v[0] == 'call' and v[1][0] in ('builtin',
                                                             'ext') else ''
            if cls.split('.')[-1] not in ('IOError', 'OSError'):
                prob.append(('status:invalid:type', p.outcome[2], 'an empty '
                             'status raises %s' % show(v)))
        elif want == 'mismatch':
            sp = call_arg(e, vm, 'server_protocol')
            sv = call_arg(e, vm, 'server_version')
            name_ok = sv is not None and (
                (sv[0] == 'call' and sv[1][0] == 'attr' and sv[1][2] == 'get'
                 and struct(sv[1][1]) == ver
                 and sv[2][:1] == (('const', 'name'),))
                or struct(sv) == ('op', 'index', (ver, ('const', 'name'))))
            if sp is None or struct(sp) != proto or not name_ok:
                prob.append(('status:mismatch-args', e.node, 'the mismatch '
                             'error is built from %s / %s, not from the '
                             'server\'s protocol and version name' % (
                                 show(sp) if sp else None,
                                 show(sv) if sv else None)))
        elif want == 'proceed':
            a = [x for x in e.args if struct(x) != me]
            if [struct(x) for x in a] != [proto]:
                prob.append(('status:proceed-arg', e.node, 'login proceeds '
                             'with %s, not with the server\'s protocol'
                             % [show(x) for x in a]))
    for kind in ('invalid', 'default', 'mismatch', 'proceed'):
        if kind not in outcomes and not prob:
            prob.append(('status:%s:sites' % kind, fi.node, 'no path '
                         'decides the %r outcome' % kind))
    seen = set()
    for key, node, msg in prob:
        if key in seen:
            continue
        seen.add(key)
        report.violation(R, key, fi.path, node, fi.qualname, msg)
    if not prob:
        report.ok(R, 'empty -> invalid (I/O error); no version/protocol -> '
                  'default; not allowed -> _version_mismatch(protocol, '
                  'name); allowed -> handle_proto_version(protocol)')
    # handle_failure -> default version
    okd = True
    for p in S.run(hf):
        cs = [e for e in p.calls() if e.calls(hpv)]
        hme = sy(hf.all_params[0])
        if len(cs) != 1 or [struct(x) for x in cs[0].args
                            if struct(x) != hme] != [
                at(hme, 'connection', 'default_proto_version')]:
            okd = False
    if okd:
        report.ok(R, 'handle_failure -> handle_proto_version(default)')
    else:
        report.violation(R, 'status:default-version', hf.path, hf.node,
                         hf.qualname, 'the fallback does not use the '
                         'configured default version')
    # handle_proto_version narrows, then connects
    pme, pv = sy(hpv.all_params[0]), sy(hpv.all_params[1])
    okn = True
    for p in S.run(hpv):
        evs = p.flat(('call', 'store'))
        nar = [i for i, e in enumerate(evs) if e.kind == 'store'
               and struct(e.base) == at(pme, 'connection')
               and e.attr == 'allowed_proto_versions']
        con = [i for i, e in enumerate(evs) if e.kind == 'call'
               and e.method() == 'connect']
        if len(nar) != 1 or len(con) != 1 or nar[0] > con[0]:
            okn = False
            continue
        v = struct(evs[nar[0]].value)
        if v not in (('set', (pv,)),
                     ('op', 'set', (('list', (pv,)),)),
                     ('op', 'set', (('tuple', (pv,)),)),
                     ('op', 'frozenset', (('tuple', (pv,)),)),
                     ('op', 'frozenset', (('list', (pv,)),))):
            okn = False
    if okn:
        report.ok(R, 'allowed set narrowed to {version} before connect()')
    else:
        report.violation(R, 'status:narrow', hpv.path, hpv.node,
                         hpv.qualname, 'the allowed set is not narrowed to '
                         'exactly the chosen version before reconnecting: '
                         'the login would use another version or query the '
                         'status again')


# ---------------------------------------------------------------------------
def mismatch(report, db, cg, M, P, rule_id='R09.4m'):
    R = report.rule(rule_id, '_version_mismatch raises VersionMismatch, '
                    'names the server version and states correctly whether '
                    'it is unsupported or merely not allowed, however its '
                    'two arguments are given')
    vm = M.conn_method('_version_mismatch')
    F = P.F
    sup = P.supported[0]
    unsup = [v for v in P.known if v not in P.supported][0]
    supname = [k for k, v in P.T['KNOWN_MINECRAFT_VERSIONS'].items()
               if v == sup][0]
    unsupname = [k for k, v in P.T['KNOWN_MINECRAFT_VERSIONS'].items()
                 if v == unsup][0]
    # every way the two arguments can be given: a number, a name the tables
    # know (supported or not), a name they do not know, nothing
    cases = [
        (dict(server_protocol=sup, server_version='X'), sup, 'X', True),
        (dict(server_protocol=unsup, server_version='Y'), unsup, 'Y', False),
        (dict(server_protocol=987654), 987654, None, False),
        (dict(server_protocol=sup), sup, None, True),
        (dict(server_version=supname), sup, supname, True),
        (dict(server_version=unsupname), unsup, unsupname, False),
        (dict(server_version='9.99-nowhere'), None, '9.99-nowhere', False),
        (dict(), None, None, False),
    ]
    for kw, proto, name, supported in cases:
        inst = Instance(M.conn, {})
        try:
            F.call_func(FuncVal(vm, bound=inst), [], dict(kw), vm.node,
                        Env(vm.module))
            report.violation(R, 'mismatch:returns', vm.path, vm.node,
                             vm.qualname, '_version_mismatch(%s) returns '
                             'instead of raising' % kw)
            continue
        except FoldRaise as e:
            exc = e
        if exc.exc_type != 'VersionMismatch' or not exc.exc_args or \
                not isinstance(exc.exc_args[0], Instance):
            report.violation(R, 'mismatch:type', vm.path, vm.node,
                             vm.qualname, 'raises %s, not VersionMismatch'
                             % exc.exc_type)
            continue
        err = exc.exc_args[0]
        msg = (err.ctor_args[0][0] if err.ctor_args and err.ctor_args[0]
               else None)
        probs = []
        if err.attrs.get('server_protocol') != proto:
            probs.append('server_protocol attribute is %r'
                         % err.attrs.get('server_protocol'))
        if err.attrs.get('server_version') != name:
            probs.append('server_version attribute is %r'
                         % err.attrs.get('server_version'))
        if isinstance(msg, str):
            says_unsupported = 'not supported' in msg
            says_allowed = 'not allowed' in msg
            if supported and not (says_allowed and not says_unsupported):
                probs.append('message %r for a supported version' % msg)
            if not supported and not (says_unsupported and
                                      not says_allowed):
                probs.append('message %r for an unsupported version' % msg)
            if proto is not None and str(proto) not in msg:
                probs.append('message does not name protocol %d' % proto)
            if name is not None and proto is None and name not in msg:
                probs.append('message does not name version %r' % name)
        else:
            probs.append('message does not fold to a string')
        if probs:
            report.violation(R, 'mismatch:content:%s' % (
                'supported' if supported else 'unsupported'), vm.path,
                vm.node, vm.qualname, '; '.join(probs))
        else:
            report.ok(R, '%s -> %r' % (kw, msg))


# ---------------------------------------------------------------------------
def plain_status(report, db, S, M, P, rule_id='R09.6', only=None):
    R = report.rule(rule_id, 'plain status: the handler gets the parsed '
                    'status exactly once, after the connection was closed '
                    'when the arm closes it; ping only if requested; every '
                    'terminal arm disconnects; status() maps '
                    'False/None/callable and installs the reactor under '
                    'the lock')
    sr = db.get_class(CONN, 'StatusReactor')
    fi = db.own_method(sr, 'react')
    me, pk = sy(fi.all_params[0]), sy(fi.all_params[1])
    disconnect = M.conn_method('disconnect')
    paths = S.run(fi)
    arms = {}
    for p in paths:
        arms.setdefault(shared.arm_of(p, pk), []).append(p)
    if 'response' not in arms or 'ping' not in arms:
        report.violation(R, 'status:arms', fi.path, fi.node, fi.qualname,
                         'StatusReactor lacks a response or ping arm')
        return
    do_ping = at(me, 'do_ping')

    def ping_fact(p):
        for a, pol, _ in p.conds:
            if a[1] == 'truth' and struct(a[2][0]) == do_ping:
                return pol
        return None
    prob = {}
    sent_clock = None
    for p in arms['response']:
        evs = p.flat(('call',))
        hcalls = [e for e in evs if e.fn[0] == 'attr'
                  and struct(e.fn[1]) == me and e.fn[2] == 'handle_status'
                  or e.fn[0] == 'fn' and e.method() == 'handle_status']
        if len(hcalls) != 1:
            prob['status:handler-once'] = (
                'the status handler is not called exactly once on every '
                'path of the response arm (%d calls when [%s])'
                % (len(hcalls), p.cond_text()))
        else:
            a = [x for x in hcalls[0].args if struct(x) != me]
            want = ('call', ('ext', 'json.loads'),
                    (at(pk, 'json_response'),), (), None)
            if [struct(x) for x in a] != [want]:
                prob['status:handler-arg'] = (
                    'the status handler receives %s, not the parsed '
                    'response' % [show(x) for x in a])
        pf = ping_fact(p)
        pings = [w for w in shared.written_packets(p, P, db)
                 if obj_class(w[1], 'PingPacket')]
        dcs = [e for e in evs if e.calls(disconnect)]
        if dcs and hcalls and evs.index(dcs[0]) > evs.index(hcalls[0]):
            prob['status:handler-before-close'] = (
                'the status handler runs before the connection is closed: '
                'a handler that reconnects (as the negotiating reactor '
                'does) finds the connection still active, or has its new '
                'connection closed under it')
        if pf is None or len(pings) != (1 if pf else 0) or \
                len(dcs) != (0 if pf else 1):
            prob['status:ping-guard'] = (
                'the response arm must write one ping exactly when latency '
                'was requested and disconnect otherwise (%d pings, %d '
                'disconnects when [%s])' % (len(pings), len(dcs),
                                            p.cond_text()))
        for _, o, fields in pings:
            sent_clock = fields.get('time')
    now_minus = None
    n_pong = 0
    for p in arms['ping']:
        evs = p.flat(('call',))
        pf = ping_fact(p)
        hp = [e for e in evs if e.method() == 'handle_ping']
        dcs = [e for e in evs if e.calls(disconnect)]
        if pf is False:
            # latency was not requested: a stray pong is ignored
            if hp or dcs:
                prob['status:pong-arm'] = (
                    'a pong is processed although no ping was requested')
            continue
        n_pong += 1
        if len(dcs) != 1 or len(hp) != 1:
            prob['status:pong-arm'] = (
                'the pong arm must disconnect and report the latency once '
                '(%d / %d)' % (len(dcs), len(hp)))
        elif hp:
            a = [x for x in hp[0].args if struct(x) != me]
            now_minus = a[0] if len(a) == 1 else None
            if evs.index(dcs[0]) > evs.index(hp[0]):
                prob['status:handler-before-close'] = (
                    'the latency handler runs before the connection is '
                    'closed: a handler that reuses the connection object '
                    'finds it still active (InvalidState), or has the '
                    'connection it opens closed by the trailing '
                    'disconnect()')
    if not n_pong:
        prob.setdefault('status:pong-arm', 'no path of the pong arm reports '
                        'the latency')
    # latency = now - sent, same clock on both sides
    okl = False
    if sent_clock is not None and now_minus is not None and \
            now_minus[0] == 'op' and now_minus[1] == '-':
        now, sent = now_minus[2]
        okl = struct(now) == struct(sent_clock) and struct(sent) == at(
            pk, 'time') and any(t[0] == 'call' for t in subterms(now))
    if not okl and 'status:pong-arm' not in prob:
        prob['status:latency'] = (
            'latency is %s with sent=%s: both stamps must come from the '
            'same clock expression and the difference be now - sent' % (
                show(now_minus) if now_minus else None,
                show(sent_clock) if sent_clock else None))
    if only is not None:
        # another property asks for some of these clauses only
        for key, msg in sorted(prob.items()):
            if key in only:
                report.violation(R, key, fi.path, fi.node, fi.qualname, msg)
        if not any(k in only for k in prob):
            report.ok(R, 'status arms: user handlers run after the close')
        return
    for key, msg in sorted(prob.items()):
        report.violation(R, key, fi.path, fi.node, fi.qualname, msg)
    if not prob:
        report.ok(R, 'response arm: handle_status(json.loads(response)) '
                  'once; ping iff do_ping, else disconnect')
        report.ok(R, 'ping arm: disconnect and handle_ping(now - '
                  'packet.time) once, one clock')
    # status(): handler mapping, do_ping, lock
    sf = M.conn_method('status')
    sme = sy(sf.all_params[0])
    table = {'handle_status': {}, 'handle_ping': {}}
    flag = set()
    locked = True
    nst = 0
    for p in S.run(sf):
        if not p.returns:
            continue
        rs = [e for e in p.flat(('store',)) if struct(e.base) == sme
              and e.attr == 'reactor']
        if not rs:
            continue
        nst += 1
        r = rs[-1].value
        if not lock_held(rs[-1].held, sme, M):
            locked = False
        for hname in table:
            h = sy(hname)
            state = None
            for a, pol, _ in p.conds:
                if a[1] == 'is' and struct(a[2][0]) == h and is_const(
                        a[2][1]):
                    if a[2][1][1] is False and pol:
                        state = 'false'
                    elif a[2][1][1] is None and pol:
                        state = 'none'
            if state is None:
                state = 'callable'
            v = p.heap.get((r, hname))
            if v is None:
                kind = 'default'
            elif struct(v) == h:
                kind = 'user'
            elif v[0] == 'fn' and len(v) > 2 and v[2] == r and \
                    r[0] == 'obj' and r[3] is not None and \
                    v[1] is db.find_method(r[3], hname):
                # the reactor's own method stored back on the reactor: what
                # the attribute meant before the store
                kind = 'default'
            elif v[0] == 'fn' and does_nothing(S, v[1]):
                kind = 'noop'
            else:
                kind = show(v)
            table[hname].setdefault(state, set()).add(kind)
        dp = p.heap.get((r, 'do_ping'))
        hpf = None
        for a, pol, _ in p.conds:
            if a[1] == 'is' and struct(a[2][0]) == sy('handle_ping') and \
                    a[2][1] == ('const', False):
                hpf = pol
        if dp is None:
            flag.add('unset')
        elif is_const(dp):
            flag.add('ok' if hpf is not None and dp[1] == (not hpf)
                     else 'const %r when handle_ping is False: %s' % (
                         dp[1], hpf))
        elif struct(dp) in (('op', 'isnot', (sy('handle_ping'),
                                             ('const', False))),
                            ('op', 'not', (('op', 'is', (
                                sy('handle_ping'), ('const', False))),))):
            flag.add('ok')
        else:
            flag.add(show(dp))
    if not nst:
        raise AnalysisError('status(): no path installs a reactor', sf.node,
                            rel(sf.path))
    want = {'false': {'noop'}, 'none': {'default'}, 'callable': {'user'}}
    for hname in sorted(table):
        if table[hname] == want:
            report.ok(R, 'status(): %s False -> no-op, callable -> '
                      'installed, None -> default' % hname)
        else:
            report.violation(R, 'status:map:%s' % hname, sf.path, sf.node,
                             sf.qualname, 'the %s argument is mapped as %s'
                             % (hname, {k: sorted(v) for k, v in
                                        table[hname].items()}))
    if flag == {'ok'}:
        report.ok(R, 'do_ping = handle_ping is not False')
    else:
        report.violation(R, 'status:do-ping', sf.path, sf.node, sf.qualname,
                         'the status reactor is built with do_ping = %s; it '
                         'must ping unless handle_ping is False'
                         % sorted(flag))
    if locked:
        report.ok(R, 'status(): reactor installed while holding the lock '
                  'the new thread needs before its first write/read cycle')
    else:
        report.violation(R, 'status:reactor-unlocked', sf.path, sf.node,
                         sf.qualname, 'the StatusReactor is installed '
                         'outside the write lock: the thread started just '
                         'before may read the reply with the old reactor')


def lock_held(held, conn, M):
    return any(struct(h) == at(conn, M.lock_attr) for h in held)


def handshake_sources(report, db, S, M, P, R):
    hs = M.conn_method('_handshake')
    me = sy(hs.all_params[0])
    want = {'protocol_version': at(me, 'context', 'protocol_version'),
            'server_address': at(me, 'options', 'address'),
            'server_port': at(me, 'options', 'port'),
            'next_state': sy(hs.all_params[1])}
    n = 0
    for p in S.run(hs):
        for e, o, fields in shared.written_packets(p, P, db):
            n += 1
            vals = {k: struct(v) for k, v in fields.items() if k in want}
            if vals == want:
                report.ok(R, 'handshake fields: %s' % {
                    k: show(v) for k, v in sorted(vals.items())})
            else:
                report.violation(R, 'handshake:sources', hs.path, e.node,
                                 hs.qualname, 'handshake fields come from '
                                 '%s; expected %s' % (
                                     {k: show(v) for k, v in
                                      sorted(vals.items())},
                                     {k: show(v) for k, v in
                                      sorted(want.items())}))
    if not n:
        raise AnalysisError('_handshake writes no packet', hs.node,
                            rel(hs.path))
