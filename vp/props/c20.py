"""C20 -- state trackers replay packet histories; helper value types obey
their laws.  Narrow claim: only effect/guard relations that are necessary
for the replay semantics and visible in the code; value-level replay is not
applicable to static analysis."""
import ast

from ..common import AnalysisError, rel
from ..cfg import cfg_of
from ..fold import Folder, Env, FoldRaise, ClassVal
from ..srcdb import ClassInfo
from .. import boolfn, pathsum
from ..callgraph import CallGraph
from ..pathsum import struct, show, is_const, path_terms, arith_key, replace

PLIST = ('minecraft.networking.packets.clientbound.play.'
         'player_list_item_packet')
PPL = ('minecraft.networking.packets.clientbound.play.'
       'player_position_and_look_packet')
MAP = 'minecraft.networking.packets.clientbound.play.map_packet'
TUTIL = 'minecraft.networking.types.utility'
MUTIL = 'minecraft.utility'
ENUM = 'minecraft.networking.types.enum'


def run(report, db, tier):
    report.explanation = (
        'Each tracker method is summarised path by path (vp.pathsum: '
        'effects, branch decisions, values as terms over the packet\'s '
        'fields).  '
        'Only relations between effects and guards are decided: which apply '
        'method may insert into the player table, that updates are guarded '
        'non-raising lookups, that each axis adds under its protocol flag '
        'bit and overwrites otherwise with angles wrapped last, the index '
        'arithmetic of map patches, the closures of the alias factories, '
        'and that eq/hash enumerate the same slots; name_from_value is '
        'folded over its whole finite domain (every enum of the library, '
        'flag values 0..255).  Tracker state after a history, generated '
        'enums and numeric vector results are value-level and NOT decided.')
    F = Folder(db)
    cg = CallGraph(db)
    S = pathsum.PathSum(db, cg, inline_pred=pathsum.known_unit_pred())
    players(report, db, S)
    position(report, db, S)
    map_patch(report, db, S)
    aliases(report, db)
    alias_sites(report, db)
    records(report, db, S)
    flag_names(report, db, F)
    from .. import shared
    R7 = report.rule('R20.7', 'tracker objects share no state: no mutable '
                     'default argument value is kept or changed')
    mods = (PLIST, MAP, PPL, TUTIL, MUTIL, ENUM)
    nd = shared.shared_defaults(
        report, R7, db, [f for f in db.funcs if f.module.name in mods],
        'two trackers (two maps, two records) made with the default then '
        'hold the same object, and a packet applied to one changes the other')
    report.floor('default values in the tracker modules', nd, 8)


# ---------------------------------------------------------------------------
def sy(n):
    return ('sym', n)


def at(base, *names):
    for n in names:
        base = ('attr', base, n)
    return base


def players(report, db, S):
    R = report.rule('R20.1', 'player list: only AddPlayerAction inserts '
                    '(unconditionally, keyed by uuid, an item built from '
                    'its own fields); updates use a non-raising lookup and '
                    'store under a guard on it; removal is guarded; actions '
                    'apply in order')
    pk = db.get_class(PLIST, 'PlayerListItemPacket')
    act = db.get_class(PLIST, 'PlayerListItemPacket.Action')
    item = db.get_class(PLIST, 'PlayerListItemPacket.PlayerListItem')
    subs = db.subclasses(act)
    report.floor('player list actions', len(subs), 5)
    for ci in subs:
        fi = db.own_method(ci, 'apply')
        inherited = False
        if fi is None:
            # a template method of the base class that calls a hook of the
            # action: summarised for this very class (hooks and class-level
            # constants resolve through its MRO)
            fi = db.find_method(ci, 'apply')
            inherited = True
        if fi is None or fi.cls is act and not inherited:
            report.violation(R, 'apply:missing:%s' % ci.name, ci.path,
                             ci.node, ci.qualname, 'action has no apply()')
            continue
        me, pl = sy(fi.all_params[0]), sy(fi.all_params[1])
        tbl = at(pl, 'players_by_uuid')
        uuid = at(me, 'uuid')
        paths = S.run(fi, exact_self=ci) if inherited else S.run(fi)
        inserts = [(p, e) for p in paths for e in p.flat(('setitem',))
                   if struct(e.base) == tbl]
        raw = [t for p in paths for t in path_terms(p)
               if t[0] == 'op' and t[1] == 'index' and struct(t[2][0]) == tbl]
        if ci.name == 'AddPlayerAction':
            prob = []
            for p in paths:
                if not p.returns:
                    continue
                ins = [e for e in p.flat(('setitem',))
                       if struct(e.base) == tbl]
                if len(ins) != 1 or struct(ins[0].key) != uuid:
                    prob.append('an add must store table[self.uuid] on '
                                'every path (it overwrites an existing '
                                'entry); path [%s] stores %s' % (
                                    p.cond_text(), [repr(e) for e in ins]))
                    continue
                v = ins[0].value
                if not (v[0] == 'obj' and v[3] is item):
                    prob.append('the inserted value is %s, not a '
                                'PlayerListItem' % show(v))
                    continue
                got = {k[1]: show(x) for k, x in p.heap.items() if k[0] == v}
                want = {f: show(at(me, f)) for f in (
                    'uuid', 'name', 'properties', 'gamemode', 'ping',
                    'display_name')}
                if got != want:
                    prob.append('the inserted item is built from %s' % got)
            if prob:
                report.violation(R, 'add:insert' if 'must store' in prob[0]
                                 else 'add:fields', fi.path, fi.node,
                                 fi.qualname, '; '.join(prob))
            else:
                report.ok(R, 'add: table[self.uuid] = item built from the '
                          'action\'s own fields (overwrites)')
            continue
        if inserts:
            report.violation(R, 'update-inserts:%s' % ci.name, fi.path,
                             inserts[0][1].node, fi.qualname, '%s inserts '
                             'into the player table: an update for an '
                             'unknown player must be a no-op' % ci.name)
        if raw:
            report.violation(R, 'raising-lookup:%s' % ci.name, fi.path,
                             fi.node, fi.qualname, '%s looks the player up '
                             'with [], which raises KeyError for an unknown '
                             'player' % ci.name)
        if ci.name == 'RemovePlayerAction':
            okk = True
            removed = 0
            member = ('op', 'in', (uuid, tbl))
            # del table[uuid] is a no-op for an unknown player when it is
            # guarded by membership, or when the KeyError of the missing
            # key is caught and nothing else happens on that path
            absorbed = {}
            for p in paths:
                for e in p.flat(('delitem',)):
                    if e.raised and struct(e.base) == tbl:
                        quiet = not p.raises and not [
                            x for x in p.flat(('call', 'store', 'setitem',
                                               'delitem')) if x is not e]
                        absorbed[id(e.node)] = absorbed.get(
                            id(e.node), True) and quiet
            for p in paths:
                for e in p.flat(('delitem',)):
                    if struct(e.base) != tbl or e.raised:
                        continue
                    removed += 1
                    found = ('call', ('attr', tbl, 'get'), (uuid,), (), None)
                    if struct(e.key) != uuid or not (any(
                            (struct(a) == member and pol) or
                            (a[1] == 'is' and struct(a[2][0]) == found and
                             a[2][1] == ('const', None) and not pol) or
                            (a[1] == 'truth' and struct(a[2][0]) == found
                             and pol)
                            for a, pol, _ in p.conds_at(e))
                            or absorbed.get(id(e.node))):
                        okk = False
                for e in p.calls():
                    if e.fn == ('attr', tbl, 'pop') or struct(e.fn) == (
                            'attr', tbl, 'pop'):
                        removed += 1
                        if len(e.args) != 2 or struct(e.args[0]) != uuid:
                            okk = False
            if okk and removed:
                report.ok(R, 'remove: guarded by membership')
            else:
                report.violation(R, 'remove:unguarded', fi.path, fi.node,
                                 fi.qualname, 'removal of an unknown player '
                                 'is not a no-op')
            continue
        # update actions: P = table.get(self.uuid); store P.f = self.f only
        # on paths where P is known to be there
        look = ('call', ('attr', tbl, 'get'), (uuid,), (), None)
        nst = 0
        good = True
        why = ''
        for p in paths:
            for e in p.flat(('store',)):
                if e.base[0] == 'obj':
                    continue
                nst += 1
                if struct(e.base) != look:
                    good, why = False, 'stores on %s' % show(e.base)
                    continue
                guarded = False
                for a, pol, _ in p.conds_at(e):
                    if a[1] == 'truth' and struct(a[2][0]) == look and pol:
                        guarded = True
                    if a[1] == 'is' and struct(a[2][0]) == look and \
                            a[2][1] == ('const', None) and not pol:
                        guarded = True
                if not guarded:
                    good, why = False, 'the store is not guarded by the ' \
                        'lookup\'s result'
                if struct(e.value) != at(me, e.attr):
                    good, why = False, 'player.%s = %s' % (e.attr,
                                                           show(e.value))
        if not nst:
            if not raw:
                report.violation(R, 'update:lookup:%s' % ci.name, fi.path,
                                 fi.node, fi.qualname, '%s does not look '
                                 'the player up by self.uuid and store on '
                                 'it' % ci.name)
            continue
        if good:
            report.ok(R, '%s: guarded store of its own field on the player '
                      'found by table.get(self.uuid)' % ci.name)
        else:
            report.violation(R, 'update:store:%s' % ci.name, fi.path,
                             fi.node, fi.qualname, '%s must store its own '
                             'field on the player only when the lookup '
                             'found one (%s)' % (ci.name, why))
    ap = db.own_method(pk, 'apply')
    me, pl = sy(ap.all_params[0]), sy(ap.all_params[1])

    def template_step(call, pl_):
        """the loop calls, on each action, exactly the hook the base class's
        apply(player_list) calls on self, with the same arguments"""
        base = db.own_method(act, 'apply')
        if base is None:
            return False
        bme, bpl = sy(base.all_params[0]), sy(base.all_params[1])
        bp = [q for q in S.run(base) if q.returns]
        if len(bp) != 1:
            return False
        calls = [c for c in bp[0].calls() if c.fn[0] == 'attr'
                 and struct(c.fn[1]) == bme]
        others = [c for c in bp[0].flat(('call', 'store', 'setitem',
                                         'delitem')) if c not in calls
                  and not (c.kind == 'call' and c.method() == 'get')]
        if len(calls) != 1 or others or calls[0].fn[2] != call.fn[2] or \
                len(calls[0].args) != len(call.args) or call.kwargs or \
                calls[0].kwargs:
            return False
        elem = call.fn[1]
        for a, b in zip(calls[0].args, call.args):
            a2 = pathsum.replace(pathsum.replace(a, bme, elem), bpl, pl_)
            if struct(a2) != struct(b):
                return False
        return True
    okk = False
    paths = S.run(ap)
    for p in paths:
        loops = [e for e in p.events if e.kind == 'loop']
        if len(loops) == 1 and struct(loops[0].ctx) == at(me, 'actions'):
            body = [c for q in loops[0].paths for c in q.calls()]
            if len(loops[0].paths) == 1 and len(body) == 1 and \
                    body[0].fn[0] == 'attr' and body[0].fn[2] == 'apply' \
                    and body[0].fn[1][0] == 'elem' and \
                    [struct(x) for x in body[0].args] == [pl]:
                okk = True
            elif len(loops[0].paths) == 1 and len(
                    [c for c in body if c.method() != 'get']) == 1 and \
                    [c for c in body if c.method() != 'get'][0].fn[0] == \
                    'attr' and [c for c in body if c.method() != 'get'][
                        0].fn[1][0] == 'elem' and template_step(
                            [c for c in body if c.method() != 'get'][0], pl):
                okk = True      # the template method's one step, per action
            else:
                okk = False
                break
        else:
            okk = False
            break
    if okk:
        report.ok(R, 'packet.apply applies self.actions front to back')
    else:
        report.violation(R, 'apply:order', ap.path, ap.node, ap.qualname,
                         'the packet does not apply its actions one after the other, each '
                         'looking its player up when its turn comes (an '
                         'earlier action of the same packet may add or '
                         'remove that player)')


# ---------------------------------------------------------------------------
def position(report, db, S):
    R = report.rule('R20.2', 'position: each of x y z yaw pitch adds under '
                    'its protocol flag bit (1, 2, 4, 8, 16) and overwrites '
                    'otherwise, from the same-named field; angles are '
                    'wrapped into [0, 360) last')
    ci = db.get_class(PPL, 'PlayerPositionAndLookPacket')
    fi = db.own_method(ci, 'apply')
    if fi is None:
        raise AnalysisError('PlayerPositionAndLookPacket.apply vanished')
    me, tg = sy(fi.all_params[0]), sy(fi.all_params[1])
    bits = {'x': 1, 'y': 2, 'z': 4, 'yaw': 8, 'pitch': 16}
    paths = S.run(fi)
    if len(paths) < 32:
        report.note('apply has %d paths' % len(paths))
    flags = at(me, 'flags')

    def flag_of(a):
        """bit mask when the atom is a truth test of self.flags & const"""
        if a[1] != 'truth':
            return None
        x = a[2][0]
        if x[0] == 'op' and x[1] == '&' and len(x[2]) == 2:
            l, r = x[2]
            if struct(l) == flags and is_const(r):
                return r[1]
            if struct(r) == flags and is_const(l):
                return l[1]
        return None
    prob = {}
    seen = {a: set() for a in bits}
    for p in paths:
        if not p.returns:
            continue
        decided = {}
        for a, pol, _ in p.conds:
            m = flag_of(a)
            if m is not None:
                decided[m] = pol
        for axis, bit in bits.items():
            sts = [e for e in p.flat(('store',)) if struct(e.base) == tg
                   and e.attr == axis]
            if not sts:
                prob.setdefault(axis, 'no store on the path [%s]'
                                % p.cond_text())
                continue
            first = sts[0]
            add = ('op', '+', (at(tg, axis), at(me, axis)))
            add2 = ('op', '+', (at(me, axis), at(tg, axis)))
            v = struct(first.value)
            if v in (add, add2):
                kind = True
            elif v == at(me, axis):
                kind = False
            else:
                prob.setdefault(axis, 'stores %s' % show(first.value))
                continue
            if bit not in decided:
                other = [m for m, pol in decided.items()]
                prob.setdefault(axis, 'not decided by flag bit %#x (the '
                                'path tests bits %s)' % (bit, sorted(
                                    '%#x' % m for m in other)))
                continue
            if decided[bit] != kind:
                prob.setdefault(axis, 'relative and absolute arms are '
                                'swapped (bit %#x %s -> %s)' % (
                                    bit, 'set' if decided[bit] else 'clear',
                                    '+=' if kind else '='))
                continue
            seen[axis].add(kind)
            rest = sts[1:]
            if axis in ('yaw', 'pitch'):
                wrap = ('op', '%', (struct(first.value), ('const', 360)))
                if len(rest) != 1 or struct(rest[0].value) != wrap:
                    prob.setdefault('wrap:' + axis, '%s is not wrapped '
                                    'into [0, 360) after the last store to '
                                    'it (stores: %s)' % (axis, [
                                        show(e.value) for e in sts]))
            elif rest:
                prob.setdefault(axis, 'stored %d times' % len(sts))
    for axis, bit in sorted(bits.items()):
        if axis in prob:
            report.violation(R, 'position:%s' % axis, fi.path, fi.node,
                             fi.qualname, 'axis %s: %s' % (axis, prob[axis]))
        elif seen[axis] != {True, False}:
            report.violation(R, 'position:%s:stores' % axis, fi.path,
                             fi.node, fi.qualname, 'axis %s lacks an '
                             'additive or an overwriting path' % axis)
        else:
            report.ok(R, '%s: += under flag %#x, = otherwise' % (axis, bit))
    for ang in ('yaw', 'pitch'):
        if 'wrap:' + ang in prob:
            report.violation(R, 'position:wrap:%s' % ang, fi.path, fi.node,
                             fi.qualname, prob['wrap:' + ang])
        elif ang not in prob:
            report.ok(R, '%s %%= 360 after all other stores' % ang)


# ---------------------------------------------------------------------------
def map_patch(report, db, S):
    R = report.rule('R20.3', 'map patch: pixel i lands at offset + (i mod '
                    'packet width, i div packet width), row stride is the '
                    'map\'s width; x from offset[0], z from offset[1]')
    ci = db.get_class(MAP, 'MapPacket')
    fi = db.own_method(ci, 'apply_to_map')
    if fi is None:
        raise AnalysisError('MapPacket.apply_to_map vanished')
    me, mp = sy(fi.all_params[0]), sy(fi.all_params[1])
    pix = at(me, 'pixels')
    paths = S.run(fi)
    prob = []
    nloops = 0
    site = fi.node
    for p in paths:
        loops = [e for e in p.flat(('loop',))]
        for lp in loops:
            it = struct(lp.ctx)
            if it == ('op', 'range', (('op', 'len', (pix,)),)):
                mode = 'range'
            elif it == ('op', 'enumerate', (pix,)):
                mode = 'enum'
            else:
                prob.append('iterates %s' % show(lp.ctx))
                continue
            nloops += 1
            site = lp.node
            guard = [pol for a, pol, _ in p.conds_at(lp)
                     if a[1] == 'is' and struct(a[2][0]) == pix
                     and a[2][1] == ('const', None)]
            if guard != [False]:
                prob.append('the pixel loop is not guarded by `pixels is '
                            'not None`')
            sts = [e for q in lp.paths for e in q.flat(('setitem',))]
            if len(sts) != 1 or len(lp.paths) != 1:
                prob.append('no single pixel store per iteration')
                continue
            e = sts[0]
            elems = [t for t in pathsum.subterms(e.key) if t[0] == 'elem']
            if not elems:
                prob.append('the store does not depend on the index')
                continue
            el = elems[0]
            I = ('sym', '<i>')
            if mode == 'range':
                key = replace(e.key, el, I)
                val_ok = struct(e.value) == struct(('op', 'index',
                                                    (pix, el)))
            else:
                key = replace(e.key, ('op', 'index', (el, ('const', 0))), I)
                val_ok = struct(e.value) == struct(
                    ('op', 'index', (el, ('const', 1)))) or struct(
                        e.value) == struct(('op', 'index', (pix, (
                            'op', 'index', (el, ('const', 0))))))
            w = at(me, 'width')
            off = at(me, 'offset')
            col = ('op', '+', (('op', 'index', (off, ('const', 0))),
                               ('op', '%', (I, w))))
            row = ('op', '+', (('op', 'index', (off, ('const', 1))),
                               ('op', '//', (I, w))))
            want = ('op', '+', (col, ('op', '*', (at(mp, 'width'), row))))
            if struct(e.base) != at(mp, 'pixels'):
                prob.append('stores into %s' % show(e.base))
            if arith_key(key) != arith_key(want):
                prob.append('stores to index %s; it must be (offset[0] + i '
                            '%% self.width) + map.width * (offset[1] + i // '
                            'self.width) (row stride is the map\'s width)'
                            % show(key))
            if not val_ok:
                prob.append('stores %s, not pixel i' % show(e.value))
        if not loops and not any(
                a[1] == 'is' and struct(a[2][0]) == pix and pol
                for a, pol, _ in p.conds):
            prob.append('no pixel loop on the path [%s]' % p.cond_text())
    if not nloops and not prob:
        prob.append('pixel loop not found')
    if prob:
        report.violation(R, 'map:index', fi.path, site, fi.qualname,
                         '; '.join(sorted(set(prob))))
    else:
        report.ok(R, 'map.pixels[x + map.width * z] = self.pixels[i], only '
                  'when the packet carries pixels')
    # apply_to_map_set: creates a missing map, then applies
    fs = db.own_method(ci, 'apply_to_map_set')
    if fs is None:
        raise AnalysisError('MapPacket.apply_to_map_set vanished')
    me, ms = sy(fs.all_params[0]), sy(fs.all_params[1])
    tbl = at(ms, 'maps_by_id')
    mid = at(me, 'map_id')
    look = ('call', ('attr', tbl, 'get'), (mid,), (), None)
    mapci = db.get_class(MAP, 'MapPacket.Map')
    okk = True
    why = ''
    created = found = 0
    for p in S.run(fs):
        if not p.returns:
            continue
        app = [e for e in p.calls() if e.calls(fi)]
        if len(app) != 1 or not app[0].args:
            okk, why = False, 'the packet is not applied exactly once'
            continue
        arg = app[0].args[-1] if len(app[0].args) == 1 else app[0].args[-1]
        missing = [pol for a, pol, _ in p.conds if a[1] == 'is' and
                   struct(a[2][0]) == look and a[2][1] == ('const', None)]
        missing += [not pol for a, pol, _ in p.conds if a[1] == 'truth'
                    and struct(a[2][0]) == look]
        ins = [e for e in p.flat(('setitem',)) if struct(e.base) == tbl]
        if missing == [True]:
            created += 1
            if not (arg[0] == 'obj' and arg[3] is mapci and len(ins) == 1
                    and struct(ins[0].key) == mid and ins[0].value == arg
                    and struct(p.heap.get((arg, 'id'))) == mid):
                okk, why = False, 'a missing map is not created with ' \
                    'this id, registered under it and patched'
        elif missing == [False]:
            found += 1
            if struct(arg) != look or ins:
                okk, why = False, 'an existing map is not the one patched'
        else:
            okk, why = False, 'the lookup result is not tested'
    if okk and created and found:
        report.ok(R, 'apply_to_map_set: lookup by map_id, create if '
                  'missing, apply')
    else:
        report.violation(R, 'map:set', fs.path, fs.node, fs.qualname,
                         'apply_to_map_set does not look up / create the '
                         'map by map_id and then apply the packet (%s)'
                         % why)


# ---------------------------------------------------------------------------
def access_path(e, value_name='value'):
    """(kind, [attribute-name expressions...], wrapper) of an alias lambda
    body: getattr(getattr(self, A), B) -> ('get', ['A', 'B'], None);
    f(getattr(self, A)) -> ('get', ['A'], 'f');  setattr(X, B, g(value))."""
    wrapper = None
    if isinstance(e, ast.Call) and isinstance(e.func, ast.Name) and \
            e.func.id not in ('getattr', 'setattr', 'delattr') and \
            len(e.args) == 1:
        wrapper = e.func.id
        e = e.args[0]
    if not (isinstance(e, ast.Call) and isinstance(e.func, ast.Name)
            and e.func.id in ('getattr', 'setattr', 'delattr')):
        return None
    kind = {'getattr': 'get', 'setattr': 'set', 'delattr': 'del'}[e.func.id]
    want_args = 3 if kind == 'set' else 2
    if len(e.args) != want_args:
        return None
    path = [ast.unparse(e.args[1])]
    obj = e.args[0]
    while isinstance(obj, ast.Call) and isinstance(obj.func, ast.Name) and \
            obj.func.id == 'getattr' and len(obj.args) == 2:
        path.insert(0, ast.unparse(obj.args[1]))
        obj = obj.args[0]
    if ast.unparse(obj) != 'self':
        return None
    if kind == 'set':
        v = e.args[2]
        if isinstance(v, ast.Call) and isinstance(v.func, ast.Name) and \
                len(v.args) == 1 and ast.unparse(v.args[0]) == value_name:
            wrapper = v.func.id
        elif ast.unparse(v) != value_name:
            return None
    return kind, path, wrapper


def aliases(report, db, S=None):
    R = report.rule('R20.4', 'alias factories: getter, setter and deleter '
                    'address the same attribute path; transforms are applied '
                    'in the right direction')
    mod = db.modules.get(MUTIL)
    if S is None:
        from ..callgraph import CallGraph
        S = pathsum.PathSum(db, CallGraph(db), implicit_raises=False,
                            inline_pred=pathsum.known_unit_pred())
    me, val = sy('self'), sy('value')

    def parts_of(v):
        """fget/fset/fdel of a property(...) term"""
        if not (v[0] == 'call' and v[1] in (('builtin', 'property'),
                                            ('ext', 'builtins.property'))):
            return None
        out = dict(zip(('fget', 'fset', 'fdel'), v[2]))
        out.update(dict(v[3]))
        return out

    for fname in ('attribute_alias', 'partial_attribute_alias',
                  'attribute_transform'):
        fi = mod.funcs.get(fname)
        if fi is None:
            raise AnalysisError('%s vanished' % fname)
        # the descriptor the factory returns, applied: what does reading,
        # writing and deleting the alias on `self` do?
        got = {}
        missing = []
        for which, args in (('fget', [me]), ('fset', [me, val]),
                            ('fdel', [me])):
            def cont(S_, st, v, which=which, args=args):
                parts = parts_of(v)
                if parts is None:
                    raise AnalysisError('%s does not return property(...)'
                                        % fname, fi.node, rel(fi.path))
                fn = parts.get(which)
                if fn is None or fn == ('const', None):
                    missing.append(which)
                    return []
                return S_.apply(fn, list(args), {}, st, fi, fi.node)
            got[which] = S.run_then(fi, cont)
        if missing:
            report.violation(R, 'alias:%s:parts' % fname, fi.path, fi.node,
                             fi.qualname, 'the property lacks %s'
                             % sorted(missing))
            continue
        name = sy(fi.all_params[0])
        if fname == 'partial_attribute_alias':
            target = ('op', 'getattr', (me, name))
            attr = sy(fi.all_params[1])
            where = 'self.<%s>.<%s>' % tuple(fi.params[:2])
        else:
            target, attr = me, name
            where = 'self.<%s>' % fi.all_params[0]
        prob = []

        def stores(p):
            return [e for e in p.flat(('store', 'setitem', 'delitem'))]

        def addr(e):
            return 'self%s' % show(('op', 'getattr', (e.base, e.attr)))[4:] \
                if False else '%s . %s' % (show(e.base), show(e.attr)
                                           if isinstance(e.attr, tuple)
                                           else e.attr)
        # getter
        for p in got['fget']:
            if not p.returns or stores(p):
                prob.append('the getter does not just read')
                continue
            v = p.value
            want = ('op', 'getattr', (target, attr))
            if fname == 'attribute_transform':
                f = sy(fi.all_params[1])
                if not (v[0] == 'call' and struct(v[1]) == f and
                        [struct(x) for x in v[2]] == [want] and not v[3]):
                    prob.append('the getter returns %s; expected %s(%s)'
                                % (show(v), fi.all_params[1], where))
            elif struct(v) != want:
                prob.append('the getter reads %s instead of %s'
                            % (show(v), where))
        # setter
        for p in got['fset']:
            ss = stores(p)
            if len(ss) != 1 or ss[0].kind != 'store' or \
                    ss[0].value == ('deleted',):
                prob.append('the setter does not store exactly once')
                continue
            e = ss[0]
            if struct(e.base) != target or e.attr != attr:
                prob.append('the setter addresses %s instead of %s'
                            % (addr(e), where))
            v = e.value
            if fname == 'attribute_transform':
                f = sy(fi.all_params[2])
                if not (v[0] == 'call' and struct(v[1]) == f and
                        [struct(x) for x in v[2]] == [val] and not v[3]):
                    prob.append('the setter stores %s; expected %s(value)'
                                % (show(v), fi.all_params[2]))
            elif struct(v) != val:
                prob.append('an alias must not transform the value (stores '
                            '%s)' % show(v))
        # deleter
        for p in got['fdel']:
            ss = stores(p)
            if len(ss) != 1 or ss[0].value != ('deleted',):
                prob.append('the deleter does not delete exactly once')
                continue
            e = ss[0]
            if struct(e.base) != target or e.attr != attr:
                prob.append('the deleter addresses %s instead of %s'
                            % (addr(e), where))
        for k in ('fget', 'fset', 'fdel'):
            if len(got[k]) != 1:
                prob.append('%s has %d paths' % (k, len(got[k])))
        if prob:
            report.violation(R, 'alias:%s' % fname, fi.path, fi.node,
                             fi.qualname, '; '.join(sorted(set(prob))))
        else:
            report.ok(R, '%s: get/set/del all address %s' % (fname, where))
    fi = mod.funcs.get('multi_attribute_alias')
    if fi is None:
        raise AnalysisError('multi_attribute_alias vanished')
    fns = [n for n in fi.node.body if isinstance(n, ast.FunctionDef)]
    if len(fns) != 3:
        raise AnalysisError('multi_attribute_alias: expected getter, setter '
                            'and deleter', fi.node, rel(fi.path))

    def name_sources(fn):
        """names iterated (in order) to address attributes of self"""
        out = []
        for n in ast.walk(fn):
            if isinstance(n, (ast.For, ast.comprehension)):
                out.append(ast.unparse(n.iter))
        return out
    g_, s_, d_ = [name_sources(f) for f in fns]
    pos, kws = fi.node.args.vararg.arg, fi.node.args.kwarg.arg

    def mentions(lst, what):
        return [x for x in lst if what in x]
    okk = (mentions(g_, pos) and mentions(g_, kws) and mentions(s_, pos)
           and mentions(s_, kws) and mentions(d_, pos) and mentions(d_, kws))
    # positional names pair with positional values in order (zip), keyword
    # names with the attribute of the same key
    setter = ast.unparse(fns[1])
    okk = okk and ('zip(%s, ' % pos) in setter and 'reversed' not in \
        ast.unparse(fi.node) and 'sorted' not in ast.unparse(fi.node)
    getter_calls = [c for c in ast.walk(fns[0]) if isinstance(c, ast.Call)
                    and ast.unparse(c.func) == 'getattr']
    setter_calls = [c for c in ast.walk(fns[1]) if isinstance(c, ast.Call)
                    and ast.unparse(c.func) == 'setattr']
    deleter_calls = [c for c in ast.walk(fns[2]) if isinstance(c, ast.Call)
                     and ast.unparse(c.func) == 'delattr']
    on_self = all(ast.unparse(c.args[0]) == 'self'
                  for c in setter_calls + deleter_calls) and any(
        ast.unparse(c.args[0]) == 'self' for c in getter_calls)
    if okk and on_self and getter_calls and setter_calls and deleter_calls:
        report.ok(R, 'multi_attribute_alias: getter, setter and deleter '
                  'enumerate %s in order, then %s' % (pos, kws))
    else:
        report.violation(R, 'alias:multi', fi.path, fi.node, fi.qualname,
                         'getter, setter and deleter of the multi-alias do '
                         'not enumerate the same names (%s then %s) in the '
                         'same order on self' % (pos, kws))


# ---------------------------------------------------------------------------
def flag_names(report, db, F):
    """name_from_value folded over the finite domain the property quantifies
    over: every enum class of the library, for flag enums every value
    0..255, for plain enums every declared value and a few undeclared ones.
    The function is a pure function of class-level constants and its
    argument, so folding it is exact; generated enums are not covered."""
    from ..fold import FuncVal, Opaque
    R = report.rule('R20.8', 'the name printed for a flag value names flags '
                    'whose union is that value, a value that is a union of '
                    'flags has a name, and a plain enum value is named by a '
                    'member holding it (name_from_value folded over every '
                    'enum of the library)')
    base = db.get_class(ENUM, 'Enum')
    bits = db.get_class(ENUM, 'BitFieldEnum')
    if base is None or bits is None:
        raise AnalysisError('Enum / BitFieldEnum vanished from %s' % ENUM)
    n = 0
    nenum = 0
    for ci in db.classes:
        mro = db.mro(ci)
        if base not in mro or ci in (base, bits):
            continue
        if getattr(ci, 'outer_func', None) is not None:
            continue    # made per call from run-time data (EntityType)
        fi = db.find_method(ci, 'name_from_value')
        if fi is None:
            raise AnalysisError('%s has no name_from_value' % ci.qualname)
        members = {}
        for name, defs in ci.attrs.items():
            if not name.isupper() or defs[-1].kind != 'assign':
                continue
            v = F.class_attr(ClassVal(ci), name, ci.node, ci.module, own=ci)
            if isinstance(v, Opaque):
                raise AnalysisError('member %s.%s does not fold'
                                    % (ci.qualname, name))
            members[name] = v
        if not members:
            continue
        nenum += 1

        def name_of(v):
            try:
                r = F.call_func(FuncVal(fi, bound=ClassVal(ci)), [v], {},
                                fi.node, Env(fi.module))
            except FoldRaise as e:
                raise AnalysisError('%s.name_from_value(%r) raises %s in the '
                                    'fold' % (ci.qualname, v, e), fi.node,
                                    rel(fi.path))
            if isinstance(r, Opaque):
                raise AnalysisError('%s.name_from_value(%r) does not fold'
                                    % (ci.qualname, v), fi.node, rel(fi.path))
            return r
        probs = []
        if bits in mro:
            flags = {k: v for k, v in members.items()
                     if isinstance(v, int) and not isinstance(v, bool)}
            for v in range(256):
                n += 1
                r = name_of(v)
                cover = 0
                for fv in flags.values():
                    if fv | v == v:
                        cover |= fv
                if r is None:
                    if cover == v and (v != 0 or 0 in flags.values() or True):
                        probs.append((v, 'has no name although it is a '
                                      'union of declared flags'))
                    continue
                if not isinstance(r, str):
                    probs.append((v, 'is named %r' % (r,)))
                    continue
                if r == '0' and '0' not in flags:
                    if v != 0:
                        probs.append((v, "is named '0'"))
                    continue
                parts = r.split('|')
                if any(p_ not in flags for p_ in parts):
                    probs.append((v, 'is named %r, which has a part that is '
                                  'no flag of the class' % r))
                    continue
                back = 0
                for p_ in parts:
                    back |= flags[p_]
                if back != v:
                    probs.append((v, 'is named %r, which parses back to %d'
                                  % (r, back)))
        else:
            vals = list(members.values())
            extra = [x for x in (-1, 0, 1, 255, 'x', None)
                     if not any(x == m and type(x) is type(m) for m in vals)]
            for v in vals:
                n += 1
                r = name_of(v)
                if r not in members or members[r] != v:
                    probs.append((v, 'is named %r' % (r,)))
            for v in extra:
                n += 1
                if any(v == m for m in vals):
                    continue
                r = name_of(v)
                if r is not None:
                    probs.append((v, 'is no member but is named %r' % (r,)))
        if probs:
            v, msg = probs[0]
            report.violation(
                R, 'flag-name:%s' % ci.qualname, fi.path, fi.node,
                fi.qualname, '%s: value %r %s (%d value(s) of this enum '
                'misnamed, e.g. %s)' % (ci.qualname, v, msg, len(probs),
                                        [p_[0] for p_ in probs[:6]]))
        else:
            report.ok(R, '%s: %d members' % (ci.qualname, len(members)))
    report.floor('enum classes folded', nenum, 10)
    report.floor('name_from_value evaluations', n, 3 * 256)


# ---------------------------------------------------------------------------
def records(report, db, S):
    R = report.rule('R20.5', 'records: __eq__ and __hash__ enumerate the '
                    'same _all_slots(); vector operators build type(self) '
                    'and pair components x, y, z with one operator')
    ci = db.get_class(TUTIL, 'MutableRecord')
    eq = db.own_method(ci, '__eq__')
    hs = db.own_method(ci, '__hash__')
    ne = db.own_method(ci, '__ne__')
    if None in (eq, hs):
        raise AnalysisError('MutableRecord.__eq__/__hash__ vanished')
    me, ot = sy(eq.all_params[0]), sy(eq.all_params[1])
    als_fi = db.own_method(ci, '_all_slots')

    def is_slots(t):
        return t[0] == 'call' and t[1][0] == 'fn' and t[1][1] is als_fi \
            and not t[2] and not t[3]

    def iterables(paths):
        out = set()
        for p in paths:
            for t in path_terms(p):
                if t[0] == 'elem':
                    out.add(struct(t[1]))
        return out
    pe = S.run(eq)
    same_type = [('op', 'is', (('op', 'type', (a,)), ('op', 'type', (b,))))
                 for a, b in ((me, ot), (ot, me))]
    its = iterables(pe)
    cmp_seen = False
    for p in pe:
        for t in path_terms(p):
            if t[0] == 'op' and t[1] == '==' and len(t[2]) == 2 and all(
                    x[0] == 'op' and x[1] == 'getattr' and x[2][1][0] ==
                    'elem' for x in t[2]):
                l, r = t[2]
                if {struct(l[2][0]), struct(r[2][0])} == {me, ot} and \
                        struct(l[2][1]) == struct(r[2][1]):
                    cmp_seen = True
    type_ok = True
    for p in pe:
        v = p.value
        if v is None or v == ('const', False):
            continue
        # a result that may be true needs the types to be the same
        if not (any(struct(a) in same_type and pol for a, pol, _ in p.conds)
                or struct(v) in same_type):
            type_ok = False
    ph = S.run(hs)
    hme = sy(hs.all_params[0])
    hits = iterables(ph)
    rp = [p for p in ph if p.returns]
    htype = bool(rp) and all(
        any(struct(t) == ('op', 'type', (hme,))
            for t in pathsum.subterms(p.value or ())) for p in rp)
    hget = bool(rp) and all(
        any(t[0] == 'op' and t[1] == 'getattr' and struct(t[2][0]) == hme
            and t[2][1][0] == 'elem'
            for t in list(pathsum.subterms(p.value or ()))
            + list(path_terms(p))) for p in rp)
    # the hash may use the field values only through what respects ==:
    # equal values have equal hashes, but not equal texts (1 == 1.0 == True)
    # or equal identities
    TEXTUAL = ('repr', 'str', 'id', 'fmt', 'format', 'ascii', 'bytes', '%',
               'fstr', 'join')
    for p in rp:
        for t in pathsum.subterms(p.value or ()):
            if t[0] == 'op' and t[1] in TEXTUAL:
                report.violation(
                    R, 'record:hash-textual', hs.path, hs.node, hs.qualname,
                    '__hash__ can hash the %s() of the field values [%s]: '
                    'records that compare equal field-wise (1 == 1.0 == '
                    'True, equal containers of them) then print, and so '
                    'hash, differently' % (t[1], p.cond_text()))
                break
    if len(its) == 1 and len(hits) == 1 and all(
            is_slots(t) for t in its | hits) and cmp_seen and type_ok and htype and hget:
        report.ok(R, '__eq__ and __hash__ both range over _all_slots() and '
                  'include the type')
    else:
        report.violation(R, 'record:eq-hash', eq.path, eq.node, eq.qualname,
                         '__eq__ and __hash__ do not enumerate the same '
                         'slots / type: equal records could hash '
                         'differently (eq ranges over %s%s%s, hash over '
                         '%s%s%s)'
                         % (sorted(show(x) for x in its),
                            '' if cmp_seen else ', no slot-wise comparison',
                            '' if type_ok else ', ignores the type',
                            sorted(show(x) for x in hits),
                            '' if htype else ', ignores the type',
                            '' if hget else ', not the slot values'))
    if ne is not None:
        pn = S.run(ne)
        nme, no = sy(ne.all_params[0]), sy(ne.all_params[1])
        neg = all(struct(p.value) == ('op', 'not', (('op', '==', (nme, no)),
                                                    )) for p in pn)
        if neg:
            report.ok(R, '__ne__ is the negation of __eq__')
    als = db.own_method(ci, '_all_slots')
    # decided by evaluation where the folder can: for every record class of
    # the library _all_slots() must give the own __slots__ of each class of
    # its MRO, base first.  Only where that cannot be folded is the method
    # read by its spelling.
    folded = None
    if als is not None:
        try:
            F_ = Folder(db)
            nrec = 0
            for rc in db.classes:
                if ci not in db.mro(rc):
                    continue
                want = []
                for c in reversed(db.mro(rc)):
                    defs = c.attrs.get('__slots__')
                    if defs:
                        sl = F_.attrdef_value(defs[-1], ClassVal(c), raw=True)
                        want += [sl] if isinstance(sl, str) else list(sl)
                got = F_.call(F_.getattr(ClassVal(rc), '_all_slots', rc.node,
                                         rc.module), [], {}, rc.node,
                              Env(rc.module))
                nrec += 1
                if list(got) != want:
                    folded = (rc, list(got), want)
                    break
            else:
                folded = True if nrec >= 5 else None
        except (AnalysisError, FoldRaise, TypeError):
            folded = None
    if folded is True:
        report.ok(R, '_all_slots() gives the __slots__ of the MRO base-first '
                  'for every record class of the library')
    elif folded is not None:
        report.violation(R, 'record:all-slots', ci.path, als.node,
                         als.qualname, '_all_slots does not collect the '
                         '__slots__ of every class in the MRO: for %s it '
                         'gives %s, the MRO declares %s' % (
                             folded[0].name, folded[1], folded[2]))
    elif als is not None and 'reversed(cls.__mro__)' in ast.unparse(
            als.node) and "__dict__.get('__slots__'" in ast.unparse(als.node):
        report.ok(R, '_all_slots walks the MRO base-first')
    else:
        report.violation(R, 'record:all-slots', ci.path, ci.node,
                         ci.qualname, '_all_slots does not collect the '
                         '__slots__ of every class in the MRO')
    if als is not None:
        cls_name = als.all_params[0]
        stores_ = set()
        for n in ast.walk(als.node):
            if isinstance(n, ast.Call) and ast.unparse(n.func) == 'setattr' \
                    and n.args and ast.unparse(n.args[0]) == cls_name and \
                    len(n.args) > 1 and isinstance(n.args[1], ast.Constant):
                stores_.add(n.args[1].value)
            if isinstance(n, ast.Attribute) and isinstance(
                    n.ctx, ast.Store) and ast.unparse(n.value) == cls_name:
                stores_.add(n.attr)
        inherited = []
        for n in ast.walk(als.node):
            if isinstance(n, ast.Call) and ast.unparse(n.func) == 'getattr' \
                    and n.args and ast.unparse(n.args[0]) == cls_name and \
                    len(n.args) > 1 and isinstance(n.args[1], ast.Constant) \
                    and n.args[1].value in stores_:
                inherited.append(n)
            if isinstance(n, ast.Attribute) and isinstance(
                    n.ctx, ast.Load) and ast.unparse(n.value) == cls_name \
                    and n.attr in stores_:
                inherited.append(n)
        if inherited:
            report.violation(R, 'record:slots-cache', als.path, inherited[0],
                             als.qualname, '_all_slots memoises its result '
                             'on the class and reads it back through an '
                             'inheriting lookup (%s): a subclass finds its '
                             'parent\'s cached slots, so records of the '
                             'subclass compare and hash on the parent\'s '
                             'fields only' % ast.unparse(inherited[0]))
        else:
            report.ok(R, '_all_slots keeps no state that a subclass could '
                      'inherit')
    vec = db.get_class(TUTIL, 'Vector')
    ops = {'__add__': '+', '__sub__': '-', '__mul__': '*',
           '__rmul__': '*', '__truediv__': '/', '__floordiv__': '//'}
    n = 0
    for name, sign in sorted(ops.items()):
        fi = db.own_method(vec, name)
        if fi is None and name in vec.attrs:
            # bound some other way (functools.partialmethod, an alias): not
            # followed here
            raise AnalysisError('Vector.%s is not a plain method: the '
                                'component-wise rule cannot read it' % name,
                                vec.node, rel(vec.path))
        if fi is None:
            report.violation(R, 'vector:missing:%s' % name, vec.path,
                             vec.node, vec.qualname, 'Vector lacks %s'
                             % name)
            continue
        n += 1
        me, o = sy(fi.all_params[0]), sy(fi.all_params[1])
        # an operator is called with one operand: further parameters take
        # their defaults (a flag bound by partialmethod on a sibling)
        extra = {}
        a_ = fi.node.args
        for pn, d in zip([x.arg for x in a_.args][len(a_.args) - len(
                a_.defaults):], a_.defaults):
            if pn not in fi.all_params[:2] and isinstance(d, ast.Constant):
                extra[pn] = d.value

        def by_default(p):
            for a, pol, _ in p.conds:
                if a[1] == 'truth' and a[2][0][0] == 'sym' and \
                        a[2][0][1] in extra and pol != bool(
                            extra[a[2][0][1]]):
                    return False
            return True
        if name in ('__add__', '__sub__'):
            # which operands are refused: exactly those that are no Vector
            narrow = None

            def covers(t):
                # does a refusal by 'not isinstance(other, t)' let every
                # Vector through?  True / False / None (not decided)
                if t[0] == 'cls':
                    return db.is_subclass(vec, t[1])
                if t[0] == 'sym' and isinstance(t[1], str):
                    # a module-level name defined further down
                    try:
                        ent = db.resolve_dotted(fi.module, ast.Name(
                            id=t[1], ctx=ast.Load()))
                    except AnalysisError:
                        return None
                    ent = db.deref(ent) if isinstance(ent, tuple) else ent
                    return db.is_subclass(vec, ent) if isinstance(
                        ent, ClassInfo) else None
                if t[0] == 'tuple':
                    each = [covers(x) for x in t[1]]
                    return True if True in each else (
                        None if None in each else False)
                if struct(t) in (('op', 'type', (me,)),
                                 ('attr', me, '__class__')):
                    return False
                return None
            for p in S.run(fi):
                if not (p.returns and p.value == ('builtin',
                                                  'NotImplemented')):
                    continue
                for a, pol, _ in p.conds:
                    if a[1] == 'isinstance' and struct(a[2][0]) == o and \
                            not pol:
                        c = covers(a[2][1])
                        if c is None:
                            raise AnalysisError(
                                'Vector.%s refuses operands by isinstance '
                                'against %s: which vectors that lets through '
                                'is not decided' % (name, show(a[2][1])),
                                fi.node, rel(fi.path))
                        if not c:
                            narrow = a[2][1]
            if narrow is not None:
                report.violation(R, 'vector:guard:%s' % name, fi.path,
                                 fi.node, fi.qualname, '%s refuses an '
                                 'operand unless it is an instance of %s: a '
                                 'vector of another vector type (Position + '
                                 'Vector) is refused although the result '
                                 'should take the left operand\'s type'
                                 % (name, show(narrow)))
                continue
        built = [(p, p.value) for p in S.run(fi) if p.returns and
                 by_default(p) and
                 p.value != ('builtin', 'NotImplemented')]
        if not built or not all(v[0] == 'call' and struct(v[1]) == (
                'op', 'type', (me,)) and len(v[2]) == 3 and not v[3]
                for _, v in built):
            report.violation(R, 'vector:type:%s' % name, fi.path, fi.node,
                             fi.qualname, '%s does not build its result '
                             'with type(self)(x, y, z): the operand\'s type '
                             'is lost' % name)
            continue
        good = True
        for _, v in built:
            for comp, a in zip('xyz', v[2]):
                vector_op = name in ('__add__', '__sub__')
                lhs = at(me, comp)
                rhs = at(o, comp) if vector_op else o
                want = ('op', sign, (rhs, lhs) if name == '__rmul__'
                        else (lhs, rhs))
                if struct(a) != want:
                    good = False
        if good:
            report.ok(R, 'Vector.%s: component-wise %s' % (name, sign))
        else:
            report.violation(R, 'vector:components:%s' % name, fi.path,
                             fi.node, fi.qualname, '%s is not component-'
                             'wise %s on x, y, z: %s' % (
                                 name, sign, [show(a) for a in
                                              built[0][1][2]]))
    neg = db.own_method(vec, '__neg__')
    okn = False
    if neg is not None:
        me = sy(neg.all_params[0])
        okn = all(p.returns and p.value[0] == 'call' and struct(
            p.value[1]) == ('op', 'type', (me,)) and [struct(a) for a in
                                                      p.value[2]] == [
            ('op', 'usub', (at(me, c),)) for c in 'xyz']
            for p in S.run(neg))
    if okn:
        report.ok(R, 'Vector.__neg__')
    else:
        report.violation(R, 'vector:neg', vec.path, vec.node, vec.qualname,
                         '__neg__ is not component-wise negation preserving '
                         'the type')
    report.floor('vector operators', n, 6)


# ---------------------------------------------------------------------------
def alias_sites(report, db):
    """Every use of an alias factory in a class body gives it what its
    closure expects: attribute names as string constants (naming something
    the class has, where that can be told), a container that is not a
    string."""
    R = report.rule('R20.6', 'alias factories are used with attribute names '
                    '(string constants) where names belong and a callable '
                    'container where the container belongs')
    UTIL = 'minecraft.utility'
    fac = {n: db.get_func(UTIL, n) for n in (
        'attribute_alias', 'multi_attribute_alias',
        'partial_attribute_alias', 'attribute_transform')}
    if any(v is None for v in fac.values()):
        raise AnalysisError('alias factory vanished from minecraft.utility')
    n = 0
    for ci in db.classes:
        for name, defs in ci.attrs.items():
            for ad in defs:
                v = ad.value if ad.kind == 'assign' else None
                if not isinstance(v, ast.Call):
                    continue
                try:
                    ent = db.resolve_dotted(ci.module, v.func)
                except AnalysisError:
                    ent = None
                which = next((k for k, f in fac.items() if ent is f), None)
                if which is None:
                    continue
                n += 1
                if any(isinstance(a, ast.Starred) for a in v.args):
                    # *names where names folds to a tuple of strings (the
                    # __slots__ of a record class): those strings
                    pos = []
                    for a in v.args:
                        if not isinstance(a, ast.Starred):
                            pos.append(a)
                            continue
                        try:
                            val = Folder(db).eval(a.value, Env(ci.module,
                                                               cls=ci))
                        except (AnalysisError, FoldRaise):
                            val = None
                        if not (isinstance(val, (tuple, list)) and all(
                                isinstance(x, str) for x in val)):
                            pos = None
                            break
                        pos.extend(ast.copy_location(ast.Constant(value=x),
                                                     a) for x in val)
                    if pos is not None:
                        v = ast.copy_location(ast.Call(
                            func=v.func, args=pos, keywords=v.keywords), v)
                if any(isinstance(a, ast.Starred) for a in v.args) or any(
                        k.arg is None for k in v.keywords):
                    raise AnalysisError('alias factory called with star '
                                        'arguments', v, rel(ci.path))

                # arguments given by parameter name take their positions
                fpar = fac[which].params
                if v.keywords and len(v.args) < len(fpar):
                    kws = {k.arg: k.value for k in v.keywords}
                    pos = list(v.args)
                    for pn in fpar[len(pos):]:
                        if pn not in kws:
                            break
                        pos.append(kws.pop(pn))
                    v = ast.copy_location(ast.Call(
                        func=v.func, args=pos, keywords=[
                            ast.keyword(arg=k, value=x)
                            for k, x in kws.items()]), v)

                def is_name(a):
                    return isinstance(a, ast.Constant) and isinstance(
                        a.value, str) and a.value.isidentifier()
                prob = None
                if which == 'multi_attribute_alias':
                    if not v.args:
                        prob = 'no container'
                    elif isinstance(v.args[0], ast.Constant):
                        prob = 'the container is the constant %r' % (
                            v.args[0].value,)
                    else:
                        badn = [ast.unparse(a) for a in v.args[1:]
                                if not is_name(a)] + [
                            ast.unparse(k.value) for k in v.keywords
                            if not is_name(k.value)]
                        if badn:
                            prob = 'attribute name(s) %s are not string ' \
                                'constants' % badn
                elif which in ('attribute_alias', 'attribute_transform'):
                    if not v.args or not is_name(v.args[0]):
                        prob = 'the aliased attribute is %s, not a name' % (
                            ast.unparse(v.args[0]) if v.args else 'missing')
                elif which == 'partial_attribute_alias':
                    if len(v.args) != 2 or not all(is_name(a)
                                                   for a in v.args):
                        prob = 'expects two attribute names'
                if prob:
                    report.violation(
                        R, 'alias-site:%s.%s' % (ci.qualname, name), ci.path,
                        v, ci.qualname, '%s = %s(...): %s -- reading or '
                        'setting the alias raises instead of reaching the '
                        'aliased attribute' % (name, which, prob))
                else:
                    report.ok(R)
    report.floor('alias factory use sites', n, 20)
