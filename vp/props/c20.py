"""C20 -- state trackers replay packet histories; helper value types obey
their laws.  Narrow claim: only effect/guard relations that are necessary
for the replay semantics and visible in the code; value-level replay is not
applicable to static analysis."""
import ast

from ..common import AnalysisError, rel
from ..cfg import cfg_of
from ..fold import Folder, Env, FoldRaise, ClassVal
from .. import boolfn

PLIST = ('minecraft.networking.packets.clientbound.play.'
         'player_list_item_packet')
PPL = ('minecraft.networking.packets.clientbound.play.'
       'player_position_and_look_packet')
MAP = 'minecraft.networking.packets.clientbound.play.map_packet'
TUTIL = 'minecraft.networking.types.utility'
MUTIL = 'minecraft.utility'
ENUM = 'minecraft.networking.types.enum'


def run(report, db, tier):
    report.explanation = (
        'Only relations between effects and guards are decided: which apply '
        'method may insert into the player table, that updates are guarded '
        'non-raising lookups, that each axis adds under its protocol flag '
        'bit and overwrites otherwise with angles wrapped last, the index '
        'arithmetic of map patches, the closures of the alias factories, '
        'and that eq/hash enumerate the same slots.  Tracker state after a '
        'history, name_from_value round trips and numeric vector results '
        'are value-level and NOT decided.')
    F = Folder(db)
    players(report, db)
    position(report, db, F)
    map_patch(report, db)
    aliases(report, db)
    records(report, db)


# ---------------------------------------------------------------------------
def players(report, db):
    R = report.rule('R20.1', 'player list: only AddPlayerAction inserts '
                    '(unconditionally, keyed by uuid); updates use a '
                    'non-raising lookup and store under a guard on it; '
                    'removal is guarded; actions apply in order')
    pk = db.get_class(PLIST, 'PlayerListItemPacket')
    act = db.get_class(PLIST, 'PlayerListItemPacket.Action')
    subs = db.subclasses(act)
    report.floor('player list actions', len(subs), 5)
    for ci in subs:
        fi = db.own_method(ci, 'apply')
        if fi is None:
            report.violation(R, 'apply:missing:%s' % ci.name, ci.path,
                             ci.node, ci.qualname, 'action has no apply()')
            continue
        me, pl = fi.params[0], fi.params[1]
        tbl = '%s.players_by_uuid' % pl
        g = cfg_of(fi)
        inserts = [n for n in g.reachable_nodes() if isinstance(
            n.ast, ast.Assign) and any(
                isinstance(t, ast.Subscript) and ast.unparse(t.value) == tbl
                for t in n.ast.targets)]
        raw = [x for x in ast.walk(fi.node) if isinstance(x, ast.Subscript)
               and isinstance(x.ctx, ast.Load)
               and ast.unparse(x.value) == tbl]
        dels = [n for n in g.reachable_nodes() if isinstance(n.ast,
                                                             ast.Delete)]
        pops = [x for x in ast.walk(fi.node) if isinstance(x, ast.Call)
                and ast.unparse(x.func) == tbl + '.pop']
        if ci.name == 'AddPlayerAction':
            ok = len(inserts) == 1 and not boolfn.path_conditions(
                g, inserts[0]) and ast.unparse(
                    inserts[0].ast.targets[0].slice) == '%s.uuid' % me
            if ok:
                v = inserts[0].ast.value
                src = None
                for x in ast.walk(fi.node):
                    if isinstance(x, ast.Assign) and isinstance(
                            x.targets[0], ast.Name) and isinstance(
                                v, ast.Name) and x.targets[0].id == v.id:
                        src = x.value
                kws = {k.arg: ast.unparse(k.value) for k in src.keywords} \
                    if isinstance(src, ast.Call) else {}
                want = {f: '%s.%s' % (me, f) for f in (
                    'uuid', 'name', 'properties', 'gamemode', 'ping',
                    'display_name')}
                if kws == want:
                    report.ok(R, 'add: table[self.uuid] = item built from '
                              'the action\'s own fields (overwrites)')
                else:
                    report.violation(R, 'add:fields', fi.path, fi.node,
                                     fi.qualname, 'the inserted item is '
                                     'built from %s' % kws)
            else:
                report.violation(R, 'add:insert', fi.path, fi.node,
                                 fi.qualname, 'an add must store '
                                 'table[self.uuid] unconditionally (it '
                                 'overwrites an existing entry)')
            continue
        if inserts:
            report.violation(R, 'update-inserts:%s' % ci.name, fi.path,
                             inserts[0].ast, fi.qualname, '%s inserts into '
                             'the player table: an update for an unknown '
                             'player must be a no-op' % ci.name)
        if raw:
            report.violation(R, 'raising-lookup:%s' % ci.name, fi.path,
                             raw[0], fi.qualname, '%s looks the player up '
                             'with [], which raises KeyError for an unknown '
                             'player' % ci.name)
        if ci.name == 'RemovePlayerAction':
            okk = False
            for n in dels:
                conds = [(ast.unparse(e), t) for e, t in
                         boolfn.path_conditions(g, n)]
                if conds == [('%s.uuid in %s' % (me, tbl), True)] and \
                        ast.unparse(n.ast.targets[0]) == '%s[%s.uuid]' % (
                            tbl, me):
                    okk = True
            if pops and all(len(p.args) == 2 for p in pops):
                okk = True
            if okk:
                report.ok(R, 'remove: guarded by membership')
            else:
                report.violation(R, 'remove:unguarded', fi.path, fi.node,
                                 fi.qualname, 'removal of an unknown player '
                                 'is not a no-op')
            continue
        # update actions: player = table.get(self.uuid); if player: store
        look = [x for x in ast.walk(fi.node) if isinstance(x, ast.Assign)
                and isinstance(x.value, ast.Call)
                and ast.unparse(x.value.func) == tbl + '.get'
                and [ast.unparse(a) for a in x.value.args][:1] ==
                ['%s.uuid' % me]]
        if len(look) != 1 or not isinstance(look[0].targets[0], ast.Name):
            if not raw:
                report.violation(R, 'update:lookup:%s' % ci.name, fi.path,
                                 fi.node, fi.qualname, '%s does not look '
                                 'the player up by self.uuid' % ci.name)
            continue
        pv = look[0].targets[0].id
        sts = [n for n in g.reachable_nodes() if isinstance(
            n.ast, ast.Assign) and any(
                isinstance(t, ast.Attribute) and isinstance(t.value,
                                                            ast.Name)
                and t.value.id == pv for t in n.ast.targets)]
        good = bool(sts)
        for n in sts:
            conds = boolfn.path_conditions(g, n)
            ref = ast.parse(pv, mode='eval').body
            ref2 = ast.parse('%s is not None' % pv, mode='eval').body
            c = conds[0][0] if len(conds) == 1 and conds[0][1] else None
            if c is None or not (boolfn.same_function(c, ref) or
                                 boolfn.same_function(c, ref2)):
                good = False
            t = n.ast.targets[0]
            if ast.unparse(n.ast.value) != '%s.%s' % (me, t.attr):
                good = False
        if good:
            report.ok(R, '%s: guarded store of player.%s = self.%s' % (
                ci.name, sts[0].ast.targets[0].attr,
                sts[0].ast.targets[0].attr))
        else:
            report.violation(R, 'update:store:%s' % ci.name, fi.path,
                             fi.node, fi.qualname, '%s must store its own '
                             'field on the player only when the lookup '
                             'found one' % ci.name)
    ap = db.own_method(pk, 'apply')
    okk = False
    for n in ast.walk(ap.node):
        if isinstance(n, ast.For) and ast.unparse(n.iter) == \
                '%s.actions' % ap.params[0] and len(n.body) == 1 and \
                ast.unparse(n.body[0]) == '%s.apply(%s)' % (
                    ast.unparse(n.target), ap.params[1]):
            okk = True
    if okk:
        report.ok(R, 'packet.apply applies self.actions front to back')
    else:
        report.violation(R, 'apply:order', ap.path, ap.node, ap.qualname,
                         'the packet does not apply its actions in order')


# ---------------------------------------------------------------------------
def position(report, db, F):
    R = report.rule('R20.2', 'position: each of x y z yaw pitch adds under '
                    'its protocol flag bit (1, 2, 4, 8, 16) and overwrites '
                    'otherwise, from the same-named field; angles are '
                    'wrapped into [0, 360) last')
    ci = db.get_class(PPL, 'PlayerPositionAndLookPacket')
    fi = db.own_method(ci, 'apply')
    if fi is None:
        raise AnalysisError('PlayerPositionAndLookPacket.apply vanished')
    g = cfg_of(fi)
    me, tg = fi.params[0], fi.params[1]
    bits = {'x': 1, 'y': 2, 'z': 4, 'yaw': 8, 'pitch': 16}
    for axis, bit in sorted(bits.items()):
        adds, sets = [], []
        for n in g.reachable_nodes():
            a = n.ast
            if isinstance(a, ast.AugAssign) and ast.unparse(a.target) == \
                    '%s.%s' % (tg, axis) and isinstance(a.op, ast.Add):
                adds.append(n)
            elif isinstance(a, ast.Assign) and ast.unparse(a.targets[0]) == \
                    '%s.%s' % (tg, axis):
                sets.append(n)
        if len(adds) != 1 or len(sets) != 1:
            report.violation(R, 'position:%s:stores' % axis, fi.path,
                             fi.node, fi.qualname, 'axis %s has %d additive '
                             'and %d overwriting stores (one each expected)'
                             % (axis, len(adds), len(sets)))
            continue
        prob = []
        for n, rel_ in ((adds[0], True), (sets[0], False)):
            val = n.ast.value
            if ast.unparse(val) != '%s.%s' % (me, axis):
                prob.append('%s uses %s' % ('+=' if rel_ else '=',
                                            ast.unparse(val)))
            conds = boolfn.path_conditions(g, n)
            if len(conds) != 1:
                prob.append('not guarded by exactly one flag test')
                continue
            e, t = conds[0]
            mask = flag_mask(F, ci, e, me)
            if mask is None:
                prob.append('guard %s is not a test of self.flags against '
                            'a constant' % ast.unparse(e))
            elif mask != bit:
                prob.append('guard tests bit %#x; the protocol assigns %#x '
                            'to %s' % (mask, bit, axis))
            elif t != rel_:
                prob.append('relative and absolute arms are swapped')
        if prob:
            report.violation(R, 'position:%s' % axis, fi.path, adds[0].ast,
                             fi.qualname, 'axis %s: %s' % (axis,
                                                           '; '.join(prob)))
        else:
            report.ok(R, '%s: += under flag %#x, = otherwise' % (axis, bit))
    for ang in ('yaw', 'pitch'):
        wraps = [n for n in g.reachable_nodes() if isinstance(
            n.ast, ast.AugAssign) and isinstance(n.ast.op, ast.Mod)
            and ast.unparse(n.ast.target) == '%s.%s' % (tg, ang)
            and ast.unparse(n.ast.value) == '360']
        others = [n for n in g.reachable_nodes() if n.ast is not None
                  and n not in wraps and isinstance(
                      n.ast, (ast.Assign, ast.AugAssign))
                  and ast.unparse(n.ast.targets[0] if isinstance(
                      n.ast, ast.Assign) else n.ast.target) ==
                  '%s.%s' % (tg, ang)]
        if len(wraps) == 1 and g.postdominates(wraps[0], g.entry,
                                               include_raise=False) and \
                not any(g.exists_path(wraps[0], lambda x: x is o)
                        for o in others):
            report.ok(R, '%s %%= 360 after all other stores' % ang)
        else:
            report.violation(R, 'position:wrap:%s' % ang, fi.path, fi.node,
                             fi.qualname, '%s is not wrapped into [0, 360) '
                             'after the last store to it' % ang)


def flag_mask(F, ci, e, me):
    if isinstance(e, ast.BinOp) and isinstance(e.op, ast.BitAnd):
        for a, b in ((e.left, e.right), (e.right, e.left)):
            if ast.unparse(a) == '%s.flags' % me:
                if isinstance(b, ast.Attribute) and isinstance(
                        b.value, ast.Name) and b.value.id == me:
                    try:
                        v = F.getattr(ClassVal(ci), b.attr, b, ci.module)
                    except FoldRaise:
                        return None
                    return v if isinstance(v, int) else None
                if isinstance(b, ast.Constant) and isinstance(b.value, int):
                    return b.value
    return None


# ---------------------------------------------------------------------------
def map_patch(report, db):
    R = report.rule('R20.3', 'map patch: pixel i lands at offset + (i mod '
                    'packet width, i div packet width), row stride is the '
                    'map\'s width; x from offset[0], z from offset[1]')
    ci = db.get_class(MAP, 'MapPacket')
    fi = db.own_method(ci, 'apply_to_map')
    if fi is None:
        raise AnalysisError('MapPacket.apply_to_map vanished')
    me, mp = fi.params[0], fi.params[1]
    loops = [n for n in ast.walk(fi.node) if isinstance(n, ast.For)]
    if len(loops) != 1 or not isinstance(loops[0].target, ast.Name):
        raise AnalysisError('apply_to_map: pixel loop not found', fi.node,
                            rel(fi.path))
    lp = loops[0]
    i = lp.target.id
    env = {}
    store = None
    for st in lp.body:
        if isinstance(st, ast.Assign) and isinstance(st.targets[0],
                                                     ast.Name):
            env[st.targets[0].id] = ast.unparse(st.value)
        elif isinstance(st, ast.Assign) and isinstance(st.targets[0],
                                                       ast.Subscript):
            store = st
    rng = ast.unparse(lp.iter)
    want_rng = 'range(len(%s.pixels))' % me
    xs = [k for k, v in env.items()
          if v in ('%s.offset[0] + %s %% %s.width' % (me, i, me),)]
    zs = [k for k, v in env.items()
          if v in ('%s.offset[1] + %s // %s.width' % (me, i, me),)]
    prob = []
    if rng != want_rng:
        prob.append('iterates %s' % rng)
    if len(xs) != 1:
        prob.append('no column = offset[0] + i %% self.width (found %s)'
                    % env)
    if len(zs) != 1:
        prob.append('no row = offset[1] + i // self.width (found %s)' % env)
    if store is None:
        prob.append('no pixel store')
    elif xs and zs:
        tgt = ast.unparse(store.targets[0])
        val = ast.unparse(store.value)
        good_t = ('%s.pixels[%s + %s.width * %s]' % (mp, xs[0], mp, zs[0]),
                  '%s.pixels[%s.width * %s + %s]' % (mp, mp, zs[0], xs[0]),
                  '%s.pixels[%s + %s * %s.width]' % (mp, xs[0], zs[0], mp),
                  '%s.pixels[%s * %s.width + %s]' % (mp, zs[0], mp, xs[0]))
        if tgt not in good_t:
            prob.append('stores to %s (row stride must be the map\'s '
                        'width)' % tgt)
        if val != '%s.pixels[%s]' % (me, i):
            prob.append('stores %s' % val)
    if prob:
        report.violation(R, 'map:index', fi.path, lp, fi.qualname,
                         '; '.join(prob))
    else:
        report.ok(R, 'map.pixels[x + map.width * z] = self.pixels[i]')
    # guarded by pixels present
    g = cfg_of(fi)
    heads = [n for n in g.reachable_nodes() if n.kind == 'for']
    conds = [(ast.unparse(e), t) for e, t in
             boolfn.path_conditions(g, heads[0])] if heads else []
    if conds == [('%s.pixels is not None' % me, True)]:
        report.ok(R, 'patch only when the packet carries pixels')
    else:
        report.violation(R, 'map:guard', fi.path, lp, fi.qualname,
                         'the pixel loop is guarded by %s' % conds)
    # apply_to_map_set: creates a missing map, then applies
    fs = db.own_method(ci, 'apply_to_map_set')
    if fs is None:
        raise AnalysisError('MapPacket.apply_to_map_set vanished')
    src = ast.unparse(fs.node)
    if '.get(%s.map_id)' % fs.params[0] in src and \
            'maps_by_id[%s.map_id] = ' % fs.params[0] in src and \
            '%s.apply_to_map(' % fs.params[0] in src:
        report.ok(R, 'apply_to_map_set: lookup by map_id, create if '
                  'missing, apply')
    else:
        report.violation(R, 'map:set', fs.path, fs.node, fs.qualname,
                         'apply_to_map_set does not look up / create the '
                         'map by map_id and then apply the packet')


# ---------------------------------------------------------------------------
def access_path(e, value_name='value'):
    """(kind, [attribute-name expressions...], wrapper) of an alias lambda
    body: getattr(getattr(self, A), B) -> ('get', ['A', 'B'], None);
    f(getattr(self, A)) -> ('get', ['A'], 'f');  setattr(X, B, g(value))."""
    wrapper = None
    if isinstance(e, ast.Call) and isinstance(e.func, ast.Name) and \
            e.func.id not in ('getattr', 'setattr', 'delattr') and \
            len(e.args) == 1:
        wrapper = e.func.id
        e = e.args[0]
    if not (isinstance(e, ast.Call) and isinstance(e.func, ast.Name)
            and e.func.id in ('getattr', 'setattr', 'delattr')):
        return None
    kind = {'getattr': 'get', 'setattr': 'set', 'delattr': 'del'}[e.func.id]
    want_args = 3 if kind == 'set' else 2
    if len(e.args) != want_args:
        return None
    path = [ast.unparse(e.args[1])]
    obj = e.args[0]
    while isinstance(obj, ast.Call) and isinstance(obj.func, ast.Name) and \
            obj.func.id == 'getattr' and len(obj.args) == 2:
        path.insert(0, ast.unparse(obj.args[1]))
        obj = obj.args[0]
    if ast.unparse(obj) != 'self':
        return None
    if kind == 'set':
        v = e.args[2]
        if isinstance(v, ast.Call) and isinstance(v.func, ast.Name) and \
                len(v.args) == 1 and ast.unparse(v.args[0]) == value_name:
            wrapper = v.func.id
        elif ast.unparse(v) != value_name:
            return None
    return kind, path, wrapper


def aliases(report, db):
    R = report.rule('R20.4', 'alias factories: getter, setter and deleter '
                    'address the same attribute path; transforms are applied '
                    'in the right direction')
    mod = db.modules.get(MUTIL)
    for fname in ('attribute_alias', 'partial_attribute_alias',
                  'attribute_transform'):
        fi = mod.funcs.get(fname)
        if fi is None:
            raise AnalysisError('%s vanished' % fname)
        calls = [c for c in ast.walk(fi.node) if isinstance(c, ast.Call)
                 and ast.unparse(c.func) == 'property']
        if len(calls) != 1:
            raise AnalysisError('%s: property(...) not found' % fname,
                                fi.node, rel(fi.path))
        kw = {k.arg: k.value for k in calls[0].keywords}
        for i, a in enumerate(calls[0].args[:3]):
            kw[('fget', 'fset', 'fdel')[i]] = a
        if set(kw) != {'fget', 'fset', 'fdel'} or not all(
                isinstance(v, ast.Lambda) for v in kw.values()):
            report.violation(R, 'alias:%s:parts' % fname, fi.path, fi.node,
                             fi.qualname, 'the property lacks one of '
                             'fget/fset/fdel: %s' % sorted(kw))
            continue
        vname = kw['fset'].args.args[1].arg if len(
            kw['fset'].args.args) > 1 else 'value'
        ap = {k: access_path(v.body, vname) for k, v in kw.items()}
        if None in ap.values():
            raise AnalysisError('%s: alias lambdas are not getattr/setattr/'
                                'delattr chains on self' % fname, fi.node,
                                rel(fi.path))
        paths = {k: v[1] for k, v in ap.items()}
        kinds = {k: v[0] for k, v in ap.items()}
        want_path = list(fi.params[:2] if fname == 'partial_attribute_alias'
                         else fi.params[:1])
        prob = []
        if kinds != {'fget': 'get', 'fset': 'set', 'fdel': 'del'}:
            prob.append('getter/setter/deleter do %s' % kinds)
        for k, pth in sorted(paths.items()):
            if pth != want_path:
                prob.append('%s addresses self.%s instead of self.%s'
                            % (k, '.'.join(pth), '.'.join(want_path)))
        if fname == 'attribute_transform':
            if ap['fget'][2] != fi.params[1] or ap['fset'][2] != fi.params[2]:
                prob.append('transforms applied as get:%s set:%s; expected '
                            'get:%s set:%s' % (ap['fget'][2], ap['fset'][2],
                                               fi.params[1], fi.params[2]))
        elif ap['fget'][2] or ap['fset'][2]:
            prob.append('an alias must not transform the value')
        if prob:
            report.violation(R, 'alias:%s' % fname, fi.path, fi.node,
                             fi.qualname, '; '.join(prob))
        else:
            report.ok(R, '%s: get/set/del all address self.%s' % (
                fname, '.'.join(want_path)))
    fi = mod.funcs.get('multi_attribute_alias')
    if fi is None:
        raise AnalysisError('multi_attribute_alias vanished')
    fns = [n for n in fi.node.body if isinstance(n, ast.FunctionDef)]
    if len(fns) != 3:
        raise AnalysisError('multi_attribute_alias: expected getter, setter '
                            'and deleter', fi.node, rel(fi.path))

    def name_sources(fn):
        """names iterated (in order) to address attributes of self"""
        out = []
        for n in ast.walk(fn):
            if isinstance(n, (ast.For, ast.comprehension)):
                out.append(ast.unparse(n.iter))
        return out
    g_, s_, d_ = [name_sources(f) for f in fns]
    pos, kws = fi.node.args.vararg.arg, fi.node.args.kwarg.arg

    def mentions(lst, what):
        return [x for x in lst if what in x]
    okk = (mentions(g_, pos) and mentions(g_, kws) and mentions(s_, pos)
           and mentions(s_, kws) and mentions(d_, pos) and mentions(d_, kws))
    # positional names pair with positional values in order (zip), keyword
    # names with the attribute of the same key
    setter = ast.unparse(fns[1])
    okk = okk and ('zip(%s, ' % pos) in setter and 'reversed' not in \
        ast.unparse(fi.node) and 'sorted' not in ast.unparse(fi.node)
    getter_calls = [c for c in ast.walk(fns[0]) if isinstance(c, ast.Call)
                    and ast.unparse(c.func) == 'getattr']
    setter_calls = [c for c in ast.walk(fns[1]) if isinstance(c, ast.Call)
                    and ast.unparse(c.func) == 'setattr']
    deleter_calls = [c for c in ast.walk(fns[2]) if isinstance(c, ast.Call)
                     and ast.unparse(c.func) == 'delattr']
    on_self = all(ast.unparse(c.args[0]) == 'self'
                  for c in setter_calls + deleter_calls) and any(
        ast.unparse(c.args[0]) == 'self' for c in getter_calls)
    if okk and on_self and getter_calls and setter_calls and deleter_calls:
        report.ok(R, 'multi_attribute_alias: getter, setter and deleter '
                  'enumerate %s in order, then %s' % (pos, kws))
    else:
        report.violation(R, 'alias:multi', fi.path, fi.node, fi.qualname,
                         'getter, setter and deleter of the multi-alias do '
                         'not enumerate the same names (%s then %s) in the '
                         'same order on self' % (pos, kws))


# ---------------------------------------------------------------------------
def records(report, db):
    R = report.rule('R20.5', 'records: __eq__ and __hash__ enumerate the '
                    'same _all_slots(); vector operators build type(self) '
                    'and pair components x, y, z with one operator')
    ci = db.get_class(TUTIL, 'MutableRecord')
    eq = db.own_method(ci, '__eq__')
    hs = db.own_method(ci, '__hash__')
    ne = db.own_method(ci, '__ne__')
    if None in (eq, hs):
        raise AnalysisError('MutableRecord.__eq__/__hash__ vanished')
    se, sh = ast.unparse(eq.node), ast.unparse(hs.node)
    slots = 'self._all_slots()'
    if slots in se and slots in sh and 'type(self) is type(other)' in se \
            and 'getattr(self, a) == getattr(other, a)' in se and \
            'type(self)' in sh:
        report.ok(R, '__eq__ and __hash__ both range over _all_slots() and '
                  'include the type')
    else:
        report.violation(R, 'record:eq-hash', eq.path, eq.node, eq.qualname,
                         '__eq__ and __hash__ do not enumerate the same '
                         'slots / type: equal records could hash '
                         'differently')
    if ne is not None and 'not self == other' in ast.unparse(ne.node).replace(
            '(', '').replace(')', ''):
        report.ok(R, '__ne__ is the negation of __eq__')
    als = db.own_method(ci, '_all_slots')
    if als is not None and 'reversed(cls.__mro__)' in ast.unparse(als.node) \
            and "__dict__.get('__slots__'" in ast.unparse(als.node):
        report.ok(R, '_all_slots walks the MRO base-first')
    else:
        report.violation(R, 'record:all-slots', ci.path, ci.node,
                         ci.qualname, '_all_slots does not collect the '
                         '__slots__ of every class in the MRO')
    if als is not None:
        cls_name = als.params[0]
        stores_ = set()
        for n in ast.walk(als.node):
            if isinstance(n, ast.Call) and ast.unparse(n.func) == 'setattr' \
                    and n.args and ast.unparse(n.args[0]) == cls_name and \
                    len(n.args) > 1 and isinstance(n.args[1], ast.Constant):
                stores_.add(n.args[1].value)
            if isinstance(n, ast.Attribute) and isinstance(
                    n.ctx, ast.Store) and ast.unparse(n.value) == cls_name:
                stores_.add(n.attr)
        inherited = []
        for n in ast.walk(als.node):
            if isinstance(n, ast.Call) and ast.unparse(n.func) == 'getattr' \
                    and n.args and ast.unparse(n.args[0]) == cls_name and \
                    len(n.args) > 1 and isinstance(n.args[1], ast.Constant) \
                    and n.args[1].value in stores_:
                inherited.append(n)
            if isinstance(n, ast.Attribute) and isinstance(
                    n.ctx, ast.Load) and ast.unparse(n.value) == cls_name \
                    and n.attr in stores_:
                inherited.append(n)
        if inherited:
            report.violation(R, 'record:slots-cache', als.path, inherited[0],
                             als.qualname, '_all_slots memoises its result '
                             'on the class and reads it back through an '
                             'inheriting lookup (%s): a subclass finds its '
                             'parent\'s cached slots, so records of the '
                             'subclass compare and hash on the parent\'s '
                             'fields only' % ast.unparse(inherited[0]))
        else:
            report.ok(R, '_all_slots keeps no state that a subclass could '
                      'inherit')
    vec = db.get_class(TUTIL, 'Vector')
    ops = {'__add__': '+', '__sub__': '-', '__mul__': '*',
           '__rmul__': '*', '__truediv__': '/', '__floordiv__': '//'}
    n = 0
    for name, op in sorted(ops.items()):
        fi = db.own_method(vec, name)
        if fi is None:
            report.violation(R, 'vector:missing:%s' % name, vec.path,
                             vec.node, vec.qualname, 'Vector lacks %s'
                             % name)
            continue
        n += 1
        calls = [c for c in ast.walk(fi.node) if isinstance(c, ast.Call)
                 and ast.unparse(c.func) == 'type(self)']
        if len(calls) != 1 or len(calls[0].args) != 3:
            report.violation(R, 'vector:type:%s' % name, fi.path, fi.node,
                             fi.qualname, '%s does not build its result '
                             'with type(self)(x, y, z): the operand\'s type '
                             'is lost' % name)
            continue
        o = fi.params[1]
        good = True
        for comp, a in zip('xyz', calls[0].args):
            vector_op = name in ('__add__', '__sub__')
            lhs = 'self.%s' % comp
            rhs = '%s.%s' % (o, comp) if vector_op else o
            forms = ['%s %s %s' % (lhs, op, rhs)]
            if name == '__rmul__':
                forms = ['%s %s %s' % (rhs, op, lhs)]
            if ast.unparse(a) not in forms:
                good = False
        if good:
            report.ok(R, 'Vector.%s: component-wise %s' % (name, op))
        else:
            report.violation(R, 'vector:components:%s' % name, fi.path,
                             fi.node, fi.qualname, '%s is not component-'
                             'wise %s on x, y, z: %s' % (
                                 name, op, [ast.unparse(a)
                                            for a in calls[0].args]))
    neg = db.own_method(vec, '__neg__')
    if neg is not None and 'type(self)(-self.x, -self.y, -self.z)' in \
            ast.unparse(neg.node):
        report.ok(R, 'Vector.__neg__')
    else:
        report.violation(R, 'vector:neg', vec.path, vec.node, vec.qualname,
                         '__neg__ is not component-wise negation preserving '
                         'the type')
    report.floor('vector operators', n, 6)
