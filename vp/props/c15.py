"""C15 -- a server that stops mid-conversation never hangs or spins the
client.  EOF-progress rule over every stream-reading loop, delivery only
after a complete frame, loop-free error path, EOF-preserving wrappers,
EOFError-only status fallback."""
import ast

from ..common import AnalysisError, rel
from ..callgraph import CallGraph
from ..connmodel import ConnModel, CONN
from ..cfg import cfg_of
from .. import shared

BASIC = 'minecraft.networking.types.basic'


def raw_reads(db, cg, fi, type_ci, packet_ci):
    """Call nodes `<stream>.read(...)` / `.recv(...)` in fi that read from a
    byte stream (not a wire-type codec, not Packet.read)."""
    out = []
    for cs in cg.sites.get(fi, []):
        f = cs.node.func
        if not (isinstance(f, ast.Attribute) and f.attr in ('read', 'recv')):
            continue
        if any(m.cls is not None and (db.is_subclass(m.cls, type_ci)
                                      or db.is_subclass(m.cls, packet_ci))
               for m, _, _ in cs.callees):
            continue
        if any(t[0] in ('cls', 'inst') and (
                db.is_subclass(t[1], type_ci) or
                db.is_subclass(t[1], packet_ci)) for t in cs.recv_types):
            continue
        # helper objects that take a stream *argument* are readers of their
        # own, not streams
        if cs.callees and all(m.cls is not None and m.name == 'read'
                              and len(m.params) >= 2
                              and m.cls.module.name.startswith(
                                  'minecraft.networking.packets.')
                              for m, _, _ in cs.callees):
            continue
        out.append(cs.node)
    return out


def run(report, db, tier):
    report.explanation = (
        'After the peer closes, a read returns b"" forever.  Every loop that '
        'reads from a stream must therefore either test that read for '
        'emptiness on every iteration and leave the loop, or be bounded by '
        'a counter; packets are delivered only past the reassembly '
        'condition; the error path is loop-free.')
    cg = CallGraph(db)
    M = ConnModel(db, cg)
    type_ci = db.get_class(BASIC, 'Type')
    packet_ci = db.get_class('minecraft.networking.packets.packet', 'Packet')
    r1(report, db, cg, type_ci, packet_ci)
    r2(report, db, cg, M)
    r3(report, db, cg, M, type_ci, packet_ci)
    R4 = report.rule('R15.4', 'cipher wrappers are single pass-through '
                     'updates: an empty read stays empty')
    shared.wrapper_passthrough(report, R4, db)
    R5 = report.rule('R15.5', 'status-phase fallback: exactly EOFError, '
                     'close immediately, default version, handled')
    shared.eof_fallback(report, R5, db, cg)


def r1(report, db, cg, type_ci, packet_ci):
    R = report.rule('R15.1', 'EOF progress: every loop containing a stream '
                    'read tests that read for emptiness each iteration and '
                    'leaves the loop, or is bounded by a counter')
    n_loops = 0
    for fi in db.funcs:
        if isinstance(fi.node, ast.Lambda):
            continue
        reads = raw_reads(db, cg, fi, type_ci, packet_ci)
        if not reads:
            continue
        loops = [n for n in ast.walk(fi.node) if isinstance(n, ast.While)]
        for loop in loops:
            inside = [r for r in reads if any(r is x for st in loop.body
                                              for x in ast.walk(st))]
            if not inside:
                continue
            n_loops += 1
            g = cfg_of(fi)
            body = set(g.loop_nodes(loop))
            for r in inside:
                verdict = eof_progress(fi, g, loop, body, r)
                if verdict is True:
                    report.ok(R, '%s line %d: %s' % (fi.qualname, r.lineno,
                                                     ast.unparse(r)[:60]))
                else:
                    report.violation(
                        R, 'eof-progress:%s' % fi.qualname, fi.path, r,
                        fi.qualname, 'the loop at line %d reads with %s but '
                        '%s: after the peer closes, every read returns b"" '
                        'and the loop spins forever' % (
                            loop.lineno, ast.unparse(r)[:60], verdict))
    report.note('stream-reading loops', n_loops)
    report.floor('stream-reading while loops', n_loops, 2)


def eof_progress(fi, g, loop, body, read):
    """True, or the reason the loop can spin at end of stream."""
    par = {}
    for n in ast.walk(loop):
        for c in ast.iter_child_nodes(n):
            par[id(c)] = n
    p = par.get(id(read))
    var = None
    if isinstance(p, ast.Assign) and len(p.targets) == 1 and \
            isinstance(p.targets[0], ast.Name) and p.value is read:
        var = p.targets[0].id
    if var is None:
        return 'its result is consumed without being bound to a name that ' \
               'could be tested for emptiness'
    rnodes = [n for n in body if n.ast is p]
    if not rnodes:
        return 'the read is not on the loop\'s control-flow graph'
    rn = rnodes[0]
    # an emptiness test of var inside the loop, reached on every path from
    # the read back to the loop head, whose empty arm leaves the loop
    heads = [n for n in g.nodes if n.kind == 'test' and n.note is loop]
    head = heads[0]
    tests = []
    for n in body:
        if n.kind != 'test':
            continue
        m, empty_true = shared.is_empty_test(n.ast, var)
        if not m:
            continue
        lab = 'true' if empty_true else 'false'
        outs = [s for s, l in n.succ if l == lab]
        if outs and all(leaves_loop(g, s, body, head) for s in outs):
            tests.append(n)
    if not tests:
        return 'never tests `%s` for emptiness with an arm that leaves ' \
               'the loop' % var
    # every path read -> head passes one of the tests (before var is
    # overwritten)
    pth = g.exists_path(rn, lambda n: n is head,
                        avoid=lambda n: n in tests)
    if pth is not None:
        return 'a path from the read back to the loop head skips the ' \
               'emptiness test'
    return True


def leaves_loop(g, s, body, head):
    """Every path from s ends outside the loop without re-entering it."""
    if isinstance(s.ast, (ast.Raise, ast.Return, ast.Break)):
        return True
    if s not in body and s is not head:
        return True
    seen = set()
    stack = [s]
    while stack:
        n = stack.pop()
        if n in seen:
            continue
        seen.add(n)
        if n is head:
            return False
        if n not in body:
            continue
        if isinstance(n.ast, (ast.Raise, ast.Return, ast.Break)):
            continue
        stack.extend(x for x, l in n.succ if l != 'exc')
    return True


def r2(report, db, cg, M):
    R = report.rule('R15.2', 'a packet is delivered only after its whole '
                    'frame was read: the decode is dominated by the '
                    'reassembly condition and nothing breaks out of it')
    react = M.conn_method('_react')
    rp = M.method(M.reactor, 'read_packet')
    # every _react(x): x comes from read_packet in the same function
    n = 0
    for cs in cg.callers_of(react):
        n += 1
        fi = cs.caller
        a = cs.node.args[0] if cs.node.args else None
        ok = False
        if isinstance(a, ast.Name):
            srcs = []
            for x in ast.walk(fi.node):
                if isinstance(x, ast.Assign) and any(
                        isinstance(t, ast.Name) and t.id == a.id
                        for t in x.targets):
                    srcs.append(x.value)
            ok = bool(srcs) and all(
                isinstance(v, ast.Call) and any(
                    m.name == 'read_packet' for m, _, _ in
                    cg.callee_funcs(fi, v)) for v in srcs)
        if ok:
            report.ok(R, '%s: _react(%s) <- read_packet' % (fi.qualname,
                                                            a.id))
        else:
            report.violation(R, 'react-source:%s' % fi.qualname, fi.path,
                             cs.node, fi.qualname, '_react is handed '
                             'something other than the result of '
                             'read_packet')
    report.floor('_react call sites', n, 1)
    # in read_packet: the reassembly loop
    g = cfg_of(rp)
    stream = rp.params[1]
    loops = [x for x in ast.walk(rp.node) if isinstance(x, ast.While)]
    if len(loops) != 1:
        raise AnalysisError('read_packet: expected one reassembly loop',
                            rp.node, rel(rp.path))
    loop = loops[0]
    t = loop.test
    bufs = [x.targets[0].id for x in ast.walk(rp.node)
            if isinstance(x, ast.Assign) and isinstance(x.targets[0],
                                                        ast.Name)
            and ast.unparse(x.value).endswith('PacketBuffer()')]
    recv = shared.received_length_exprs(rp, bufs[0]) if len(bufs) == 1 \
        else set()
    length_ok = (isinstance(t, ast.Compare) and len(t.ops) == 1
                 and isinstance(t.ops[0], ast.Lt)
                 and ast.unparse(t.left) in recv
                 and isinstance(t.comparators[0], ast.Name))
    if not length_ok:
        report.violation(R, 'reassembly-condition', rp.path, loop,
                         rp.qualname, 'the reassembly loop runs while [%s]; '
                         'it must run while the number of bytes received '
                         'for this frame (len of the frame buffer, or a '
                         'counter kept equal to it) is below the length '
                         'prefix' % ast.unparse(t))
        return
    lname = t.comparators[0].id
    # length is the frame's VarInt prefix
    src = [x for x in ast.walk(rp.node) if isinstance(x, ast.Assign)
           and any(isinstance(tt, ast.Name) and tt.id == lname
                   for tt in x.targets)]
    if len(src) == 1 and ast.unparse(src[0].value) == \
            'VarInt.read(%s)' % stream:
        report.ok(R, 'frame length = VarInt.read(stream)')
    else:
        report.violation(R, 'frame-length', rp.path, loop, rp.qualname,
                         'the reassembly bound is not the VarInt length '
                         'prefix of the frame')
    head = [x for x in g.nodes if x.kind == 'test' and x.note is loop][0]
    body = set(g.loop_nodes(loop))
    brk = [x for x in body if isinstance(x.ast, (ast.Break, ast.Return))]
    for b in brk:
        report.violation(R, 'reassembly-break', rp.path, b.ast, rp.qualname,
                         'the reassembly loop is left by %s before the '
                         'frame is complete: a partial frame would be '
                         'decoded and delivered' % type(b.ast).__name__.lower())
    decode = [x for x in g.reachable_nodes() if x.ast is not None and any(
        isinstance(c.func, ast.Attribute) and c.func.attr == 'read'
        and any(m.name == 'read' and m.cls is not None and
                m.cls.name == 'Packet' for m, _, _ in cg.callee_funcs(rp, c))
        for c in x.calls())]
    rets = [x for x in g.reachable_nodes() if isinstance(x.ast, ast.Return)
            and x.ast.value is not None and not (
                isinstance(x.ast.value, ast.Constant)
                and x.ast.value.value is None)]
    if not decode or not rets:
        raise AnalysisError('read_packet: decode / return not found',
                            rp.node, rel(rp.path))
    for x in decode + rets:
        # reachable only through the loop head's false edge
        ok = g.dominates(head, x) and g.exists_path(
            head, lambda n: n is x, start_labels=('true',),
            avoid=lambda n: n is head) is None
        if ok:
            report.ok(R, 'line %d only after len(buffer) >= length'
                      % x.lineno)
        else:
            report.violation(R, 'deliver-incomplete:%d' % x.lineno, rp.path,
                             x.ast, rp.qualname, 'the packet is decoded or '
                             'returned on a path that has not passed the '
                             'frame-complete condition')


def r3(report, db, cg, M, type_ci, packet_ci):
    R = report.rule('R15.3', 'the error path from the thread wrapper to '
                    'thread exit contains no stream-reading loop')
    run = M.method(M.thread, 'run')
    he = M.conn_method('_handle_exception')
    roots = set()
    g = cfg_of(run)
    for n in g.reachable_nodes():
        if n.kind == 'handler':
            # calls in the handler body
            stack = [s for s, _ in n.succ]
            seen = set()
            while stack:
                x = stack.pop()
                if x in seen or x.kind == 'finally':
                    continue
                seen.add(x)
                for c in x.calls():
                    for m, _, _ in cg.callee_funcs(run, c):
                        roots.add(m)
                stack.extend(s for s, _ in x.succ)
    if he not in roots:
        report.violation(R, 'error-path:dispatch', run.path, run.node,
                         run.qualname, 'the thread wrapper\'s except arm '
                         'does not reach _handle_exception')
    reach = cg.reachable(roots)
    # a new connection is started through _start_network_thread; the new
    # thread's own reading is not part of this thread's exit path
    bad = []
    for f in reach:
        if isinstance(f.node, ast.Lambda):
            continue
        reads = raw_reads(db, cg, f, type_ci, packet_ci)
        if not reads:
            continue
        for loop in [x for x in ast.walk(f.node) if isinstance(x, ast.While)]:
            if any(r is x for r in reads for st in loop.body
                   for x in ast.walk(st)):
                bad.append((f, loop))
    report.note('functions reachable on the error path', len(reach))
    if bad:
        for f, loop in bad:
            report.violation(R, 'error-path:%s' % f.qualname, f.path, loop,
                             f.qualname, 'a stream-reading loop is '
                             'reachable while the thread is handling its '
                             'fatal exception')
    else:
        report.ok(R, '%d functions reachable from the except arm, none '
                  'loops on a stream' % len(reach))
    report.floor('error-path functions', len(reach), 5)
