"""C15 -- a server that stops mid-conversation never hangs or spins the
client.  EOF-progress rule over every stream-reading loop (on the loop
summaries of vp.pathsum), delivery only after a complete frame (linear loop
invariant, vp.reassembly), loop-free error path, EOF-preserving wrappers,
EOFError-only status fallback."""
import ast

from ..common import AnalysisError, rel
from ..callgraph import CallGraph
from ..connmodel import ConnModel, CONN
from ..cfg import cfg_of
from .. import shared, pathsum, reassembly
from ..pathsum import struct, show, is_const, subterms

BASIC = 'minecraft.networking.types.basic'
BUFFER = 'minecraft.networking.packets.packet_buffer'


def raw_reads(db, cg, fi, type_ci, packet_ci):
    """Call nodes `<stream>.read(...)` / `.recv(...)` in fi that read from a
    byte stream (not a wire-type codec, not Packet.read)."""
    out = []
    for cs in cg.sites.get(fi, []):
        f = cs.node.func
        if not (isinstance(f, ast.Attribute) and f.attr in ('read', 'recv')):
            continue
        if any(m.cls is not None and (db.is_subclass(m.cls, type_ci)
                                      or db.is_subclass(m.cls, packet_ci))
               for m, _, _ in cs.callees):
            continue
        if any(t[0] in ('cls', 'inst') and (
                db.is_subclass(t[1], type_ci) or
                db.is_subclass(t[1], packet_ci)) for t in cs.recv_types):
            continue
        # helper objects that take a stream *argument* are readers of their
        # own, not streams
        if cs.callees and all(m.cls is not None and m.name == 'read'
                              and len(m.params) >= 2
                              and m.cls.module.name.startswith(
                                  'minecraft.networking.packets.')
                              for m, _, _ in cs.callees):
            continue
        out.append(cs.node)
    return out


def run(report, db, tier):
    report.explanation = (
        'After the peer closes, a read returns b"" forever.  Every loop that '
        'reads from a stream is summarised by one symbolic iteration: an '
        'iteration may only go on when its decisions say the chunk read was '
        'not empty, and an empty chunk must leave the loop (or the loop is '
        'a bounded for).  For the frame reader a linear loop invariant shows '
        'that the loop runs exactly while fewer bytes than the length '
        'prefix have been appended, so packets are decoded only from whole '
        'frames; the error path is loop-free.')
    cg = CallGraph(db)
    M = ConnModel(db, cg)
    S = shared.summariser(db, cg)
    type_ci = db.get_class(BASIC, 'Type')
    packet_ci = db.get_class('minecraft.networking.packets.packet', 'Packet')
    r1(report, db, cg, S, type_ci, packet_ci)
    r2(report, db, cg, S, M, type_ci, packet_ci)
    r3(report, db, cg, M, type_ci, packet_ci)
    r7(report, db, cg, M)
    R4 = report.rule('R15.4', 'cipher wrappers are single pass-through '
                     'updates: an empty read stays empty')
    shared.wrapper_passthrough_ps(report, R4, db)
    R5 = report.rule('R15.5', 'status-phase fallback: exactly EOFError, '
                     'close immediately, default version, handled')
    shared.eof_fallback_ps(report, R5, db, S)
    # "takes the documented fallback": the fallback must end the probing --
    # the allowed set is narrowed to the chosen version before reconnecting,
    # or the next connect() asks for the status again, for ever
    from ..common import borrow
    from ..protocol import Proto
    from . import c09
    borrow(report, 'R15.6', 'the fallback ends the status probing: the '
           'allowed versions are narrowed to the chosen one before the '
           'reconnect (C09\'s status evaluation)',
           lambda rid, c: c.startswith(('status:narrow', 'status:default',
                                        'status:reconnect')),
           lambda sub: c09.status_evaluation(sub, db, S, M, Proto(db)))
    from . import c14
    from .. import pathsum as _ps
    borrow(report, 'R15.9', "'terminates and reports an error, or takes the "
           "fallback': the fallback is the reactor's own exception handler "
           "-- its true result ends the dispatch, and when it raises itself "
           "(the reconnect failed) the new exception is dispatched like any "
           "other (C14's rule)",
           lambda rid, c: c == 'reactor-handler',
           lambda sub: c14.chain(sub, db, _ps.PathSum(
               db, cg, inline_pred=_ps.known_unit_pred()), M))
    borrow(report, 'R15.8', 'the version the fallback logs in with: without '
           'an initial_version the default is the latest *allowed* version '
           '(C09\'s construction rule)',
           lambda rid, c: c.startswith('default:'),
           lambda sub: c09.construction(sub, db, cg, M, Proto(db)))


def loop_events(paths):
    """every loop event of the summaries, nested ones included, once per
    syntactic loop"""
    out = {}

    def rec(evs):
        for e in evs:
            if e.kind == 'loop':
                out.setdefault(id(e.node), e)
                for q in e.paths:
                    rec(q.events)
    for p in paths:
        rec(p.events)
    return list(out.values())


def bounded(loop_node):
    """a `for` over range(...) / a literal runs a bounded number of times"""
    if not isinstance(loop_node, ast.For):
        return False
    it = loop_node.iter
    if isinstance(it, ast.Call) and isinstance(it.func, ast.Name) and \
            it.func.id in ('range', 'xrange'):
        return True
    return isinstance(it, (ast.Tuple, ast.List, ast.Constant))


def r1(report, db, cg, S, type_ci, packet_ci):
    R = report.rule('R15.1', 'EOF progress: in every loop containing a '
                    'stream read, an iteration goes on only when the chunk '
                    'read is known to be non-empty and an empty chunk '
                    'leaves the loop -- or the loop is bounded by a counter')
    n_loops = 0
    for fi in db.funcs:
        if isinstance(fi.node, ast.Lambda):
            continue
        reads = raw_reads(db, cg, fi, type_ci, packet_ci)
        if not reads:
            continue
        if not any(isinstance(n, (ast.While, ast.For))
                   for n in ast.walk(fi.node)):
            continue
        raw = set(id(r) for r in reads)
        try:
            paths = S.run(fi)
        except AnalysisError:
            raise
        for lp in loop_events(paths):
            body_reads = [(q, e) for q in lp.paths
                          for e in q.events if e.kind == 'call'
                          and id(e.node) in raw]
            if not body_reads:
                continue
            n_loops += 1
            if bounded(lp.node):
                report.ok(R, '%s line %d: bounded for loop' % (
                    fi.qualname, lp.node.lineno))
                continue
            verdict = None
            for q, e in body_reads:
                chunk = e.res
                nonempty = None
                for a, pol, _ in q.conds:
                    if a[1] == 'truth' and a[2][0] == chunk:
                        nonempty = pol
                goes_on = q.outcome[0] in ('fall', 'continue')
                if goes_on and nonempty is None:
                    verdict = (e, 'an iteration goes on without the chunk '
                               'read having been tested for emptiness '
                               '(decisions: [%s])' % q.cond_text())
                elif goes_on and nonempty is False:
                    verdict = (e, 'an iteration goes on although the chunk '
                               'read is empty')
            if verdict is None:
                report.ok(R, '%s line %d: %s' % (
                    fi.qualname, lp.node.lineno,
                    show(body_reads[0][1].fn)[:60]))
            else:
                e, why = verdict
                report.violation(
                    R, 'eof-progress:%s' % fi.qualname, fi.path, e.node,
                    fi.qualname, 'the loop at line %d reads with %s but %s: '
                    'after the peer closes, every read returns b"" and the '
                    'loop spins forever' % (lp.node.lineno, show(e.fn)[:60],
                                            why))
    report.note('stream-reading loops', n_loops)
    report.floor('stream-reading loops', n_loops, 1)


def r2(report, db, cg, S, M, type_ci, packet_ci):
    R = report.rule('R15.2', 'a packet is delivered only after its whole '
                    'frame was read: the reassembly loop runs exactly while '
                    'fewer bytes than the length prefix have been appended '
                    'and is left in no other way')
    react = M.conn_method('_react')
    rp = M.method(M.reactor, 'read_packet')
    n = 0
    seen_ok = set()
    for fi in sorted(set(cs.caller for cs in cg.callers_of(react)),
                     key=lambda f: f.qualname):
        for p in S.run(fi):
            for e in p.flat(('call',)):
                if not e.calls(react):
                    continue
                n += 1
                a = [x for x in e.args if x[0] != 'sym'
                     or x != ('sym', fi.all_params[0])]
                src = a[-1] if a else None
                okk = src is not None and src[0] == 'call' and any(
                    ev.res == src and any(t.name == 'read_packet'
                                          for t in (ev.targets or ()))
                    for ev in p.flat(('call',)))
                if okk:
                    if (fi, 'ok') not in seen_ok:
                        seen_ok.add((fi, 'ok'))
                        report.ok(R, '%s: _react(x) <- read_packet'
                                  % fi.qualname)
                else:
                    report.violation(R, 'react-source:%s' % fi.qualname,
                                     fi.path, e.node, fi.qualname, '_react '
                                     'is handed something other than the '
                                     'result of read_packet')
    report.floor('_react call sites', n, 1)
    pb = db.get_class(BUFFER, 'PacketBuffer')
    raw = set()
    for f in db.funcs:
        if f.module is rp.module or f.module is pb.module:
            raw |= set(id(x) for x in raw_reads(db, cg, f, type_ci,
                                                packet_ci))
    res = reassembly.analyse(S, rp, raw, pb)
    if res['L'] is None or not res['loops']:
        raise AnalysisError('read_packet: expected one reassembly loop',
                            rp.node, rel(rp.path))
    report.ok(R, 'frame length = VarInt.read(stream)')
    for key, node, text in res['problems']:
        if key in ('reassembly-condition', 'reassembly-break'):
            report.violation(R, key, rp.path, node, rp.qualname, text)
    if not any(k in ('reassembly-condition', 'reassembly-break')
               for k, _, _ in res['problems']):
        report.ok(R, 'the loop runs exactly while bytes appended < length '
                  'prefix (%s) and is left only by that condition or an '
                  'error' % '; '.join(sorted(set(res['facts']))[:2]))
    # decode / delivery only after the loop
    bad = None
    ndec = 0
    for p in S.run(rp):
        if not p.returns or p.value == ('const', None):
            continue
        top = p.events
        li = [i for i, e in enumerate(top) if e.kind == 'loop' and any(
            id(x.node) in raw for q in e.paths for x in q.flat(('call',)))]
        dec = [i for i, e in enumerate(top) if shared.is_packet_decode(e)]
        ndec += len(dec)
        if not li or any(i < li[0] for i in dec) or any(
                n_[0] == 'left-by-break' and n_[1] is top[li[0]].node
                for n_ in p.notes):
            bad = p
    if bad is not None:
        report.violation(R, 'deliver-incomplete', rp.path, rp.node,
                         rp.qualname, 'a packet is decoded or returned on a '
                         'path that has not passed the frame-complete '
                         'condition [%s]' % bad.cond_text()[:200])
    elif ndec:
        report.ok(R, 'decode and return only after the reassembly loop was '
                  'exhausted')
    else:
        raise AnalysisError('read_packet: decode / return not found',
                            rp.node, rel(rp.path))


def r7(report, db, cg, M):
    """'terminates and reports an error': the end of the stream found by
    read_packet leaves the read loop as an exception -- nothing inside _run
    (or the helpers it is split into) catches it and goes on or returns."""
    from .. import pathsum
    R = report.rule('R15.7', 'the end of the stream reaches the thread '
                    'wrapper: an exception of read_packet is not taken by a '
                    'handler inside the read loop that then ends the thread '
                    'quietly')
    run_ = M.method(M.thread, '_run')
    rp = M.method(M.reactor, 'read_packet')
    S = pathsum.PathSum(db, cg, inline_pred=pathsum.known_unit_pred())
    n = 0
    bad = None
    for p in S.run(run_):
        reads = [e for e in p.flat(('call',)) if e.calls(rp) or
                 e.method() == 'read_packet']
        for e in reads:
            n += 1
            caught = [x for x in p.notes if x[0] == 'caught'
                      and x[3] is e.node]
            if caught and not (p.raises and len(p.outcome) == 3):
                bad = bad or (p, e, caught[0])
    if not n:
        raise AnalysisError('_run: no call of read_packet found', run_.node,
                            rel(run_.path))
    if bad:
        p, e, c = bad
        report.violation(
            R, 'eof:swallowed', run_.path, c[1] if isinstance(
                c[1], ast.AST) else e.node, run_.qualname,
            'an exception raised by read_packet (the end of the stream) is '
            'caught inside the read loop and the thread then %s [%s]: it '
            'terminates without any error being dispatched or recorded'
            % ('returns' if p.returns else 'goes on', p.cond_text()[:200]))
    else:
        report.ok(R, 'no handler inside _run takes read_packet\'s '
                  'exceptions and ends quietly (%d read sites on the paths)'
                  % n)


def r3(report, db, cg, M, type_ci, packet_ci):
    R = report.rule('R15.3', 'the error path from the thread wrapper to '
                    'thread exit contains no stream-reading loop')
    run = M.method(M.thread, 'run')
    he = M.conn_method('_handle_exception')
    roots = set()
    g = cfg_of(run)
    for n in g.reachable_nodes():
        if n.kind == 'handler':
            # calls in the handler body
            stack = [s for s, _ in n.succ]
            seen = set()
            while stack:
                x = stack.pop()
                if x in seen or x.kind == 'finally':
                    continue
                seen.add(x)
                for c in x.calls():
                    for m, _, _ in cg.callee_funcs(run, c):
                        roots.add(m)
                stack.extend(s for s, _ in x.succ)
    if he not in roots:
        report.violation(R, 'error-path:dispatch', run.path, run.node,
                         run.qualname, 'the thread wrapper\'s except arm '
                         'does not reach _handle_exception')
    reach = cg.reachable(roots)
    # a new connection is started through _start_network_thread; the new
    # thread's own reading is not part of this thread's exit path
    bad = []
    for f in reach:
        if isinstance(f.node, ast.Lambda):
            continue
        reads = raw_reads(db, cg, f, type_ci, packet_ci)
        if not reads:
            continue
        for loop in [x for x in ast.walk(f.node) if isinstance(x, ast.While)]:
            if any(r is x for r in reads for st in loop.body
                   for x in ast.walk(st)):
                bad.append((f, loop))
    report.note('functions reachable on the error path', len(reach))
    if bad:
        for f, loop in bad:
            report.violation(R, 'error-path:%s' % f.qualname, f.path, loop,
                             f.qualname, 'a stream-reading loop is '
                             'reachable while the thread is handling its '
                             'fatal exception')
    else:
        report.ok(R, '%d functions reachable from the except arm, none '
                  'loops on a stream' % len(reach))
    report.floor('error-path functions', len(reach), 5)
