"""C19 -- auth token state follows the Yggdrasil replies; errors leave it
untouched.  Folding of `authenticated` over all truthiness combinations,
request-shape agreement with reference/yggdrasil.json, dominance of stores
by the error check, error-mapping paths."""
import ast
import itertools
import json
import os

from ..common import AnalysisError, VERIF, rel
from ..callgraph import CallGraph
from ..cfg import cfg_of
from ..fold import (Folder, Instance, Opaque, FuncVal, Env, FoldRaise,
                    ClassVal)
from .. import boolfn, pathsum
from ..pathsum import struct, show, is_const

AUTH = 'minecraft.authentication'


def run(report, db, tier):
    ref = json.load(open(os.path.join(VERIF, 'reference', 'yggdrasil.json')))
    report.explanation = (
        '`authenticated` and Profile.__bool__ are folded over every '
        'truthiness combination; every operation is summarised path by '
        'path (vp.pathsum: requests made, stores to the token, branch '
        'decisions, outcome, with helper calls inlined and values traced '
        'through temporaries), and the summaries are compared with the '
        'reference table: request shape, stores only after the error check '
        'returned, exactly the returned values stored, the error mapper\'s '
        'classification of replies, and the result of each operation.')
    cg = CallGraph(db)
    mod = db.modules.get(AUTH)
    if mod is None:
        raise AnalysisError('anchor module vanished: %s' % AUTH)
    tok = db.get_class(AUTH, 'AuthenticationToken')
    prof = db.get_class(AUTH, 'Profile')
    F = Folder(db)
    predicate(report, db, F, tok, prof)
    S = Summaries(db, cg, tok)
    requests_shape(report, db, F, S, mod, tok, ref)
    stores(report, db, S, tok, ref)
    error_mapping(report, db, S, mod)
    results(report, db, S, tok)


# ---------------------------------------------------------------------------
    from .. import shared as _sh
    Rd = report.rule('R19.9', 'tokens share no state: no mutable default '
                     'argument value (a shared Profile, a shared dict) is '
                     'kept or changed')
    nd = _sh.shared_defaults(
        report, Rd, db, [f for f in db.funcs
                         if f.module.name == 'minecraft.authentication'],
        'every token made with the default then holds the same object, and '
        'authenticating one rewrites the profile of the others')
    report.floor('default values in authentication.py', nd, 5)

def predicate(report, db, F, tok, prof):
    R = report.rule('R19.1', '`authenticated` is the conjunction of '
                    'username, access token, client token and a complete '
                    'profile; a profile is complete iff id and name are '
                    'set')
    pb = db.own_method(prof, '__bool__')
    au = db.own_method(tok, 'authenticated')
    if pb is None or au is None:
        raise AnalysisError('Profile.__bool__ / authenticated vanished')
    bad = None
    n = 0
    for i, nm in itertools.product((None, '', 'x'), repeat=2):
        n += 1
        p = Instance(prof, {'id_': i, 'name': nm})
        got = F.call_func(FuncVal(pb, bound=p), [], {}, pb.node,
                          Env(pb.module))
        want = i is not None and nm is not None
        if bool(got) is not want or not isinstance(got, bool):
            bad = (i, nm, got)
    if bad:
        report.violation(R, 'profile-bool', pb.path, pb.node, pb.qualname,
                         'Profile(id_=%r, name=%r) is %r' % bad)
    else:
        report.ok(R, 'Profile truth = id_ is not None and name is not None '
                  '(%d combinations)' % n)
    bad = None
    n = 0
    vals = (None, '', 'v')
    for u, a, c in itertools.product(vals, repeat=3):
        for pi, pn in ((None, None), ('i', None), (None, 'n'), ('i', 'n')):
            n += 1
            t = Instance(tok, {'username': u, 'access_token': a,
                               'client_token': c,
                               'profile': Instance(prof, {'id_': pi,
                                                          'name': pn})})
            F.memo.clear()
            got = F.call_func(FuncVal(au, bound=t), [], {}, au.node,
                              Env(au.module))
            want = bool(u) and bool(a) and bool(c) and pi is not None and \
                pn is not None
            if got is not want:
                bad = (u, a, c, pi, pn, got)
    if bad:
        report.violation(R, 'authenticated', au.path, au.node, au.qualname,
                         'authenticated folds to %r for username=%r '
                         'access_token=%r client_token=%r profile=(%r, %r)'
                         % (bad[5], bad[0], bad[1], bad[2], bad[3], bad[4]))
    else:
        report.ok(R, 'authenticated = conjunction over %d combinations' % n)


# ---------------------------------------------------------------------------
class Summaries(object):
    """Path summaries of the operations, with the two module-level units
    (_make_request, _raise_from_response) kept as opaque calls and every
    other in-repo helper inlined."""

    def __init__(self, db, cg, tok):
        self.db, self.cg, self.tok = db, cg, tok
        self.mk = db.get_func(AUTH, '_make_request')
        self.rf = db.get_func(AUTH, '_raise_from_response')
        self.cache = {}

    def paths(self, fi, opaque_units=True):
        key = (fi, opaque_units)
        if key not in self.cache:
            opaque = {self.mk, self.rf} if opaque_units else set()
            auth = self.db.own_method(self.tok, 'authenticated')
            if auth is not None:
                opaque.add(auth)
            ps = pathsum.PathSum(self.db, self.cg, opaque=opaque,
                                 inline_pred=lambda t: t not in opaque
                                 and not pathsum_known(t))
            self.cache[key] = ps.run(fi)
        return self.cache[key]

    def op(self, name):
        fi = self.db.own_method(self.tok, name)
        if fi is None:
            raise AnalysisError('AuthenticationToken.%s vanished' % name)
        return fi, self.paths(fi)

    def requests(self, path):
        return [e for e in path.calls() if e.calls(self.mk)]

    def checks(self, path):
        return [e for e in path.calls() if e.calls(self.rf)]


_KNOWN = None


def pathsum_known(t):
    global _KNOWN
    if _KNOWN is None:
        from ..normalize import known_units
        _KNOWN = known_units()[0]
    return t.qualname in _KNOWN.get(t.module.name, ())


def src(t, fi):
    """Where a payload value comes from, in the reference's vocabulary."""
    me = fi.all_params[0] if fi.kind == 'instance' and fi.params else None
    if t[0] == 'sym' and t[1] in fi.params and t[1] != me:
        return 'param:%s' % t[1]
    if t[0] == 'const':
        return t[1]
    if t[0] == 'dict' and all(is_const(k) for k, _ in t[1]):
        return {k[1]: src(v, fi) for k, v in t[1]}
    chain = []
    x = t
    if x[0] == 'call' and x[1][0] in ('attr', 'fn') and not x[2] and \
            not x[3]:
        # self.profile.to_dict()
        f = x[1]
        if f[0] == 'fn' and f[2] is not None:
            inner = src(f[2], fi)
            return '%s.%s()' % (inner, f[1].name)
        if f[0] == 'attr':
            return '%s.%s()' % (src(f[1], fi), f[2])
    while x[0] == 'attr':
        chain.append(x[2])
        x = x[1]
    if x[0] == 'sym' and x[1] == me and chain:
        return 'self.' + '.'.join(reversed(chain))
    return show(t)


def is_status(t, req):
    """t is <reply>.status_code of the request result `req` (or of the
    parameter `req` when that is a symbol)."""
    return t[0] == 'attr' and t[2] == 'status_code' and \
        struct(t[1]) == struct(req)


def status_cond(path, req, code):
    """Polarity of `reply.status_code == code` on the path, or None."""
    for a, pol, _ in path.conds:
        if a[0] == 'op' and a[1] == '==' and len(a[2]) == 2:
            x, y = a[2]
            if is_status(x, req) and y in code:
                return pol
            if is_status(y, req) and x in code:
                return pol
    return None


C204 = (('const', 204),)
C200 = (('const', 200), ('ext', 'requests.codes.ok'),
        ('op', 'index', (('ext', 'requests.codes'), ('const', 'ok'))))


def requests_shape(report, db, F, S, mod, tok, ref):
    R = report.rule('R19.2', 'each operation posts the documented payload '
                    'to the documented endpoint, once; _make_request posts '
                    'JSON to server + "/" + endpoint')
    servers = {}
    for k, name in (('auth', 'AUTH_SERVER'), ('session', 'SESSION_SERVER')):
        servers[k] = F.module_global(mod, name)
        if servers[k] == ref['servers'][k]:
            report.ok(R, '%s = %s' % (name, servers[k]))
        else:
            report.violation(R, 'server:%s' % name, mod.path, None, None,
                             '%s is %r, documented %r' % (name, servers[k],
                                                          ref['servers'][k]))
    n = 0
    for op, spec in sorted(ref['operations'].items()):
        fi, paths = S.op(op)
        me = fi.all_params[0] if fi.kind == 'instance' else None
        probs = []
        seen = 0
        site = fi.node
        for p in paths:
            reqs = S.requests(p)
            if len(reqs) > 1:
                probs.append('%d requests on the path [%s]' % (
                    len(reqs), p.cond_text()))
                continue
            if not reqs:
                if p.returns:
                    probs.append('returns without a request when [%s]'
                                 % p.cond_text())
                continue
            seen += 1
            c = reqs[0]
            site = c.node
            if len(c.args) != 3 or c.kwargs:
                a = dict(c.kwargs)
                names = S.mk.params
                vals = list(c.args) + [a.get(x) for x in names[len(c.args):]]
                if len(vals) != 3 or any(v is None for v in vals):
                    raise AnalysisError('_make_request call shape', c.node,
                                        rel(fi.path))
            else:
                vals = list(c.args)
            server, ep, payload = vals
            want_s = ref['servers'][spec['server']]
            got_s = server[1] if is_const(server) else show(server)
            if got_s != want_s or (is_const(server) and servers[
                    spec['server']] != want_s):
                probs.append('server %s (documented: %s)' % (got_s, want_s))
            got_ep = ep[1] if is_const(ep) else show(ep)
            if got_ep != spec['endpoint']:
                probs.append('endpoint %r (documented: %r)' % (
                    got_ep, spec['endpoint']))
            if payload[0] != 'dict' or not all(is_const(k)
                                               for k, _ in payload[1]):
                raise AnalysisError('payload of %s is not a dict of '
                                    'constant keys: %s' % (op, show(payload)),
                                    c.node, rel(fi.path))
            got = {k[1]: v for k, v in payload[1]}
            opt = spec.get('optional', {})
            base = {k: src(v, fi) for k, v in got.items() if k not in opt}
            if base != spec['payload']:
                probs.append('payload %s (documented: %s)' % (
                    base, spec['payload']))
            if op == 'authenticate':
                inv = None
                for a, pol, _ in p.conds:
                    if a == ('op', 'truth', (('sym', 'invalidate_previous'),
                                             )):
                        inv = pol
                has = 'clientToken' in got
                if inv is None:
                    probs.append('clientToken does not depend on '
                                 'invalidate_previous')
                elif has != (not inv):
                    probs.append('clientToken %s when invalidate_previous '
                                 'is %s' % ('sent' if has else 'not sent',
                                            inv))
                elif has:
                    v = got['clientToken']
                    own = ('attr', ('sym', me), 'client_token')
                    have = None
                    for a, pol, _ in p.conds:
                        if a == ('op', 'truth', (own,)):
                            have = pol
                    fresh = v[0] == 'attr' and v[2] == 'hex' and \
                        v[1][0] == 'call' and v[1][1] == ('ext',
                                                          'uuid.uuid4')
                    if not ((have is True and v == own)
                            or (have is False and fresh)):
                        probs.append('clientToken is %s when the stored '
                                     'one is %s' % (show(v), {
                                         True: 'set', False: 'unset',
                                         None: 'not consulted'}[have]))
            else:
                for k in got:
                    if k in opt:
                        probs.append('undocumented optional key %r' % k)
        if not seen:
            probs.append('no path performs the request')
        if probs:
            report.violation(R, 'request:%s' % op, fi.path, site,
                             fi.qualname, '%s: %s' % (op, '; '.join(
                                 sorted(set(probs)))))
        else:
            n += 1
            report.ok(R, '%s -> %s/%s %s on %d path(s)' % (
                op, spec['server'], spec['endpoint'],
                sorted(spec['payload']), seen))
    report.floor('operations with one request', n, 6) \
        if not report.violations else None
    # _make_request
    mk = S.mk
    paths = S.paths(mk, opaque_units=False)
    okk = bool(paths)
    why = ''
    for p in paths:
        posts = [e for e in p.calls() if e.fn == ('ext', 'requests.post')]
        if len(posts) != 1 or not p.returns:
            okk, why = False, 'not exactly one requests.post per call'
            continue
        c = posts[0]
        kw = dict(c.kwargs)
        url = c.args[0] if c.args else kw.get('url')
        data = c.args[1] if len(c.args) > 1 else kw.get('data')
        want_url = ('op', 'concat', (('sym', mk.all_params[0]), ('const', '/'),
                                     ('sym', mk.all_params[1])))
        want_data = ('call', ('ext', 'json.dumps'),
                     (('sym', mk.all_params[2]),), (), None)
        if url is None or struct(url) != want_url:
            okk, why = False, 'url is %s' % (show(url) if url else None)
        elif data is None or struct(data) != want_data:
            okk, why = False, 'body is %s' % (show(data) if data else None)
        elif struct(p.value) != struct(c.res):
            okk, why = False, 'the reply is not what is returned'
        hd = kw.get('headers')
        hv = None
        if hd is not None and hd[0] == 'glob':
            hv = F.module_global(mod, hd[2])
        elif hd is not None and hd[0] == 'dict':
            hv = {k[1]: (v[1] if is_const(v) else F.module_global(mod, v[2])
                         if v[0] == 'glob' else None)
                  for k, v in hd[1] if is_const(k)}
        if not (isinstance(hv, dict) and {str(k).lower(): v for k, v in
                                          hv.items()}.get(
                'content-type') == ref['content_type']):
            okk, why = False, 'headers are %s' % (hv,)
    if okk:
        report.ok(R, '_make_request: requests.post(server + "/" + '
                  'endpoint, data=json.dumps(data), JSON content type)')
    else:
        report.violation(R, 'request:transport', mk.path, mk.node,
                         mk.qualname, '_make_request does not post '
                         'json.dumps(data) with the JSON content type to '
                         'server + "/" + endpoint (%s)' % why)


# ---------------------------------------------------------------------------
def rooted_at(t, name):
    while t[0] == 'attr':
        t = t[1]
    return t == ('sym', name)


def json_key(v, req):
    """'a.b' when v is <reply>.json()['a']['b'] of the request result."""
    keys = []
    while v[0] == 'op' and v[1] == 'index' and is_const(v[2][1]):
        keys.append(v[2][1][1])
        v = v[2][0]
    if keys and v[0] == 'call' and not v[2] and v[1][0] == 'attr' and \
            v[1][2] == 'json' and struct(v[1][1]) == struct(req):
        return '.'.join(str(k) for k in reversed(keys))
    return None


def stores(report, db, S, tok, ref):
    R = report.rule('R19.3', 'errors leave the token untouched: on every '
                    'path of authenticate/refresh the stores come after the '
                    'error check of that reply returned, and store exactly '
                    'the returned values; paths that raise store nothing; '
                    'other operations store nothing')
    for op in ('authenticate', 'refresh'):
        fi, paths = S.op(op)
        me = fi.all_params[0]
        want = ref['stored_on_success'][op]
        bad = False
        nret = 0
        for p in paths:
            evs = p.flat()
            reqs = S.requests(p)
            req = reqs[0].res if reqs else None
            chk = [i for i, e in enumerate(evs) if e.calls(S.rf) and req
                   is not None and e.args and struct(e.args[0]) ==
                   struct(req)]
            sts = [(i, e) for i, e in enumerate(evs) if e.kind == 'store'
                   and rooted_at(e.base, me)]
            if not p.returns:
                if sts:
                    bad = True
                    report.violation(
                        R, 'stores:on-error:%s' % op, fi.path, sts[0][1].node,
                        fi.qualname, '%s alters self.%s on a path that '
                        'raises [%s]' % (op, sts[0][1].attr, p.cond_text()))
                continue
            nret += 1
            if not chk:
                bad = True
                report.violation(R, 'stores:no-check:%s' % op, fi.path,
                                 fi.node, fi.qualname, '%s can return '
                                 'without checking the reply for an error '
                                 '[%s]' % (op, p.cond_text()))
                continue
            # nothing of the reply is consumed before the error check: an
            # error reply need not be JSON at all, and res.json() on it
            # raises a decoding error instead of the YggdrasilError that
            # carries the status code
            early = [e for e in evs[:chk[0]] if e.kind == 'call'
                     and e.fn[0] == 'attr' and struct(e.fn[1]) == struct(req)
                     and e.fn[2] in ('json', 'raise_for_status')]
            if early:
                bad = True
                report.violation(
                    R, 'reply:consumed-early:%s' % op, fi.path, early[0].node,
                    fi.qualname, '%s calls .%s() on the reply before the '
                    'error check: for an error status with a body that is '
                    'not JSON it raises a decoding error, not a '
                    'YggdrasilError with the status code' % (
                        op, early[0].fn[2]))
                continue
            got = {}
            for i, e in sts:
                name = src(('attr', e.base, e.attr), fi)[len('self.'):]
                if i < chk[0]:
                    bad = True
                    report.violation(
                        R, 'stores:early:%s:%s' % (op, name), fi.path,
                        e.node, fi.qualname, 'self.%s is overwritten before '
                        'the reply is known to be a success: a failed %s '
                        'corrupts the stored credentials' % (name, op))
                jk = json_key(e.value, req)
                got[name] = jk if jk is not None else src(e.value, fi)
            if got != want:
                bad = True
                report.violation(R, 'stores:values:%s' % op, fi.path,
                                 fi.node, fi.qualname, '%s stores %s; '
                                 'documented: %s' % (op, got, want))
        if not nret:
            raise AnalysisError('%s has no returning path' % op, fi.node,
                                rel(fi.path))
        if not bad:
            report.ok(R, '%s stores %s after the error check, on %d '
                      'returning path(s); nothing on raising paths'
                      % (op, sorted(want), nret))
    for op in ('validate', 'sign_out', 'invalidate', 'join'):
        fi, paths = S.op(op)
        if fi.kind == 'static':
            report.ok(R, '%s is static: cannot touch the token' % op)
            continue
        me = fi.all_params[0]
        st = [e for p in paths for e in p.flat(('store', 'setitem'))
              if rooted_at(e.base, me)]
        if st:
            report.violation(R, 'stores:unexpected:%s' % op, fi.path,
                             st[0].node, fi.qualname, '%s alters self.%s'
                             % (op, st[0].attr))
        else:
            report.ok(R, '%s stores nothing on the token' % op)


# ---------------------------------------------------------------------------
def error_mapping(report, db, S, mod):
    R = report.rule('R19.4', '_raise_from_response returns only for an OK '
                    'reply; every other path raises a YggdrasilError with '
                    'the status code; service fields only for a well-formed '
                    'error body, else a "malformed" message')
    fi = S.rf
    res = ('sym', fi.all_params[0])
    paths = S.paths(fi, opaque_units=False)
    ygg = db.resolve_dotted(mod, ast.Name(id='YggdrasilError',
                                          ctx=ast.Load()))
    good = True
    nret = 0
    raising = []
    for p in paths:
        ok200 = status_cond(p, res, C200)
        if p.returns:
            nret += 1
            if ok200 is not True:
                good = False
                report.violation(R, 'errmap:return', fi.path,
                                 p.outcome[2] if len(p.outcome) > 2
                                 else fi.node, fi.qualname,
                                 'returns normally when [%s]: only a 200 '
                                 'reply is a success here' % p.cond_text())
        elif len(p.outcome) > 3 and p.outcome[3] == 'implicit':
            continue        # an exception of a call nothing here catches
        else:
            raising.append(p)
    if good and nret:
        report.ok(R, 'normal return only for status 200')
    if not raising:
        report.violation(R, 'errmap:no-raise', fi.path, fi.node, fi.qualname,
                         'no exception object is raised')
        return
    kinds = dict(type=True, status=True)
    well = mal = 0
    fields = {'yggdrasil_error': 'error', 'yggdrasil_message':
              'errorMessage', 'yggdrasil_cause': 'cause'}
    for p in raising:
        exc = p.outcome[1]
        site = p.outcome[2]
        if not (exc[0] == 'obj' and exc[3] is not None
                and isinstance(ygg, type(exc[3]))
                and db.is_subclass(exc[3], ygg)):
            if kinds['type']:
                report.violation(R, 'errmap:type', fi.path, site,
                                 fi.qualname, 'the raised object is %s, not '
                                 'a YggdrasilError [%s]' % (show(exc),
                                                            p.cond_text()))
            kinds['type'] = False
            continue
        sc = p.heap.get((exc, 'status_code'))
        if sc is None or not is_status(sc, res):
            if kinds['status']:
                report.violation(R, 'errmap:status-code', fi.path, site,
                                 fi.qualname, 'the error does not carry the '
                                 'HTTP status code on the path [%s] (it '
                                 'carries %s)' % (p.cond_text(),
                                                  show(sc) if sc else None))
            kinds['status'] = False
        # the reply body and the two membership tests
        body = None
        has = {}
        for a, pol, _ in p.conds:
            if a[0] == 'op' and a[1] == 'in' and is_const(a[2][0]) and \
                    a[2][0][1] in ('error', 'errorMessage'):
                j = a[2][1]
                if j[0] == 'call' and j[1] == ('attr', res, 'json'):
                    body = j
                    has[a[2][0][1]] = pol
        wf = has.get('error') is True and has.get('errorMessage') is True
        got = {}
        for f, key in fields.items():
            v = p.heap.get((exc, f))
            if v is None or v == ('const', None):
                continue
            k = None
            if v[0] == 'op' and v[1] == 'index' and is_const(v[2][1]) and \
                    body is not None and struct(v[2][0]) == struct(body):
                k = v[2][1][1]
            elif v[0] == 'call' and v[1][0] == 'attr' and \
                    v[1][2] == 'get' and v[2] and is_const(v[2][0]) and \
                    body is not None and struct(v[1][1]) == struct(body):
                k = v[2][0][1]
            got[f] = k if k is not None else show(v)
        msg = p.heap.get((exc, 'args'))
        text = ''.join(x[1] for x in pathsum.subterms(msg)
                       if is_const(x) and isinstance(x[1], str)) \
            if msg is not None else ''
        if wf:
            well += 1
            if got != fields:
                report.violation(R, 'errmap:fields', fi.path, site,
                                 fi.qualname, 'the service\'s error fields '
                                 'are mapped as %s; documented %s'
                                 % (got, fields))
        else:
            mal += 1
            if got:
                report.violation(R, 'errmap:malformed-fields', fi.path, site,
                                 fi.qualname, 'service fields %s are set '
                                 'although the body is not an error object '
                                 '(path [%s]): a body counts as an error '
                                 'object only when "error" and '
                                 '"errorMessage" are both present'
                                 % (sorted(got), p.cond_text()))
            elif 'alformed' not in text:
                report.violation(R, 'errmap:malformed-message', fi.path,
                                 site, fi.qualname, 'a non-error body does '
                                 'not produce a "malformed" message (path '
                                 '[%s])' % p.cond_text())
    # what the service sent is data: it is put into the message, never used
    # as the format string of a later formatting step
    fmt_bad = None
    for p in raising:
        for t0 in [v for k, v in p.heap.items()] + [p.outcome[1]]:
            if not isinstance(t0, tuple):
                continue
            for t in pathsum.subterms(t0):
                if t[0] == 'op' and t[1] in ('%', 'fmt%', 'format') and \
                        len(t[2]) >= 1 and not is_const(t[2][0]) and any(
                            x == res for x in pathsum.subterms(t[2][0])):
                    fmt_bad = (p, t)
    if fmt_bad:
        p, t = fmt_bad
        report.violation(R, 'errmap:reply-as-format', fi.path,
                         p.outcome[2] if len(p.outcome) > 2 else fi.node,
                         fi.qualname, 'text taken from the reply is part of '
                         'a format string (%s): a `%%` in the service\'s '
                         'message or in a non-JSON body makes the '
                         'formatting raise TypeError / ValueError instead '
                         'of the YggdrasilError' % show(t[2][0])[:90])
    else:
        report.ok(R, 'the reply\'s text is only ever a formatting argument')
    if kinds['type']:
        report.ok(R, 'raises a YggdrasilError on %d path(s)' % len(raising))
    if kinds['status']:
        report.ok(R, 'status_code stored on every raising path')
    if well and mal:
        report.ok(R, 'well-formed = has error and errorMessage (%d path(s) '
                  'copy error / errorMessage / cause; %d malformed path(s) '
                  'set a "Malformed error message" text and no fields)'
                  % (well, mal))
    else:
        report.violation(R, 'errmap:wellformed-test', fi.path, fi.node,
                         fi.qualname, 'a body counts as an error object '
                         'under a different test than "error" and '
                         '"errorMessage" both present (%d well-formed, %d '
                         'malformed paths)' % (well, mal))


# ---------------------------------------------------------------------------
def results(report, db, S, tok):
    R = report.rule('R19.5', 'validate is true only for 204; invalidate '
                    'and join raise for anything but 204; sign_out checks '
                    'the reply; join refuses without contacting the '
                    'service when not authenticated')
    fi, paths = S.op('validate')
    okv = False
    bad = None
    for p in paths:
        reqs = S.requests(p)
        if not p.returns:
            continue
        v = p.value
        truthy = not (is_const(v) and not v[1])
        c = status_cond(p, reqs[0].res, C204) if reqs else None
        if truthy and c is not True:
            bad = p
        if truthy and c is True and v == ('const', True):
            okv = True
    if okv and bad is None:
        report.ok(R, 'validate: True only under status 204')
    else:
        report.violation(R, 'validate:true', fi.path, fi.node, fi.qualname,
                         'validate can report a token as valid without a '
                         '204 reply%s' % (' [%s]' % bad.cond_text()
                                          if bad else ''))
    for op in ('invalidate', 'join'):
        fi, paths = S.op(op)
        good = False
        badp = None
        for p in paths:
            reqs = S.requests(p)
            if not reqs:
                continue
            c = status_cond(p, reqs[0].res, C204)
            chk = [e for e in S.checks(p) if e.args and struct(e.args[0])
                   == struct(reqs[0].res)]
            if p.returns and c is not True and not chk:
                badp = p
            if c is False and chk:
                good = True
            if c is None and chk:
                good = True
        if good and badp is None:
            report.ok(R, '%s: anything but 204 goes through the error '
                      'mapper' % op)
        else:
            report.violation(R, '%s:check' % op, fi.path, fi.node,
                             fi.qualname, '%s does not raise for every '
                             'non-204 reply%s' % (op, ' [%s]' %
                                                  badp.cond_text()
                                                  if badp else ''))
    fi, paths = S.op('sign_out')
    badp = [p for p in paths if p.returns and not any(
        e.args and S.requests(p) and struct(e.args[0]) == struct(
            S.requests(p)[0].res) for e in S.checks(p))]
    if paths and not badp:
        report.ok(R, 'sign_out passes its reply through the error mapper')
    else:
        report.violation(R, 'sign_out:check', fi.path, fi.node, fi.qualname,
                         'sign_out ignores error replies')
    fi, paths = S.op('join')
    me = fi.all_params[0]
    auth = ('op', 'truth', (('attr', ('sym', me), 'authenticated'),))
    okj = True
    why = ''
    refused = 0
    for p in paths:
        a = None
        for c, pol, _ in p.conds:
            if c == auth:
                a = pol
        reqs = S.requests(p)
        if reqs and a is not True:
            okj, why = False, 'a request is made when [%s]' % p.cond_text()
        if a is False:
            refused += 1
            if not p.raises:
                okj, why = False, 'no error when not authenticated'
    if okj and refused:
        report.ok(R, 'join: the request is behind the authenticated guard, '
                  'whose failing arm raises')
    else:
        report.violation(R, 'join:guard', fi.path, fi.node, fi.qualname,
                         'join can contact the session service with an '
                         'unauthenticated token (%s)' % (
                             why or 'the guard is not consulted'))
