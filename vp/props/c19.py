"""C19 -- auth token state follows the Yggdrasil replies; errors leave it
untouched.  Folding of `authenticated` over all truthiness combinations,
request-shape agreement with reference/yggdrasil.json, dominance of stores
by the error check, error-mapping paths."""
import ast
import itertools
import json
import os

from ..common import AnalysisError, VERIF, rel
from ..callgraph import CallGraph
from ..cfg import cfg_of
from ..fold import (Folder, Instance, Opaque, FuncVal, Env, FoldRaise,
                    ClassVal)
from .. import boolfn

AUTH = 'minecraft.authentication'


def run(report, db, tier):
    ref = json.load(open(os.path.join(VERIF, 'reference', 'yggdrasil.json')))
    report.explanation = (
        '`authenticated` and Profile.__bool__ are folded over every '
        'truthiness combination; every operation\'s request (server, '
        'endpoint, payload keys and sources) is extracted from the AST and '
        'compared with the reference table; stores to the token are checked '
        'to be dominated by the raise-on-error call; the error mapper is '
        'checked path by path.')
    cg = CallGraph(db)
    mod = db.modules.get(AUTH)
    if mod is None:
        raise AnalysisError('anchor module vanished: %s' % AUTH)
    tok = db.get_class(AUTH, 'AuthenticationToken')
    prof = db.get_class(AUTH, 'Profile')
    F = Folder(db)
    predicate(report, db, F, tok, prof)
    requests_shape(report, db, F, cg, mod, tok, ref)
    stores(report, db, cg, tok, ref)
    error_mapping(report, db, cg, mod)
    results(report, db, cg, tok)


# ---------------------------------------------------------------------------
def predicate(report, db, F, tok, prof):
    R = report.rule('R19.1', '`authenticated` is the conjunction of '
                    'username, access token, client token and a complete '
                    'profile; a profile is complete iff id and name are '
                    'set')
    pb = db.own_method(prof, '__bool__')
    au = db.own_method(tok, 'authenticated')
    if pb is None or au is None:
        raise AnalysisError('Profile.__bool__ / authenticated vanished')
    bad = None
    n = 0
    for i, nm in itertools.product((None, '', 'x'), repeat=2):
        n += 1
        p = Instance(prof, {'id_': i, 'name': nm})
        got = F.call_func(FuncVal(pb, bound=p), [], {}, pb.node,
                          Env(pb.module))
        want = i is not None and nm is not None
        if bool(got) is not want or not isinstance(got, bool):
            bad = (i, nm, got)
    if bad:
        report.violation(R, 'profile-bool', pb.path, pb.node, pb.qualname,
                         'Profile(id_=%r, name=%r) is %r' % bad)
    else:
        report.ok(R, 'Profile truth = id_ is not None and name is not None '
                  '(%d combinations)' % n)
    bad = None
    n = 0
    vals = (None, '', 'v')
    for u, a, c in itertools.product(vals, repeat=3):
        for pi, pn in ((None, None), ('i', None), (None, 'n'), ('i', 'n')):
            n += 1
            t = Instance(tok, {'username': u, 'access_token': a,
                               'client_token': c,
                               'profile': Instance(prof, {'id_': pi,
                                                          'name': pn})})
            F.memo.clear()
            got = F.call_func(FuncVal(au, bound=t), [], {}, au.node,
                              Env(au.module))
            want = bool(u) and bool(a) and bool(c) and pi is not None and \
                pn is not None
            if got is not want:
                bad = (u, a, c, pi, pn, got)
    if bad:
        report.violation(R, 'authenticated', au.path, au.node, au.qualname,
                         'authenticated folds to %r for username=%r '
                         'access_token=%r client_token=%r profile=(%r, %r)'
                         % (bad[5], bad[0], bad[1], bad[2], bad[3], bad[4]))
    else:
        report.ok(R, 'authenticated = conjunction over %d combinations' % n)


# ---------------------------------------------------------------------------
def src_text(e, fi):
    """Normalised description of where a payload value comes from."""
    t = ast.unparse(e)
    me = fi.params[0] if fi.kind == 'instance' and fi.params else None
    if isinstance(e, ast.Name) and e.id in fi.params:
        return 'param:%s' % e.id
    if me and t.startswith(me + '.'):
        return 'self.' + t[len(me) + 1:]
    return t


def requests_shape(report, db, F, cg, mod, tok, ref):
    R = report.rule('R19.2', 'each operation posts the documented payload '
                    'to the documented endpoint; _make_request posts JSON '
                    'to server + "/" + endpoint')
    mk = db.get_func(AUTH, '_make_request')
    servers = {}
    for k, name in (('auth', 'AUTH_SERVER'), ('session', 'SESSION_SERVER')):
        servers[name] = F.module_global(mod, name)
        if servers[name] == ref['servers'][k]:
            report.ok(R, '%s = %s' % (name, servers[name]))
        else:
            report.violation(R, 'server:%s' % name, mod.path, None, None,
                             '%s is %r, documented %r' % (name, servers[name],
                                                          ref['servers'][k]))
    n = 0
    for op, spec in sorted(ref['operations'].items()):
        fi = db.own_method(tok, op)
        if fi is None:
            raise AnalysisError('AuthenticationToken.%s vanished' % op)
        calls = [c for c in ast.walk(fi.node) if isinstance(c, ast.Call)
                 and ast.unparse(c.func) == '_make_request']
        if len(calls) != 1:
            report.violation(R, 'request:count:%s' % op, fi.path, fi.node,
                             fi.qualname, '%s performs %d requests'
                             % (op, len(calls)))
            continue
        n += 1
        c = calls[0]
        if len(c.args) != 3:
            raise AnalysisError('_make_request call shape', c, rel(fi.path))
        sname = ast.unparse(c.args[0])
        want_s = 'AUTH_SERVER' if spec['server'] == 'auth' \
            else 'SESSION_SERVER'
        ep = c.args[1].value if isinstance(c.args[1], ast.Constant) else None
        probs = []
        if sname != want_s:
            probs.append('server %s (documented: %s)' % (sname, want_s))
        if ep != spec['endpoint']:
            probs.append('endpoint %r (documented: %r)' % (ep,
                                                           spec['endpoint']))
        payload = c.args[2]
        if isinstance(payload, ast.Name):
            pv = payload.id
            d = None
            extra = {}
            for x in ast.walk(fi.node):
                if isinstance(x, ast.Assign) and isinstance(
                        x.targets[0], ast.Name) and x.targets[0].id == pv:
                    d = x.value
                if isinstance(x, ast.Assign) and isinstance(
                        x.targets[0], ast.Subscript) and \
                        ast.unparse(x.targets[0].value) == pv and \
                        isinstance(x.targets[0].slice, ast.Constant):
                    extra[x.targets[0].slice.value] = x
            payload = d
        else:
            extra = {}
        if not isinstance(payload, ast.Dict):
            raise AnalysisError('payload of %s is not a dict display' % op,
                                c, rel(fi.path))
        got = {}
        for k, v in zip(payload.keys, payload.values):
            key = k.value if isinstance(k, ast.Constant) else ast.unparse(k)
            if isinstance(v, ast.Dict):
                sub = {}
                for kk, vv in zip(v.keys, v.values):
                    try:
                        sub[kk.value] = F.eval(vv, Env(fi.module,
                                                       cls=tok)) \
                            if not (isinstance(vv, ast.Attribute)
                                    and isinstance(vv.value, ast.Name)
                                    and vv.value.id == fi.params[0]) \
                            else F.getattr(ClassVal(tok), vv.attr, vv,
                                           fi.module)
                    except (AnalysisError, FoldRaise):
                        sub[kk.value] = ast.unparse(vv)
                got[key] = sub
            else:
                got[key] = src_text(v, fi)
        want = dict(spec['payload'])
        if got != want:
            probs.append('payload %s (documented: %s)' % (got, want))
        opt = spec.get('optional', {})
        for k in extra:
            if k not in opt:
                probs.append('undocumented optional key %r' % k)
        for k in opt:
            if k not in extra:
                probs.append('optional key %r is never sent' % k)
        if probs:
            report.violation(R, 'request:%s' % op, fi.path, c, fi.qualname,
                             '%s posts %s' % (op, '; '.join(probs)))
        else:
            report.ok(R, '%s -> %s/%s %s' % (op, want_s, ep, sorted(got)))
    report.floor('operations with one request', n, 6)
    # authenticate: clientToken only unless invalidate_previous
    fi = db.own_method(tok, 'authenticate')
    g = cfg_of(fi)
    for nn in g.reachable_nodes():
        if isinstance(nn.ast, ast.Assign) and isinstance(
                nn.ast.targets[0], ast.Subscript) and \
                'clientToken' in ast.unparse(nn.ast.targets[0]):
            conds = [(ast.unparse(e), t) for e, t in
                     boolfn.path_conditions(g, nn)]
            v = ast.unparse(nn.ast.value)
            if conds == [('not invalidate_previous', True)] and \
                    v.startswith('%s.client_token or ' % fi.params[0]):
                report.ok(R, 'clientToken = self.client_token or a fresh '
                          'one, unless invalidate_previous')
            else:
                report.violation(R, 'request:clientToken', fi.path, nn.ast,
                                 fi.qualname, 'clientToken is %s under %s'
                                 % (v, conds))
    # _make_request
    posts = [c for c in ast.walk(mk.node) if isinstance(c, ast.Call)
             and ast.unparse(c.func) == 'requests.post']
    okk = False
    if len(posts) == 1:
        c = posts[0]
        url = ast.unparse(c.args[0]) if c.args else None
        kw = {k.arg: ast.unparse(k.value) for k in c.keywords}
        p = mk.params
        okk = url in ("%s + '/' + %s" % (p[0], p[1]),) and \
            kw.get('data') == 'json.dumps(%s)' % p[2] and \
            kw.get('headers') == 'HEADERS'
    hdr = F.module_global(mod, 'HEADERS')
    if okk and isinstance(hdr, dict) and {k.lower(): v for k, v in
                                          hdr.items()}.get(
            'content-type') == ref['content_type']:
        report.ok(R, '_make_request: requests.post(server + "/" + '
                  'endpoint, data=json.dumps(data), JSON content type)')
    else:
        report.violation(R, 'request:transport', mk.path, mk.node,
                         mk.qualname, '_make_request does not post '
                         'json.dumps(data) with the JSON content type to '
                         'server + "/" + endpoint')


# ---------------------------------------------------------------------------
def token_stores(fi):
    me = fi.params[0]
    out = []
    for x in ast.walk(fi.node):
        if isinstance(x, ast.Attribute) and isinstance(x.ctx, ast.Store):
            t = ast.unparse(x)
            if t.startswith(me + '.'):
                out.append((t[len(me) + 1:], x))
    return out


def stores(report, db, cg, tok, ref):
    R = report.rule('R19.3', 'errors leave the token untouched: every '
                    'store in authenticate/refresh is dominated by the '
                    'raise-on-error call and stores exactly the returned '
                    'values; other operations store nothing')
    rf = db.get_func(AUTH, '_raise_from_response')
    for op in ('authenticate', 'refresh'):
        fi = db.own_method(tok, op)
        g = cfg_of(fi)
        checks = [n for n in g.reachable_nodes() if n.ast is not None and any(
            any(m is rf for m, _, _ in cg.callee_funcs(fi, c))
            for c in n.calls())]
        if not checks:
            report.violation(R, 'stores:no-check:%s' % op, fi.path, fi.node,
                             fi.qualname, '%s never checks the reply for an '
                             'error' % op)
            continue
        st = token_stores(fi)
        got = {}
        bad = False
        par = {}
        for n in ast.walk(fi.node):
            for ch in ast.iter_child_nodes(n):
                par[id(ch)] = n
        for name, x in st:
            asn = par.get(id(x))
            while asn is not None and not isinstance(asn, ast.Assign):
                asn = par.get(id(asn))
            nodes = g.nodes_for(asn) if asn is not None else []
            if not nodes or not all(any(g.dominates(c, n) for c in checks)
                                    for n in nodes):
                bad = True
                report.violation(R, 'stores:early:%s:%s' % (op, name),
                                 fi.path, x, fi.qualname, 'self.%s is '
                                 'overwritten before the reply is known to '
                                 'be a success: a failed %s corrupts the '
                                 'stored credentials' % (name, op))
            if asn is not None:
                got[name] = ast.unparse(asn.value)
        want = ref['stored_on_success'][op]
        norm = {}
        for k, v in got.items():
            if v.startswith('json_resp['):
                keys = [p.strip("'\"") for p in v.replace(
                    'json_resp', '').strip('[]').split('][')]
                norm[k] = '.'.join(keys)
            elif v in fi.params:
                norm[k] = 'param:%s' % v
            else:
                norm[k] = v
        if norm == want and not bad:
            report.ok(R, '%s stores %s after the error check' % (op,
                                                                 sorted(norm)))
        elif norm != want:
            report.violation(R, 'stores:values:%s' % op, fi.path, fi.node,
                             fi.qualname, '%s stores %s; documented: %s'
                             % (op, norm, want))
        # json_resp comes from the same reply
        js = [x for x in ast.walk(fi.node) if isinstance(x, ast.Assign)
              and isinstance(x.targets[0], ast.Name)
              and x.targets[0].id == 'json_resp']
        if not (len(js) == 1 and ast.unparse(js[0].value) == 'res.json()'):
            report.violation(R, 'stores:source:%s' % op, fi.path, fi.node,
                             fi.qualname, 'the stored values are not taken '
                             'from the reply\'s JSON body')
    for op in ('validate', 'sign_out', 'invalidate', 'join'):
        fi = db.own_method(tok, op)
        if fi.kind == 'static':
            report.ok(R, '%s is static: cannot touch the token' % op)
            continue
        st = token_stores(fi)
        if st:
            report.violation(R, 'stores:unexpected:%s' % op, fi.path,
                             st[0][1], fi.qualname, '%s alters self.%s'
                             % (op, st[0][0]))
        else:
            report.ok(R, '%s stores nothing on the token' % op)


# ---------------------------------------------------------------------------
def error_mapping(report, db, cg, mod):
    R = report.rule('R19.4', '_raise_from_response returns only for an OK '
                    'reply; every other path raises a YggdrasilError with '
                    'the status code; service fields only for a well-formed '
                    'error body, else a "malformed" message')
    fi = db.get_func(AUTH, '_raise_from_response')
    g = cfg_of(fi)
    live = g.reachable_nodes()
    res = fi.params[0]
    rets = [n for n in live if isinstance(n.ast, ast.Return)]
    okref = ast.parse("%s.status_code == requests.codes['ok']" % res,
                      mode='eval').body
    okref2 = ast.parse("%s.status_code == 200" % res, mode='eval').body
    good = True
    for r in rets:
        conds = boolfn.path_conditions(g, r)
        e = conds[0][0] if len(conds) == 1 and conds[0][1] else None
        if e is None or not (boolfn.same_function(e, okref) or
                             boolfn.same_function(e, okref2)):
            good = False
            report.violation(R, 'errmap:return', fi.path, r.ast, fi.qualname,
                             'returns normally when [%s]: only a 200 reply '
                             'is a success here' % ' and '.join(
                                 ('' if t else 'not ') + ast.unparse(x)
                                 for x, t in conds))
    if g.exit in live and any(
            p is not None for p in [g.exists_path(
                g.entry, lambda n: n is g.exit,
                avoid=lambda n: n in rets)]):
        good = False
        report.violation(R, 'errmap:falls-off', fi.path, fi.node,
                         fi.qualname, 'a path falls off the end without '
                         'raising')
    if good and rets:
        report.ok(R, 'normal return only for status 200')
    rz = [n for n in live if isinstance(n.ast, ast.Raise)
          and n.ast.exc is not None]
    assigned = set(x.targets[0].id for x in ast.walk(fi.node)
                   if isinstance(x, ast.Assign)
                   and isinstance(x.targets[0], ast.Name))
    final = sorted((n for n in rz if isinstance(n.ast.exc, ast.Name)
                    and n.ast.exc.id in assigned), key=lambda n: n.id)
    if not final:
        report.violation(R, 'errmap:no-raise', fi.path, fi.node, fi.qualname,
                         'no exception object is raised')
        return
    exc = final[0].ast.exc.id
    mk = [n for n in live if isinstance(n.ast, ast.Assign) and isinstance(
        n.ast.targets[0], ast.Name) and n.ast.targets[0].id == exc]
    if mk and 'YggdrasilError' in ast.unparse(mk[0].ast.value):
        report.ok(R, 'raises a YggdrasilError')
    else:
        report.violation(R, 'errmap:type', fi.path, final[0].ast,
                         fi.qualname, 'the raised object is not a '
                         'YggdrasilError')
    sc = [n for n in live if isinstance(n.ast, ast.Assign) and
          ast.unparse(n.ast.targets[0]) == '%s.status_code' % exc and
          ast.unparse(n.ast.value) == '%s.status_code' % res]
    if sc and all(any(g.dominates(s, r) for s in sc) for r in final):
        report.ok(R, 'status_code stored before the raise')
    else:
        report.violation(R, 'errmap:status-code', fi.path, final[0].ast,
                         fi.qualname, 'the error does not carry the HTTP '
                         'status code on every path')
    # yggdrasil fields only on the well-formed arm; malformed arm sets a
    # message
    tries = [n for n in ast.walk(fi.node) if isinstance(n, ast.Try)]
    if len(tries) != 1 or not tries[0].orelse:
        raise AnalysisError('_raise_from_response: try/except/else shape '
                            'not recognised', fi.node, rel(fi.path))
    t = tries[0]
    well = ast.unparse(ast.Module(body=t.orelse, type_ignores=[]))
    mal = ast.unparse(ast.Module(body=[s for h in t.handlers
                                       for s in h.body], type_ignores=[]))
    want_fields = {'yggdrasil_error': 'error',
                   'yggdrasil_message': 'errorMessage',
                   'yggdrasil_cause': 'cause'}
    got = {}
    for s in t.orelse:
        for x in ast.walk(s):
            if isinstance(x, ast.Assign) and isinstance(
                    x.targets[0], ast.Attribute) and \
                    x.targets[0].attr in want_fields:
                v = ast.unparse(x.value)
                for key in ('error', 'errorMessage', 'cause'):
                    if v in ("json_resp['%s']" % key,
                             "json_resp.get('%s')" % key):
                        got[x.targets[0].attr] = key
    if got == want_fields:
        report.ok(R, 'well-formed arm copies error / errorMessage / cause')
    else:
        report.violation(R, 'errmap:fields', fi.path, t, fi.qualname,
                         'the service\'s error fields are mapped as %s; '
                         'documented %s' % (got, want_fields))
    if any(f in mal for f in want_fields):
        report.violation(R, 'errmap:malformed-fields', fi.path, t,
                         fi.qualname, 'service fields are set although the '
                         'body is not an error object')
    elif 'alformed' in mal and '.args' in mal:
        report.ok(R, 'malformed arm sets a "Malformed error message" text')
    else:
        report.violation(R, 'errmap:malformed-message', fi.path, t,
                         fi.qualname, 'a non-error body does not produce a '
                         '"malformed" message')
    # what counts as well-formed: both error and errorMessage present
    guard = [x for s in t.body for x in ast.walk(s) if isinstance(x, ast.If)]
    ref = ast.parse("not ('error' in json_resp and 'errorMessage' in "
                    "json_resp)", mode='eval').body
    if guard and boolfn.same_function(guard[0].test, ref) and any(
            isinstance(b, ast.Raise) for b in guard[0].body):
        report.ok(R, 'well-formed = has error and errorMessage')
    else:
        report.violation(R, 'errmap:wellformed-test', fi.path, t,
                         fi.qualname, 'a body counts as an error object '
                         'under a different test than "error" and '
                         '"errorMessage" both present')


# ---------------------------------------------------------------------------
def results(report, db, cg, tok):
    R = report.rule('R19.5', 'validate is true only for 204; invalidate '
                    'and join raise for anything but 204; sign_out checks '
                    'the reply; join refuses without contacting the '
                    'service when not authenticated')
    rf = db.get_func(AUTH, '_raise_from_response')
    fi = db.own_method(tok, 'validate')
    g = cfg_of(fi)
    rt = [n for n in g.reachable_nodes() if isinstance(n.ast, ast.Return)
          and isinstance(n.ast.value, ast.Constant)
          and n.ast.value.value is True]
    okv = bool(rt)
    for r in rt:
        conds = [(ast.unparse(e), t) for e, t in boolfn.path_conditions(g, r)
                 if 'status_code' in ast.unparse(e)]
        if conds != [('res.status_code == 204', True)]:
            okv = False
    if okv:
        report.ok(R, 'validate: True only under status 204')
    else:
        report.violation(R, 'validate:true', fi.path, fi.node, fi.qualname,
                         'validate can report a token as valid without a '
                         '204 reply')
    for op in ('invalidate', 'join'):
        fi = db.own_method(tok, op)
        g = cfg_of(fi)
        rt = [n for n in g.reachable_nodes()
              if isinstance(n.ast, ast.Return)]
        chk = [n for n in g.reachable_nodes() if n.ast is not None and any(
            any(m is rf for m, _, _ in cg.callee_funcs(fi, c))
            for c in n.calls())]
        good = bool(chk)
        for c in chk:
            conds = [(ast.unparse(e), t) for e, t in
                     boolfn.path_conditions(g, c)
                     if 'status_code' in ast.unparse(e)]
            if conds not in ([('res.status_code != 204', True)],
                             [('res.status_code == 204', False)]):
                good = False
        # success return not reachable on non-204 without the check
        if good:
            report.ok(R, '%s: anything but 204 goes through the error '
                      'mapper' % op)
        else:
            report.violation(R, '%s:check' % op, fi.path, fi.node,
                             fi.qualname, '%s does not raise for every '
                             'non-204 reply' % op)
    fi = db.own_method(tok, 'sign_out')
    calls = [c for c in ast.walk(fi.node) if isinstance(c, ast.Call)
             and ast.unparse(c.func) == '_raise_from_response']
    if calls:
        report.ok(R, 'sign_out passes its reply through the error mapper')
    else:
        report.violation(R, 'sign_out:check', fi.path, fi.node, fi.qualname,
                         'sign_out ignores error replies')
    fi = db.own_method(tok, 'join')
    g = cfg_of(fi)
    req = [n for n in g.reachable_nodes() if n.ast is not None and any(
        ast.unparse(c.func) == '_make_request' for c in n.calls())]
    guard = [n for n in g.reachable_nodes() if n.kind == 'test'
             and 'authenticated' in ast.unparse(n.ast)]
    okj = False
    if req and guard:
        t = guard[0]
        neg = isinstance(t.ast, ast.UnaryOp)
        lab = 'true' if neg else 'false'
        outs = [s for s, l in t.succ if l == lab]
        raising = outs and all(
            g.exists_path(s, lambda n: n is g.exit) is None
            and not isinstance(s.ast, ast.Return) or
            isinstance(s.ast, ast.Raise) for s in outs) and all(
                g.exists_path(t, lambda n: n in req,
                              start_labels=(lab,)) is None for _ in [0])
        okj = g.dominates(t, req[0]) and raising
    if okj:
        report.ok(R, 'join: the request is behind the authenticated guard, '
                  'whose failing arm raises')
    else:
        report.violation(R, 'join:guard', fi.path, fi.node, fi.qualname,
                         'join can contact the session service with an '
                         'unauthenticated token')
