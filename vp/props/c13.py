"""C13 -- listeners fire in documented order, once each; ignore stops later
stages.  Registration is folded over the four (early, outgoing)
combinations and tied to the lists the dispatchers iterate; dispatch order
and handler scope are decided on the CFGs of _react / _write_packet."""
import ast

from ..common import AnalysisError, rel
from ..callgraph import CallGraph
from ..connmodel import ConnModel, CONN
from ..cfg import cfg_of
from ..fold import Folder, Instance, Opaque, FuncVal, Env, FoldRaise

LISTENER = 'minecraft.networking.packets.packet_listener'


def run(report, db, tier):
    report.explanation = (
        'The list chosen by register_packet_listener is computed by folding '
        'the function for all four flag combinations and compared with the '
        'lists that _react / _write_packet iterate (no reliance on names); '
        'the order early loop -> reaction/write -> ordinary loop and the '
        'scope of the IgnorePacket handler are CFG dominance facts.')
    cg = CallGraph(db)
    M = ConnModel(db, cg)
    disp = dispatch_lists(report, db, cg, M)
    registration(report, db, cg, M, disp)
    call_packet(report, db, cg)


# ---------------------------------------------------------------------------
def loops_and_stage(report, R, db, cg, M, fi, is_stage, what):
    """In fi: (list attr of first loop, list attr of second loop) around the
    stage call; reports order / handler-scope violations."""
    g = cfg_of(fi)
    live = g.reachable_nodes()
    me = fi.params[0]
    pk = fi.params[1]
    fors = [n for n in live if n.kind == 'for']
    stage = [n for n in live if n.ast is not None and n.kind != 'for'
             and any(is_stage(c) for c in n.calls())]
    if not stage:
        report.violation(R, '%s:no-stage' % fi.name, fi.path, fi.node,
                         fi.qualname, 'the %s is never performed' % what)
        return None
    loops = []
    for h in fors:
        it = h.ast.iter
        if not (isinstance(it, ast.Attribute) and isinstance(it.value,
                                                             ast.Name)
                and it.value.id == me):
            report.violation(R, '%s:loop-iter:%d' % (fi.name, h.lineno),
                             fi.path, h.ast, fi.qualname,
                             'listener loop iterates %s, not a listener '
                             'list of the connection front to back'
                             % ast.unparse(it))
            continue
        body = [n for n in live if h.ast in n.loops]
        calls = [c for n in body for c in n.calls()]
        good = [c for c in calls if isinstance(c.func, ast.Attribute)
                and c.func.attr == 'call_packet'
                and isinstance(c.func.value, ast.Name)
                and isinstance(h.ast.target, ast.Name)
                and c.func.value.id == h.ast.target.id
                and len(c.args) == 1 and isinstance(c.args[0], ast.Name)
                and c.args[0].id == pk]
        if len(good) != 1 or len(calls) != 1:
            report.violation(R, '%s:loop-body:%d' % (fi.name, h.lineno),
                             fi.path, h.ast, fi.qualname,
                             'the loop body is not exactly one '
                             'listener.call_packet(packet)')
            continue
        loops.append((h, it.attr))
    before = [(h, a) for h, a in loops
              if all(g.dominates(h, s) for s in stage)
              and not any(g.exists_path(s, lambda x: x is h) for s in stage)]
    after = [(h, a) for h, a in loops
             if g.exists_path(g.entry, lambda x, h=h: x is h,
                              avoid=lambda x: x in stage) is None]
    if len(loops) != 2 or len(before) != 1 or len(after) != 1:
        report.violation(R, '%s:order' % fi.name, fi.path, fi.node,
                         fi.qualname, 'expected one listener loop before '
                         'and one after the %s; found %d before, %d after '
                         '(of %d loops)' % (what, len(before), len(after),
                                            len(loops)))
        return None
    report.ok(R, '%s: loop over %s, then %s, then loop over %s' % (
        fi.name, before[0][1], what, after[0][1]))
    # one handler for exactly IgnorePacket encloses all three stages
    nodes = [before[0][0], after[0][0]] + stage
    common = None
    for n in nodes:
        tr = [t for t in n.tries]
        common = set(tr) if common is None else common & set(tr)
    good = []
    for t in common or ():
        if len(t.handlers) == 1 and t.handlers[0].type is not None and \
                ast.unparse(t.handlers[0].type).split('.')[-1] == \
                'IgnorePacket' and not t.finalbody and not t.orelse:
            hb = t.handlers[0].body
            if all(isinstance(s, ast.Pass) or (
                    isinstance(s, ast.Expr) and isinstance(s.value,
                                                           ast.Constant))
                   for s in hb):
                good.append(t)
    if good:
        report.ok(R, '%s: one `except IgnorePacket: pass` encloses all '
                  'three stages' % fi.name)
    else:
        report.violation(R, '%s:ignore-scope' % fi.name, fi.path, fi.node,
                         fi.qualname, 'the three stages are not enclosed by '
                         'one handler for exactly IgnorePacket that does '
                         'nothing else: an ignore does not stop the later '
                         'stages (or stops more than this packet)')
    # nothing else catches inside (a broader handler would swallow errors)
    for n in nodes:
        for t in n.tries:
            if t not in good:
                report.violation(R, '%s:extra-handler:%d' % (fi.name,
                                                             t.lineno),
                                 fi.path, t, fi.qualname, 'an additional '
                                 'try/except inside the dispatch changes '
                                 'which stages an exception skips')
    return before[0][1], after[0][1]


def dispatch_lists(report, db, cg, M):
    R2 = report.rule('R13.2', 'incoming: early listeners, then the built-in '
                     'reaction, then ordinary listeners, in one '
                     'IgnorePacket-only handler')
    R3 = report.rule('R13.3', 'outgoing: early outgoing listeners, then the '
                     'write, then outgoing listeners, in one '
                     'IgnorePacket-only handler')
    react = M.conn_method('_react')
    wp = M.conn_method('_write_packet')

    def is_react(c):
        return isinstance(c.func, ast.Attribute) and c.func.attr == 'react' \
            and any(m.name == 'react' for m, _, _ in
                    cg.callee_funcs(react, c))

    def is_write(c):
        return isinstance(c.func, ast.Attribute) and c.func.attr == 'write' \
            and any(m.name == 'write' and m.cls is not None
                    and m.cls.name == 'Packet'
                    for m, _, _ in cg.callee_funcs(wp, c))
    a = loops_and_stage(report, R2, db, cg, M, react, is_react,
                        'built-in reaction')
    b = loops_and_stage(report, R3, db, cg, M, wp, is_write, 'write')
    # the reaction is applied to the same packet, through the reactor in
    # force *now* (read from the connection at dispatch time)
    g = cfg_of(react)
    for n in g.reachable_nodes():
        for c in (n.calls() if n.ast is not None else []):
            if is_react(c):
                okk = ast.unparse(c.func.value) == '%s.reactor' % \
                    react.params[0] and len(c.args) == 1 and \
                    ast.unparse(c.args[0]) == react.params[1]
                if okk:
                    report.ok(R2, 'self.reactor.react(packet)')
                else:
                    report.violation(R2, '_react:stage-call', react.path, c,
                                     react.qualname, 'the reaction is not '
                                     'self.reactor.react(packet)')
    return dict(incoming=a, outgoing=b)


# ---------------------------------------------------------------------------
def registration(report, db, cg, M, disp):
    R = report.rule('R13.1', 'registration: (early, outgoing) selects the '
                    'list the matching dispatch stage iterates; insertion '
                    'appends; the four lists are created once')
    reg = M.conn_method('register_packet_listener')
    init = M.conn_method('__init__')
    me = init.params[0]
    lists = []
    for n in ast.walk(init.node):
        if isinstance(n, ast.Assign) and isinstance(n.value, ast.List) and \
                not n.value.elts:
            for t in n.targets:
                if isinstance(t, ast.Attribute) and isinstance(
                        t.value, ast.Name) and t.value.id == me:
                    lists.append(t.attr)
    want = {}
    if disp.get('incoming'):
        want[(True, False)], want[(False, False)] = disp['incoming']
    if disp.get('outgoing'):
        want[(True, True)], want[(False, True)] = disp['outgoing']
    F = Folder(db)
    for (early, outgoing), exp in sorted(want.items()):
        attrs = {a: ['<earlier listener>'] for a in lists}
        inst = Instance(M.conn, attrs)
        kw = {}
        if early:
            kw['early'] = True
        if outgoing:
            kw['outgoing'] = True
        try:
            F.call_func(FuncVal(reg, bound=inst), [Opaque('callback')], kw,
                        reg.node, Env(reg.module))
        except FoldRaise as e:
            report.violation(R, 'register:raises:%s,%s' % (early, outgoing),
                             reg.path, reg.node, reg.qualname,
                             'registration with early=%s outgoing=%s raises '
                             '%s' % (early, outgoing, e.exc_type))
            continue
        grown = [a for a in lists if len(attrs[a]) > 1]
        if grown != [exp]:
            report.violation(
                R, 'register:target:%s,%s' % (early, outgoing), reg.path,
                reg.node, reg.qualname, 'a listener registered with '
                'early=%s, outgoing=%s lands in %s but the %s stage '
                'iterates %s' % (early, outgoing, grown or 'no list',
                                 '%s %s' % ('early' if early else 'ordinary',
                                            'outgoing' if outgoing
                                            else 'incoming'), exp))
            continue
        if attrs[exp][0] != '<earlier listener>' or len(attrs[exp]) != 2:
            report.violation(R, 'register:position:%s,%s' % (early,
                                                             outgoing),
                             reg.path, reg.node, reg.qualname,
                             'the new listener is not appended after the '
                             'ones registered earlier')
            continue
        new = attrs[exp][1]
        if isinstance(new, Instance) and new.ci.name == 'PacketListener':
            report.ok(R, 'early=%s outgoing=%s -> append to %s' % (
                early, outgoing, exp))
        else:
            report.violation(R, 'register:element:%s,%s' % (early, outgoing),
                             reg.path, reg.node, reg.qualname,
                             'what is registered is not a PacketListener')
    if not report.violations:
        report.floor('flag combinations folded', len(want), 4)
    # lists are never replaced
    for fi in db.funcs:
        if fi is init:
            continue
        for n in cg.shallow(fi):
            if isinstance(n, ast.Attribute) and isinstance(n.ctx, ast.Store) \
                    and n.attr in want.values() and M.is_conn_expr(fi,
                                                                   n.value):
                report.violation(R, 'list-replaced:%s' % n.attr, fi.path, n,
                                 fi.qualname, 'the listener list %s is '
                                 'replaced outside __init__' % n.attr)


# ---------------------------------------------------------------------------
def call_packet(report, db, cg):
    R = report.rule('R13.4', 'filter: isinstance against the registered '
                    'types (so superclasses match); the callback runs at '
                    'most once per call')
    ci = db.get_class(LISTENER, 'PacketListener')
    fi = db.own_method(ci, 'call_packet')
    init = db.own_method(ci, '__init__')
    if fi is None or init is None:
        raise AnalysisError('PacketListener.call_packet/__init__ vanished')
    g = cfg_of(fi)
    live = g.reachable_nodes()
    me, pk = fi.params[0], fi.params[1]
    cbs = [n for n in live if n.ast is not None and any(
        ast.unparse(c.func) == '%s.callback' % me for c in n.calls())]
    if len(cbs) != 1:
        report.violation(R, 'call_packet:callback-sites', fi.path, fi.node,
                         fi.qualname, 'expected exactly one invocation of '
                         'the callback, found %d' % len(cbs))
        return
    cb = cbs[0]
    call = [c for c in cb.calls()
            if ast.unparse(c.func) == '%s.callback' % me][0]
    if [ast.unparse(a) for a in call.args] != [pk] or call.keywords:
        report.violation(R, 'call_packet:callback-args', fi.path, call,
                         fi.qualname, 'the callback is not called with the '
                         'packet')
    if g.exists_path(cb, lambda n: n is cb,
                     labels=('next', 'true', 'false', 'continue', 'break')):
        report.violation(R, 'call_packet:twice', fi.path, cb.ast,
                         fi.qualname, 'after invoking the callback the loop '
                         'continues: a packet matching two registered types '
                         '(a class and its superclass) is delivered twice')
    else:
        report.ok(R, 'callback invoked at most once per call')
    # guard: isinstance(packet, <loop var over self.packets_to_listen>)
    from .. import boolfn
    conds = boolfn.path_conditions(g, cb)
    okk = False
    for e, t in conds:
        if t and isinstance(e, ast.Call) and isinstance(e.func, ast.Name) \
                and e.func.id == 'isinstance' and len(e.args) == 2 and \
                ast.unparse(e.args[0]) == pk:
            okk = True
    fors = [n for n in live if n.kind == 'for']
    it_ok = len(fors) == 1 and ast.unparse(fors[0].ast.iter).startswith(
        '%s.' % me)
    if okk and it_ok:
        report.ok(R, 'callback guarded by isinstance(packet, type) for type '
                  'in %s' % ast.unparse(fors[0].ast.iter))
    else:
        report.violation(R, 'call_packet:filter', fi.path, fi.node,
                         fi.qualname, 'the callback is not guarded by '
                         'isinstance(packet, registered_type): subclasses '
                         'of a registered type would not match (or '
                         'everything would)')
    # __init__ keeps the registered types it is given
    attr = ast.unparse(fors[0].ast.iter).split('.', 1)[1] if fors else None
    stores = [n for n in ast.walk(init.node) if isinstance(n, ast.Call)
              and isinstance(n.func, ast.Attribute)
              and n.func.attr == 'append'
              and ast.unparse(n.func.value) == '%s.%s' % (init.params[0],
                                                          attr)]
    gi = cfg_of(init)
    extra = []
    for st in stores:
        par = {}
        for n in ast.walk(init.node):
            for ch in ast.iter_child_nodes(n):
                par[id(ch)] = n
        cur = st
        while cur is not None and not gi.nodes_for(cur):
            cur = par.get(id(cur))
        for node in gi.nodes_for(cur) if cur is not None else []:
            for e, t in boolfn.path_conditions(gi, node):
                u = ast.unparse(e)
                if not (u.startswith('issubclass(') and u.endswith(
                        ', Packet)') and t):
                    extra.append((u, t))
    if stores and extra:
        report.violation(R, 'listener:init-filter', init.path, init.node,
                         init.qualname, 'a packet type given at '
                         'registration is kept only when [%s]: a listener '
                         'registered for several types can lose one of '
                         'them' % ' and '.join(('' if t else 'not ') + u
                                               for u, t in extra))
    elif stores:
        report.ok(R, '__init__ appends each given packet type to %s' % attr)
    else:
        report.violation(R, 'listener:init', init.path, init.node,
                         init.qualname, 'the types given at registration '
                         'are not stored in the list call_packet iterates')
