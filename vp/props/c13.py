"""C13 -- listeners fire in documented order, once each; ignore stops later
stages.  Decided on the path summaries (vp.pathsum) of _react,
_write_packet, register_packet_listener and PacketListener: which list each
stage iterates, in which order the stages run, which exceptions end the
dispatch quietly, which list a registration lands in."""
import ast

from ..common import AnalysisError, rel
from ..callgraph import CallGraph
from ..connmodel import ConnModel, CONN
from .. import shared, pathsum
from ..pathsum import struct, show, is_const, subterms, path_terms

LISTENER = 'minecraft.networking.packets.packet_listener'


def sy(n):
    return ('sym', n)


def at(base, *names):
    for n in names:
        base = ('attr', base, n)
    return base


def run(report, db, tier):
    report.explanation = (
        'Every path of _react / _write_packet is summarised: the stage '
        'order (loop over a listener list, built-in reaction or write, loop '
        'over a second list) is read off the effects of the completed '
        'paths; what an exception in each stage does is read off the paths '
        'on which that call raised (caught as IgnorePacket -> the dispatch '
        'ends quietly; anything else propagates).  The list a registration '
        'lands in is read off the paths of register_packet_listener for '
        'the four flag combinations and compared with the lists the stages '
        'iterate (no reliance on names).')
    cg = CallGraph(db)
    M = ConnModel(db, cg)
    S = shared.summariser(db, cg)
    disp = dispatch_lists(report, db, S, M)
    registration(report, db, cg, S, M, disp)
    # "for every incoming packet": what was read reaches the dispatch
    from .c11 import no_drop
    no_drop(report, db, S, M, rule_id='R13.5')
    call_packet(report, db, S)
    R7 = report.rule('R13.7', 'only listeners signal "ignore": no built-in '
                     'reaction raises IgnorePacket (it would stop the '
                     'ordinary listeners of a packet nobody asked to ignore)')
    base = db.get_class(CONN, 'PacketReactor')
    nre = 0
    meths = []
    for rc in [base] + sorted(db.subclasses(base), key=lambda c: c.fq):
        for nm_ in sorted(rc.attrs):
            fi = db.own_method(rc, nm_)
            if fi is not None and not isinstance(fi.node, ast.Lambda) and \
                    fi.kind == 'instance' and nm_ != '__init__':
                meths.append((rc, fi))
    for rc, fi in meths:
        nre += 1
        hit = None
        for p_ in S.run(fi, exact_self=rc):
            if p_.raises and len(p_.outcome) == 3:
                x = p_.outcome[1]
                cls_ = x[1] if x[0] == 'call' else (
                    x[2] if x[0] == 'obj' else None)
                nm = None
                if x[0] == 'call' and x[1][0] in ('cls',):
                    nm = x[1][1].name
                elif x[0] == 'obj':
                    nm = x[3].name if x[3] is not None else str(x[2])
                elif x[0] == 'cls':
                    nm = x[1].name
                if nm is not None and nm.split('.')[-1] == 'IgnorePacket':
                    hit = p_
                    break
        if hit is not None:
            report.violation(
                R7, 'reaction:ignores:%s' % fi.qualname, fi.path,
                hit.outcome[2] if isinstance(hit.outcome[2], ast.AST)
                else fi.node, fi.qualname, '%s raises IgnorePacket [%s]: it '
                'runs as part of the built-in reaction, so the ordinary '
                'listeners registered for that packet do not run although '
                'no listener signalled ignore'
                % (fi.qualname, hit.cond_text()[:160]))
        else:
            report.ok(R7, '%s never raises IgnorePacket' % fi.qualname)
    report.floor('reactor methods', nre, 10)
    R6 = report.rule('R13.6', 'the decorator form registers like the direct '
                     'call, however often the decorator is applied: one '
                     'register_packet_listener(handler, *types, **options) '
                     'per application, captured options left intact')
    shared.decorator_form(report, R6, db, S, M, 'listener',
                          'register_packet_listener', ('outgoing', 'early'))


# ---------------------------------------------------------------------------
def listener_loop(e, me, pk):
    """list attribute when the loop event iterates self.<attr> front to back
    and each iteration is exactly one elem.call_packet(packet); else a
    problem text."""
    it = e.ctx
    if not (it[0] == 'attr' and struct(it[1]) == me):
        return None, 'listener loop iterates %s, not a listener list of ' \
            'the connection front to back' % show(it)
    for q in e.paths:
        calls = [c for c in q.flat(('call',))]
        good = [c for c in calls if c.fn[0] == 'attr'
                and c.fn[2] == 'call_packet' and c.fn[1][0] == 'elem'
                and struct(c.fn[1][1]) == struct(it)
                and [struct(a) for a in c.args] == [pk] and not c.kwargs]
        if len(calls) != 1 or len(good) != 1:
            return None, 'the loop body is not exactly one ' \
                'listener.call_packet(packet)'
    return it[2], None


def stages(report, R, db, S, M, fi, is_stage, what):
    me, pk = sy(fi.all_params[0]), sy(fi.all_params[1])
    paths = S.run(fi)
    ignore = db.resolve_dotted(fi.module, ast.Name(id='IgnorePacket',
                                                   ctx=ast.Load()))
    complete = [p for p in paths if p.returns and not any(
        n[0] == 'caught' for n in p.notes)]
    if not complete:
        raise AnalysisError('%s: no path completes' % fi.qualname, fi.node,
                            rel(fi.path))
    result = None
    prob = {}
    # a dispatch written as data (a generator of stage callables run by a
    # helper, `deque(map(...), maxlen=0)`): no listener loop is visible on
    # any path -- the structure is not the one these rules read
    def runs_elements(p):
        """some loop calls the elements it iterates over: stage(packet)"""
        for e in p.flat(('loop',)):
            for q in e.paths:
                for c in q.flat(('call',)):
                    if c.fn[0] == 'elem' or (c.fn[0] == 'phi'):
                        return True
        return False
    if any(runs_elements(p) for p in complete) or \
            not any(e.kind == 'loop' for p in complete for e in p.events):
        raise AnalysisError('%s: the stages are run through callables the '
                            'summary cannot follow (no listener loop on any '
                            'path)' % fi.qualname, fi.node, rel(fi.path))
    for p in complete:
        top = [e for e in p.events if e.kind in ('loop', 'call')]
        st = [i for i, e in enumerate(top) if e.kind == 'call'
              and is_stage(e)]
        if not st:
            prob['%s:no-stage' % fi.name] = (
                fi.node, 'the %s is never performed [%s]' % (
                    what, p.cond_text()))
            continue
        loops = [(i, e) for i, e in enumerate(top) if e.kind == 'loop']
        lists = []
        for i, e in loops:
            attr, why = listener_loop(e, me, pk)
            if why:
                prob['%s:loop-body' % fi.name if 'body' in why
                     else '%s:loop-iter' % fi.name] = (e.node, why)
            lists.append((i, attr))
        before = [a for i, a in lists if i < st[0]]
        after = [a for i, a in lists if i > st[-1]]
        if len(st) != 1 or len(lists) != 2 or len(before) != 1 or \
                len(after) != 1:
            prob['%s:order' % fi.name] = (
                fi.node, 'expected one listener loop before and one after '
                'the %s; found %d before, %d after (of %d loops, %d %s '
                'calls)' % (what, len(before), len(after), len(lists),
                            len(st), what))
            continue
        if None in (before[0], after[0]):
            continue
        if result is not None and result != (before[0], after[0]):
            prob['%s:order' % fi.name] = (
                fi.node, 'different paths iterate different lists')
        result = (before[0], after[0])
    # what an exception in a stage does
    sites = {}
    for p in paths:
        for e in p.flat(('call',)):
            if (e.fn[0] == 'attr' and e.fn[2] == 'call_packet') or \
                    is_stage(e):
                sites.setdefault(id(e.node), dict(node=e.node, quiet=0,
                                                  prop=0, more=None,
                                                  other=None))
    for p in paths:
        for n in p.notes:
            if n[0] != 'caught' or id(n[3]) not in sites:
                continue
            rec = sites[id(n[3])]
            h = n[1]
            cls = n[2][1] if n[2][0] == 'exc' else None
            only_ignore = cls == ('repo', ignore) and not (
                isinstance(h.type, ast.Tuple))
            if not only_ignore:
                rec['other'] = ast.unparse(h.type) if h.type is not None \
                    else 'everything'
                continue
            # after the catch nothing more of the dispatch may happen
            raised_at = None
            evs = p.flat(('call', 'store'))
            for i, e in enumerate(evs):
                if e.node is n[3]:
                    raised_at = i
            later = [e for e in evs[raised_at + 1:]] \
                if raised_at is not None else []
            later = [e for e in later if (e.kind == 'call' and (
                e.fn[0] == 'attr' and e.fn[2] == 'call_packet'
                or is_stage(e))) or e.kind == 'store']
            if later or not p.returns:
                rec['more'] = later[0] if later else p
            else:
                rec['quiet'] += 1
        if p.raises and len(p.outcome) > 3 and id(p.outcome[2]) in sites:
            sites[id(p.outcome[2])]['prop'] += 1
    bad_scope = [r for r in sites.values() if not r['quiet'] or r['more']]
    extra = [r for r in sites.values() if r['other'] or not r['prop']]
    if bad_scope:
        prob['%s:ignore-scope' % fi.name] = (
            bad_scope[0]['node'], 'an IgnorePacket raised by this call does '
            'not end the dispatch quietly: the three stages are not '
            'enclosed by one handler for exactly IgnorePacket that does '
            'nothing else (an ignore does not stop the later stages, or '
            'stops more than this packet)')
    if extra:
        prob['%s:extra-handler' % fi.name] = (
            extra[0]['node'], 'exceptions other than IgnorePacket raised '
            'by this call are caught inside the dispatch (%s): errors '
            'would be swallowed' % (extra[0]['other'] or 'all'))
    for key, (node, msg) in sorted(prob.items()):
        report.violation(R, key, fi.path, node, fi.qualname, msg)
    if prob:
        return result if not any(k.endswith((':order', ':no-stage',
                                             ':loop-iter', ':loop-body'))
                                 for k in prob) else None
    report.ok(R, '%s: loop over %s, then %s, then loop over %s' % (
        fi.name, result[0], what, result[1]))
    report.ok(R, '%s: IgnorePacket from any of the %d call sites ends the '
              'dispatch quietly; anything else propagates' % (
                  fi.name, len(sites)))
    return result


def dispatch_lists(report, db, S, M):
    R2 = report.rule('R13.2', 'incoming: early listeners, then the built-in '
                     'reaction, then ordinary listeners, in one '
                     'IgnorePacket-only handler')
    R3 = report.rule('R13.3', 'outgoing: early outgoing listeners, then the '
                     'write, then outgoing listeners, in one '
                     'IgnorePacket-only handler')
    react = M.conn_method('_react')
    wp = M.conn_method('_write_packet')

    def is_react(e):
        return e.method() == 'react' and any(
            t.name == 'react' for t in (e.targets or ()))

    def is_write(e):
        return e.method() == 'write' and any(
            t.name == 'write' and t.cls is not None
            and t.cls.name == 'Packet' for t in (e.targets or ()))
    a = stages(report, R2, db, S, M, react, is_react, 'built-in reaction')
    b = stages(report, R3, db, S, M, wp, is_write, 'write')
    # the reaction is applied to the same packet, through the reactor in
    # force *now* (read from the connection at dispatch time)
    me, pk = sy(react.all_params[0]), sy(react.all_params[1])
    seen = False
    for p in S.run(react):
        for e in p.flat(('call',)):
            if is_react(e):
                recv = e.fn[1] if e.fn[0] == 'attr' else e.fn[2]
                args = [x for x in e.args if struct(x) != struct(recv)]
                if struct(recv) == at(me, 'reactor') and \
                        [struct(x) for x in args] == [pk]:
                    seen = True
                else:
                    report.violation(R2, '_react:stage-call', react.path,
                                     e.node, react.qualname, 'the reaction '
                                     'is %r, not self.reactor.react(packet)'
                                     % e)
    if seen and not report.violations:
        report.ok(R2, 'self.reactor.react(packet)')
    return dict(incoming=a, outgoing=b)


# ---------------------------------------------------------------------------
def flag_fact(p, name):
    """truth of the keyword flag `name` on the path (None: not tested)"""
    for a, pol, _ in p.conds:
        if a[1] == 'truth':
            t = a[2][0]
            if struct(t) == sy(name) or any(
                    x == ('const', name) for x in subterms(t)):
                return pol
        if a[1] == 'is' and is_const(a[2][1]) and isinstance(
                a[2][1][1], bool):
            t = a[2][0]
            if struct(t) == sy(name) or any(
                    x == ('const', name) for x in subterms(t)):
                return pol == a[2][1][1]
    return None


def registration(report, db, cg, S, M, disp):
    R = report.rule('R13.1', 'registration: (early, outgoing) selects the '
                    'list the matching dispatch stage iterates; insertion '
                    'appends; the four lists are created once')
    reg = M.conn_method('register_packet_listener')
    init = M.conn_method('__init__')
    me = sy(reg.all_params[0])
    want = {}
    if disp.get('incoming'):
        want[(True, False)], want[(False, False)] = disp['incoming']
    if disp.get('outgoing'):
        want[(True, True)], want[(False, True)] = disp['outgoing']
    got = {}
    lst_ci = db.get_class(LISTENER, 'PacketListener')
    prob = {}
    for p in S.run(reg):
        if not p.returns:
            continue
        early, outgoing = flag_fact(p, 'early'), flag_fact(p, 'outgoing')
        adds = [e for e in p.flat(('call',)) if e.fn[0] == 'attr'
                and e.fn[2] in ('append', 'insert', 'appendleft', 'extend')
                and e.fn[1][0] == 'attr' and struct(e.fn[1][1]) == me]
        combos = [(a, b) for a in ((early,) if early is not None
                                   else (True, False))
                  for b in ((outgoing,) if outgoing is not None
                            else (True, False))]
        for key in combos:
            got.setdefault(key, []).append((p, adds))
    for key in sorted(want):
        early, outgoing = key
        exp = want[key]
        label = 'early=%s, outgoing=%s' % key
        for p, adds in got.get(key, []):
            targets = [e.fn[1][2] for e in adds]
            if targets != [exp]:
                prob['register:target:%s,%s' % key] = (
                    'a listener registered with %s lands in %s but the %s '
                    'stage iterates %s' % (
                        label, targets or 'no list', '%s %s' % (
                            'early' if early else 'ordinary',
                            'outgoing' if outgoing else 'incoming'), exp))
                continue
            e = adds[0]
            if e.fn[2] != 'append':
                prob['register:position:%s,%s' % key] = (
                    'the new listener is not appended after the ones '
                    'registered earlier (%s)' % e.fn[2])
                continue
            new = e.args[0] if e.args else None
            if not (new is not None and new[0] == 'obj'
                    and new[3] is lst_ci):
                prob['register:element:%s,%s' % key] = (
                    'what is registered is %s, not a PacketListener'
                    % (show(new) if new else None))
        if key not in got:
            prob['register:target:%s,%s' % key] = (
                'no path registers a listener with %s' % label)
    for k, msg in sorted(prob.items()):
        report.violation(R, k, reg.path, reg.node, reg.qualname, msg)
    if not prob:
        for key in sorted(want):
            report.ok(R, 'early=%s outgoing=%s -> append to %s' % (
                key[0], key[1], want[key]))
    if not report.violations:
        report.floor('flag combinations decided', len(want), 4)
    # lists are never replaced
    for fi in db.funcs:
        if fi is init:
            continue
        for n in cg.shallow(fi):
            if isinstance(n, ast.Attribute) and isinstance(n.ctx, ast.Store) \
                    and n.attr in want.values() and M.is_conn_expr(fi,
                                                                   n.value):
                report.violation(R, 'list-replaced:%s' % n.attr, fi.path, n,
                                 fi.qualname, 'the listener list %s is '
                                 'replaced outside __init__' % n.attr)


# ---------------------------------------------------------------------------
def call_packet(report, db, S):
    R = report.rule('R13.4', 'filter: isinstance against the registered '
                    'types (so superclasses match); the callback runs at '
                    'most once per call')
    ci = db.get_class(LISTENER, 'PacketListener')
    fi = db.own_method(ci, 'call_packet')
    init = db.own_method(ci, '__init__')
    if fi is None or init is None:
        raise AnalysisError('PacketListener.call_packet/__init__ vanished')
    me, pk = sy(fi.all_params[0]), sy(fi.all_params[1])
    cb = at(me, 'callback')
    paths = S.run(fi)
    prob = {}
    list_attr = set()
    called = 0

    def guard_of(conds):
        """attribute of self whose elements the packet was isinstance-
        tested against (positively)"""
        for a, pol, _ in conds:
            if a[1] == 'isinstance' and pol and struct(a[2][0]) == pk and \
                    a[2][1][0] == 'elem' and a[2][1][1][0] == 'attr' and \
                    struct(a[2][1][1][1]) == me:
                return a[2][1][1][2]
            if a[1] == 'truth' and pol and a[2][0][0] == 'op' and \
                    a[2][0][1] == 'any':
                for t in subterms(a[2][0]):
                    if t[0] == 'op' and t[1] == 'isinstance' and \
                            struct(t[2][0]) == pk and \
                            t[2][1][0] == 'elem' and \
                            t[2][1][1][0] == 'attr' and \
                            struct(t[2][1][1][1]) == me:
                        return t[2][1][1][2]
        return None
    for p in paths:
        if not (p.returns or p.raises):
            continue
        # only completed executions of the whole call count; paths that
        # leave from inside the loop carry the iteration's events
        cbs = [e for e in p.events if e.kind == 'call'
               and struct(e.fn) == cb]
        in_loop = []
        for e in p.events:
            if e.kind == 'loop':
                for q in e.paths:
                    qc = [c for c in q.flat(('call',))
                          if struct(c.fn) == cb]
                    if qc and q.outcome[0] not in ('return', 'raise'):
                        in_loop.append((q, qc))
        if in_loop:
            prob['call_packet:twice'] = (
                'after invoking the callback the loop continues: a packet '
                'matching two registered types (a class and its '
                'superclass) is delivered twice')
        if len(cbs) > 1:
            prob['call_packet:twice'] = (
                'the callback is invoked %d times on one path' % len(cbs))
        for e in cbs:
            called += 1
            if [struct(a) for a in e.args] != [pk] or e.kwargs:
                prob['call_packet:callback-args'] = (
                    'the callback is not called with the packet')
            g = guard_of(p.conds_at(e))
            if g is None and any(
                    a[1] == 'isinstance' and pol and struct(a[2][0]) == pk
                    and any(t[0] == 'attr' and struct(t[1]) == me
                            for t in subterms(a[2][1]))
                    for a, pol, _ in p.conds_at(e)):
                # isinstance(packet, <something computed from the registered
                # types>): whether that computation keeps every type's
                # coverage is a question about class hierarchies at run time
                raise AnalysisError(
                    'call_packet filters with isinstance against a value '
                    'derived from the registered types (not the types '
                    'themselves): not decided', fi.node, rel(fi.path))
            if g is None:
                prob['call_packet:filter'] = (
                    'the callback is not guarded by isinstance(packet, '
                    'registered_type) [%s]: subclasses of a registered type '
                    'would not match (or everything would)'
                    % p.cond_text())
            else:
                list_attr.add(g)
            v = p.value
            if p.returns and v != ('const', True):
                prob['call_packet:result'] = (
                    'a delivered packet is reported as %s' % show(v))
    if not called:
        prob['call_packet:callback-sites'] = (
            'the callback is never invoked')
    for k, msg in sorted(prob.items()):
        report.violation(R, k, fi.path, fi.node, fi.qualname, msg)
    if not prob:
        report.ok(R, 'callback invoked at most once per call, with the '
                  'packet')
        report.ok(R, 'callback guarded by isinstance(packet, type) for type '
                  'in self.%s' % sorted(list_attr)[0])
    if len(list_attr) != 1:
        return
    attr = sorted(list_attr)[0]
    # __init__ keeps the registered types it is given
    ime = sy(init.all_params[0])
    va = init.node.args.vararg
    if va is None:
        raise AnalysisError('PacketListener.__init__ takes no *types',
                            init.node, rel(init.path))
    given = sy('*' + va.arg)
    kept = False
    extra = None
    for p in S.run(init):
        st = [e for e in p.flat(('store',)) if struct(e.base) == ime
              and e.attr == attr]
        for e in st:
            v = e.value
            # a comprehension over the given types
            if v[0] == 'op' and v[1] in ('listcomp', 'genexp', 'list',
                                         'tuple'):
                if any(struct(t) == given for t in subterms(v)):
                    kept = True
                    for t in subterms(v):
                        if t[0] == 'op' and t[1] == 'issubclass':
                            pass
        # list.extend(<the given types, filtered>) on the kept list
        for c in p.flat(('call',)):
            if not (c.fn[0] == 'attr' and c.fn[2] == 'extend' and c.args
                    and any(struct(t) == given
                            for t in subterms(c.args[0]))):
                continue
            recv = c.fn[1]
            on_attr = struct(recv) == ('attr', ime, attr)
            if recv[0] == 'call' and recv[1] == ('builtin', '<mutable>'):
                # the literal the path has just stored in the attribute
                on_attr = any(e.value == recv[2][0] for e in st)
            if on_attr:
                kept = True
        for e in p.events:
            if e.kind != 'loop' or struct(e.ctx) != given:
                continue
            for q in e.paths:
                apps = [c for c in q.flat(('call',)) if c.fn[0] == 'attr'
                        and c.fn[2] == 'append' and c.args
                        and c.args[0][0] == 'elem']
                conds = [(a, pol) for a, pol, _ in q.conds]
                if apps:
                    kept = True
                    for a, pol in conds:
                        if not (a[1] == 'issubclass' and pol
                                and a[2][0][0] == 'elem'):
                            extra = '%s%s' % ('' if pol else 'not ',
                                              show(a))
    if extra:
        report.violation(R, 'listener:init-filter', init.path, init.node,
                         init.qualname, 'a packet type given at '
                         'registration is kept only when [%s]: a listener '
                         'registered for several types can lose one of '
                         'them' % extra)
    elif kept:
        report.ok(R, '__init__ keeps each given packet type in %s' % attr)
    else:
        report.violation(R, 'listener:init', init.path, init.node,
                         init.qualname, 'the types given at registration '
                         'are not stored in the list call_packet iterates')
