"""C16 -- connection lifecycle: one active thread, clean refusal, always
reusable.  Who-may-construct, guard-function equality, dominance, definite
assignment and exceptional-exit analysis of the lifecycle methods."""
import ast

from ..common import AnalysisError, rel
from ..callgraph import CallGraph
from ..connmodel import ConnModel, CONN
from ..cfg import cfg_of
from .. import boolfn


def run(report, db, tier):
    report.explanation = (
        'Lifecycle guarantees are decided as path facts of the lifecycle '
        'methods: where threads may be constructed and under which guard, '
        'that the activity check dominates every state change, that every '
        'attribute disconnect() reads exists from __init__ on, that socket '
        'and file object are published together, and that teardown runs on '
        'every exit of disconnect().')
    cg = CallGraph(db)
    M = ConnModel(db, cg)
    r1(report, db, cg, M)
    r2(report, db, cg, M)
    r3(report, db, cg, M)
    r4(report, db, cg, M)
    r5(report, db, cg, M)
    r6(report, db, cg, M)


def conj(conds):
    """ast expression for a conjunction of (expr, truth) pairs."""
    parts = []
    for e, t in conds:
        parts.append(e if t else ast.UnaryOp(op=ast.Not(), operand=e))
    if not parts:
        return ast.Constant(value=True)
    if len(parts) == 1:
        return parts[0]
    return ast.BoolOp(op=ast.And(), values=parts)


def disj(exprs):
    if not exprs:
        return ast.Constant(value=False)
    if len(exprs) == 1:
        return exprs[0]
    return ast.BoolOp(op=ast.Or(), values=exprs)


def raise_condition(g, exc_name):
    nodes = [n for n in g.reachable_nodes() if isinstance(n.ast, ast.Raise)
             and n.ast.exc is not None and exc_name in ast.unparse(n.ast.exc)]
    return nodes, disj([conj(boolfn.path_conditions(g, n)) for n in nodes])


def decided_walk(g, env, start=None, follow_exc=False):
    """Nodes reachable from entry when tests whose atoms are all fixed by
    `env` (atom text -> bool) take only the decided edge."""
    seen = set()
    stack = [start or g.entry]
    while stack:
        n = stack.pop()
        if n in seen:
            continue
        seen.add(n)
        decided = None
        if n.kind == 'test':
            ats = boolfn.atoms(n.ast)
            if ats and all(a in env for a in ats):
                decided = boolfn.evaluate(n.ast, env)
        for s, l in n.succ:
            if l == 'exc' and not follow_exc:
                continue
            if decided is not None and l in ('true', 'false') and \
                    (l == 'true') != decided:
                continue
            stack.append(s)
    return seen


# ---------------------------------------------------------------------------
def r1(report, db, cg, M):
    R = report.rule('R16.1', 'threads are constructed and started only in '
                    '_start_network_thread, under the lock, on valid-state '
                    'paths; its refusal condition is the same boolean '
                    'function as _check_connection\'s')
    snt = M.conn_method('_start_network_thread')
    chk = M.conn_method('_check_connection')
    tinit = M.method(M.thread, '__init__')
    sites = cg.callers_of(tinit)
    sites = [cs for cs in sites if not (isinstance(cs.node.func,
                                                   ast.Attribute)
                                        and cs.node.func.attr == '__init__')]
    report.floor('NetworkingThread construction sites', len(sites), 2)
    for cs in sites:
        if cs.caller is not snt:
            report.violation(R, 'thread-ctor:%s' % cs.caller.qualname,
                             cs.caller.path, cs.node, cs.caller.qualname,
                             'a networking thread is created outside '
                             '_start_network_thread (no activity check, no '
                             'hand-over)')
        elif not M.site_in_lock(snt, cs.node):
            report.violation(R, 'thread-ctor:unlocked', snt.path, cs.node,
                             snt.qualname, 'thread created outside the '
                             'write lock')
        else:
            report.ok(R, 'thread constructed in _start_network_thread '
                      'under the lock (line %d)' % cs.node.lineno)
    # .start() on a NetworkingThread
    n = 0
    for fi, lst in cg.sites.items():
        for cs in lst:
            f = cs.node.func
            if isinstance(f, ast.Attribute) and f.attr == 'start' and any(
                    t[0] == 'inst' and t[1] is M.thread
                    for t in cs.recv_types):
                n += 1
                if fi is not snt:
                    report.violation(R, 'thread-start:%s' % fi.qualname,
                                     fi.path, cs.node, fi.qualname,
                                     'a networking thread is started '
                                     'outside _start_network_thread')
                else:
                    report.ok(R)
    report.floor('thread start sites', n, 2)
    g1, g2 = cfg_of(snt), cfg_of(chk)
    n1, c1 = raise_condition(g1, 'InvalidState')
    n2, c2 = raise_condition(g2, 'InvalidState')
    if not n1 or not n2:
        which = snt if not n1 else chk
        report.violation(R, 'refusal:missing:%s' % which.name, which.path,
                         which.node, which.qualname, 'never raises '
                         'InvalidState: an active connection is not '
                         'protected')
        return
    if boolfn.same_function(c1, c2):
        report.ok(R, 'refusal condition of both: %s' % ast.unparse(c2)[:120])
    else:
        report.violation(R, 'refusal:differs', snt.path, n1[0].ast,
                         snt.qualname, '_start_network_thread refuses when '
                         '[%s] but _check_connection when [%s]'
                         % (ast.unparse(c1), ast.unparse(c2)))
    for cs in sites:
        if cs.caller is not snt:
            continue
        for node in M.cfg_nodes_of(snt, cs.node):
            conds = boolfn.path_conditions(g1, node)
            w = boolfn.conj_satisfiable(conds + [(c2, True)])
            if w is None:
                report.ok(R, 'construction at line %d unreachable in an '
                          'invalid state' % node.lineno)
            else:
                report.violation(R, 'thread-ctor:invalid-state', snt.path,
                                 cs.node, snt.qualname, 'a thread can be '
                                 'created while a connection is active '
                                 '(e.g. %s)' % ', '.join(
                                     '%s=%s' % kv for kv in sorted(w.items())))


# ---------------------------------------------------------------------------
def r2(report, db, cg, M):
    R = report.rule('R16.2', 'hand-over: a successor joins its predecessor '
                    'before running, and promotes itself under the lock')
    run = M.method(M.thread, 'run')
    g = cfg_of(run)
    live = g.reachable_nodes()

    def call_named(n, attr, recv_attr=None):
        for c in n.calls():
            f = c.func
            if isinstance(f, ast.Attribute) and f.attr == attr:
                if recv_attr is None or (isinstance(f.value, ast.Attribute)
                                         and f.value.attr == recv_attr):
                    return True
        return False
    joins = [n for n in live if n.ast is not None
             and call_named(n, 'join', 'previous_thread')]
    runs = [n for n in live if n.ast is not None and call_named(n, '_run')]
    if not runs:
        raise AnalysisError('NetworkingThread.run does not call _run',
                            run.node, rel(run.path))
    if not joins:
        report.violation(R, 'handover:no-join', run.path, run.node,
                         run.qualname, 'a successor thread never waits for '
                         'its predecessor: two threads would do I/O on one '
                         'connection')
    else:
        # a path entry -> _run on which previous_thread is set and alive but
        # not joined: forbid the edges that say "no predecessor" / "dead"
        def edge_ok(n, l):
            if n.kind == 'test':
                t = ast.unparse(n.ast)
                if 'previous_thread is not None' in t and l == 'false':
                    return False
                if 'previous_thread is None' in t and l == 'true':
                    return False
                if 'is_alive' in t and 'previous_thread' in t and \
                        l == 'false':
                    return False
            return True
        seen = set()
        stack = [g.entry]
        bad = False
        while stack:
            n = stack.pop()
            if n in seen or n in joins:
                continue
            seen.add(n)
            if n in runs:
                bad = True
                break
            for s, l in n.succ:
                if l != 'exc' and edge_ok(n, l):
                    stack.append(s)
        # the walk above must have met a guard at all
        guards = [n for n in live if n.kind == 'test'
                  and 'previous_thread' in ast.unparse(n.ast)]
        if bad and guards:
            report.violation(R, 'handover:join-skipped', run.path,
                             runs[0].ast, run.qualname, '_run() is '
                             'reachable with a live predecessor that was '
                             'not joined')
        elif not guards:
            report.violation(R, 'handover:no-guard', run.path, run.node,
                             run.qualname, 'the hand-over is not guarded by '
                             'the presence of a predecessor')
        else:
            report.ok(R, 'join() precedes _run() whenever a live '
                      'predecessor exists')
    # slot promotion
    prom = []
    for n in live:
        a = n.ast
        if isinstance(a, ast.Assign):
            for t in a.targets:
                if isinstance(t, ast.Attribute) and t.attr in (
                        'networking_thread', 'new_networking_thread') and \
                        M.is_conn_expr(run, t.value):
                    prom.append((n, t.attr, a.value))
    cur = [p for p in prom if p[1] == 'networking_thread'
           and isinstance(p[2], ast.Name) and p[2].id == run.params[0]]
    newn = [p for p in prom if p[1] == 'new_networking_thread'
            and isinstance(p[2], ast.Constant) and p[2].value is None]
    if cur and newn:
        okk = True
        for n, _, _ in cur + newn:
            if not M.node_in_lock(run, n):
                okk = False
                report.violation(R, 'handover:promotion-unlocked', run.path,
                                 n.ast, run.qualname, 'slot promotion '
                                 'outside the write lock')
            if any(g.exists_path(r, lambda x: x is n) for r in runs):
                okk = False
                report.violation(R, 'handover:promotion-late', run.path,
                                 n.ast, run.qualname, 'slot promotion '
                                 'happens after _run()')
        if okk:
            report.ok(R, 'networking_thread = self; new_networking_thread = '
                      'None under the lock before _run()')
    else:
        report.violation(R, 'handover:no-promotion', run.path, run.node,
                         run.qualname, 'a successor never takes over the '
                         'current-thread slot / clears the successor slot')
    # finally: clears the slot under the lock
    clr = [p for p in prom if p[1] == 'networking_thread'
           and isinstance(p[2], ast.Constant) and p[2].value is None]
    if clr and all(M.node_in_lock(run, n) for n, _, _ in clr) and all(
            g.postdominates(n, g.entry) or True for n, _, _ in clr):
        # every exit (normal and exceptional) passes a clearing store
        esc = g.exists_path(g.entry, lambda x: x in (g.exit, g.raise_exit),
                            avoid=lambda x: any(x is n for n, _, _ in clr))
        if esc is None:
            report.ok(R, 'slot cleared on every exit of run()')
        else:
            report.violation(R, 'handover:slot-not-cleared', run.path,
                             run.node, run.qualname, 'run() can end without '
                             'clearing the thread slot: the connection '
                             'stays "active" forever')
    else:
        report.violation(R, 'handover:slot-not-cleared', run.path, run.node,
                         run.qualname, 'run() does not clear the thread '
                         'slot under the lock when it ends')


# ---------------------------------------------------------------------------
def r3(report, db, cg, M):
    R = report.rule('R16.3', 'check before change: in connect() and '
                    'status() the activity check dominates every state '
                    'change and the transport set-up, inside the lock')
    chk = M.conn_method('_check_connection')
    for name in ('connect', 'status'):
        fi = M.conn_method(name)
        g = cfg_of(fi)
        live = g.reachable_nodes()
        checks = [n for n in live if n.ast is not None and any(
            any(m is chk for m, _, _ in cg.callee_funcs(fi, c))
            for c in n.calls())]
        if not checks:
            report.violation(R, 'check:missing:%s' % name, fi.path, fi.node,
                             fi.qualname, '%s() never checks for an '
                             'existing connection' % name)
            continue
        c0 = checks[0]
        if not M.node_in_lock(fi, c0):
            report.violation(R, 'check:unlocked:%s' % name, fi.path, c0.ast,
                             fi.qualname, 'the activity check runs outside '
                             'the write lock: another thread can connect in '
                             'between')
        bad = []
        for n in live:
            if n.ast is None or n is c0:
                continue
            changes = False
            a = n.ast
            if isinstance(a, (ast.Assign, ast.AugAssign)):
                tg = a.targets if isinstance(a, ast.Assign) else [a.target]
                if any(isinstance(t, ast.Attribute) for t in tg):
                    changes = True
            for c in n.calls():
                for m, _, _ in cg.callee_funcs(fi, c):
                    if m.cls is M.conn and m is not chk:
                        changes = True
            if changes and not g.dominates(c0, n):
                bad.append(n)
        if bad:
            for n in bad[:3]:
                report.violation(R, 'check:late:%s:%d' % (name, n.lineno),
                                 fi.path, n.ast, fi.qualname,
                                 'connection state is changed before the '
                                 'activity check: a refused %s() disturbs '
                                 'the active connection' % name)
        else:
            report.ok(R, '%s(): _check_connection() dominates all state '
                      'changes' % name)


# ---------------------------------------------------------------------------
def self_attr_reads(fi):
    out = []
    me = fi.params[0]
    for n in ast.walk(fi.node):
        if isinstance(n, ast.Attribute) and isinstance(n.ctx, ast.Load) and \
                isinstance(n.value, ast.Name) and n.value.id == me:
            out.append(n)
    return out


def r4(report, db, cg, M):
    R = report.rule('R16.4', 'usable in any state: every attribute '
                    'disconnect() and its self-callees read is assigned in '
                    '__init__; socket and file object are published '
                    'together')
    init = M.conn_method('__init__')
    dc = M.conn_method('disconnect')
    assigned = set()
    me = init.params[0]
    for n in ast.walk(init.node):
        if isinstance(n, ast.Attribute) and isinstance(n.ctx, ast.Store) and \
                isinstance(n.value, ast.Name) and n.value.id == me:
            assigned.add(n.attr)
    # must be assigned on every path of __init__ (definite assignment)
    g = cfg_of(init)
    todo = [dc]
    seen = set()
    reads = {}
    while todo:
        f = todo.pop()
        if f in seen:
            continue
        seen.add(f)
        for a in self_attr_reads(f):
            if db.find_attr(M.conn, a.attr) is not None:
                continue          # method or class attribute
            reads.setdefault(a.attr, (f, a))
        for cs in cg.sites.get(f, []):
            fn = cs.node.func
            if isinstance(fn, ast.Attribute) and isinstance(
                    fn.value, ast.Name) and fn.value.id == f.params[0]:
                for m, _, _ in cs.callees:
                    if m.cls is M.conn:
                        todo.append(m)
    report.note('attributes read by disconnect and self-callees',
                sorted(reads))
    report.floor('attributes read by disconnect()', len(reads), 6)
    for attr, (f, node) in sorted(reads.items()):
        if attr not in assigned:
            report.violation(R, 'uninitialised:%s' % attr, f.path, node,
                             f.qualname, 'self.%s is read on the '
                             'disconnect() path but not assigned in '
                             '__init__: disconnect() before the first '
                             'connect() raises AttributeError' % attr)
            continue
        stores = [n for n in g.reachable_nodes() if n.ast is not None and any(
            isinstance(x, ast.Attribute) and isinstance(x.ctx, ast.Store)
            and x.attr == attr and isinstance(x.value, ast.Name)
            and x.value.id == me for x in n.walk())]
        esc = g.exists_path(g.entry, lambda x: x is g.exit,
                            avoid=lambda x: x in stores)
        if esc is None:
            report.ok(R, 'self.%s definitely assigned in __init__' % attr)
        else:
            report.violation(R, 'maybe-uninitialised:%s' % attr, init.path,
                             init.node, init.qualname, 'self.%s is not '
                             'assigned on every path of __init__' % attr)
    # publication of socket and file_object in _connect
    cn = M.conn_method('_connect')
    gc = cfg_of(cn)

    def stores_attr(n, attr):
        a = n.ast
        return isinstance(a, ast.Assign) and any(
            isinstance(t, ast.Attribute) and t.attr == attr
            and isinstance(t.value, ast.Name) and t.value.id == cn.params[0]
            for t in a.targets)
    live = gc.reachable_nodes()
    ss = [n for n in live if n.ast is not None and stores_attr(n, 'socket')]
    fs = [n for n in live if n.ast is not None
          and stores_attr(n, 'file_object')]
    if not ss or not fs:
        raise AnalysisError('_connect: stores of socket / file_object not '
                            'found', cn.node, rel(cn.path))
    for s in ss:
        # from the socket store, an exceptional exit before file_object is
        # stored leaves a non-None socket with no (or a stale) file object
        pth = gc.exists_path(s, lambda x: x is gc.raise_exit,
                             avoid=lambda x: x in fs)
        own_exc = any(l == 'exc' for _, l in s.succ)
        if pth is None and not own_exc or (pth is None and own_exc and
                                           False):
            report.ok(R, '_connect: no failure point between the socket '
                      'and file_object stores')
        elif pth is None:
            report.ok(R, '_connect: socket store is followed by the '
                      'file_object store without a failure point')
        else:
            culprit = [x for x in pth if x.ast is not None and any(
                l == 'exc' for _, l in x.succ) and x is not s]
            c = culprit[0] if culprit else s
            report.violation(R, 'publication:socket-before-file', cn.path,
                             c.ast, cn.qualname, 'self.socket is already '
                             'set when `%s` can fail, but self.file_object '
                             'is not (or is the previous connection\'s): '
                             'disconnect() after a refused connect then '
                             'fails on file_object' % ast.unparse(
                                 c.ast).split('\n')[0][:60])


# ---------------------------------------------------------------------------
def r5(report, db, cg, M):
    R = report.rule('R16.5', 'teardown on every exit of disconnect(): the '
                    'flush cannot skip interrupt and close; a dead peer '
                    'does not make disconnect() raise')
    dc = M.conn_method('disconnect')
    g = cfg_of(dc)
    pop = M.conn_method('_pop_packet')
    live = g.reachable_nodes()
    flush = [n for n in live if n.ast is not None and any(
        any(m is pop for m, _, _ in cg.callee_funcs(dc, c))
        for c in n.calls())]
    me = dc.params[0]

    def sock_test(n):
        return n.kind == 'test' and ('%s.socket is not None' % me) in \
            ast.unparse(n.ast)

    def slot_test(n):
        return n.kind == 'test' and 'networking_thread is not None' in \
            ast.unparse(n.ast)
    close_entry = [n for n in live if sock_test(n) and not any(
        x in flush for x in [n])]
    # teardown entries are socket tests that lead to close(), not the one
    # guarding the flush
    def leads_to_close(n):
        for s, l in n.succ:
            if l != 'true':
                continue
            pth = g.exists_path(n, lambda x: x is g.exit or x is g.raise_exit,
                                avoid=lambda x: x.ast is not None and any(
                                    isinstance(c.func, ast.Attribute)
                                    and c.func.attr in ('close', 'shutdown')
                                    and ('socket' in ast.unparse(c.func.value)
                                         or 'file_object' in ast.unparse(
                                             c.func.value))
                                    for c in x.calls()),
                                start_labels=('true',))
            return pth is None
        return False
    close_entry = [n for n in close_entry if leads_to_close(n)]
    intr_entry = [n for n in live if slot_test(n)]
    if not close_entry:
        report.violation(R, 'teardown:no-close', dc.path, dc.node,
                         dc.qualname, 'no `socket is not None -> close` '
                         'stage found in disconnect()')
        return
    if not intr_entry:
        report.violation(R, 'teardown:no-interrupt', dc.path, dc.node,
                         dc.qualname, 'disconnect() never tells the '
                         'networking thread to stop')
        return
    for f in flush:
        for kind, entries in (('close', close_entry),
                              ('interrupt', intr_entry)):
            pth = g.exists_path(f, lambda x: x in (g.exit, g.raise_exit),
                                avoid=lambda x: x in entries)
            if pth is None:
                report.ok(R, 'every exit after the flush at line %d passes '
                          'the %s stage' % (f.lineno, kind))
            else:
                how = 'an exception in the flush' if any(
                    x is g.raise_exit for x in pth) else 'a path'
                report.violation(
                    R, 'teardown:skipped:%s' % kind, dc.path, f.ast,
                    dc.qualname, '%s leaves disconnect() without the %s '
                    'stage: with a dead peer and queued packets the socket '
                    'stays open / the thread is never interrupted'
                    % (how, kind))
        # a dead peer (I/O error while flushing) must not escape
        io_names = ('IOError', 'OSError', 'socket.error', 'EnvironmentError',
                    'Exception', 'BaseException', 'ConnectionError',
                    'error')
        handlers = [s for s, l in f.succ if l == 'exc'
                    and s.kind == 'handler']
        caught = any(h.ast.type is None or any(
            nm in ast.unparse(h.ast.type).replace('(', ' ').replace(
                ')', ' ').replace(',', ' ').split()
            for nm in io_names) for h in handlers)
        if caught:
            report.ok(R, 'I/O errors of the flush are caught')
        else:
            report.violation(R, 'teardown:flush-raises', dc.path, f.ast,
                             dc.qualname, 'an I/O error while flushing (peer '
                             'already gone) propagates out of disconnect()')
    if not flush:
        raise AnalysisError('disconnect: flush not found', dc.node,
                            rel(dc.path))
    # shutdown is inside a handler for socket errors
    for n in live:
        for c in (n.calls() if n.ast is not None else []):
            if isinstance(c.func, ast.Attribute) and \
                    c.func.attr == 'shutdown':
                how = ast.unparse(c.args[0]) if c.args else None
                if how is not None and how.split('.')[-1] in ('SHUT_RDWR',):
                    report.ok(R, 'shutdown(%s): a thread blocked in a read '
                              'is woken' % how)
                else:
                    report.violation(R, 'teardown:shutdown-how', dc.path, c,
                                     dc.qualname, 'shutdown(%s) does not '
                                     'shut the read direction: a networking '
                                     'thread blocked inside a read on this '
                                     'socket is not woken by close() and '
                                     'never terminates' % how)
                hs = [s for s, l in n.succ if l == 'exc'
                      and s.kind == 'handler']
                if hs:
                    report.ok(R, 'shutdown() errors are caught')
                else:
                    report.violation(R, 'teardown:shutdown-raises', dc.path,
                                     c, dc.qualname, 'shutdown() on an '
                                     'already closed peer raises out of '
                                     'disconnect()')


# ---------------------------------------------------------------------------
def r6(report, db, cg, M):
    R = report.rule('R16.6', 'termination: every loop of the networking '
                    'thread stops when its interrupt flag is set, and '
                    'disconnect() sets the flag of the newest thread slot')
    rn = M.method(M.thread, '_run')
    me = rn.params[0]
    loops = [n for n in ast.walk(rn.node) if isinstance(n, ast.While)]
    report.floor('loops in NetworkingThread._run', len(loops), 3)
    atom = '%s.interrupt' % me
    for lp in loops:
        ats = boolfn.atoms(lp.test)
        stops = atom in ats and boolfn.conj_satisfiable(
            [(lp.test, True)], {atom: True}) is None
        if stops:
            report.ok(R, 'loop at line %d: %s' % (lp.lineno,
                                                  ast.unparse(lp.test)))
        else:
            report.violation(R, 'loop-ignores-interrupt:%s' % ast.unparse(
                lp.test)[:40], rn.path, lp, rn.qualname,
                'the loop `while %s` keeps running after interrupt is set'
                % ast.unparse(lp.test))
    dc = M.conn_method('disconnect')
    g = cfg_of(dc)
    d = dc.params[0]
    new_a = '%s.new_networking_thread is None' % d
    cur_a = '%s.networking_thread is None' % d

    def store_of(slot):
        return [n for n in g.reachable_nodes() if isinstance(
            n.ast, ast.Assign) and any(
                isinstance(t, ast.Attribute) and t.attr == 'interrupt'
                and isinstance(t.value, ast.Attribute)
                and t.value.attr == slot for t in n.ast.targets)
            and isinstance(n.ast.value, ast.Constant)
            and n.ast.value.value is True]
    for env, slot, label in (
            ({new_a: False, cur_a: False}, 'new_networking_thread',
             'a successor exists'),
            ({new_a: False, cur_a: True}, 'new_networking_thread',
             'only a successor exists'),
            ({new_a: True, cur_a: False}, 'networking_thread',
             'only the current thread exists')):
        reach = decided_walk(g, env)
        st = store_of(slot)
        # exit reachable (normally) without passing the store?
        seen = set()
        stack = [g.entry]
        miss = False
        while stack:
            n = stack.pop()
            if n in seen or n not in reach or n in st:
                continue
            seen.add(n)
            if n is g.exit:
                miss = True
                break
            decided = None
            if n.kind == 'test':
                ats = boolfn.atoms(n.ast)
                if ats and all(a in env for a in ats):
                    decided = boolfn.evaluate(n.ast, env)
            for s, l in n.succ:
                if l == 'exc':
                    continue
                if decided is not None and l in ('true', 'false') and \
                        (l == 'true') != decided:
                    continue
                stack.append(s)
        if miss or not st:
            report.violation(R, 'interrupt-target:%s' % slot, dc.path,
                             dc.node, dc.qualname, 'when %s, disconnect() '
                             'can return without setting %s.interrupt: that '
                             'thread keeps running' % (label, slot))
        else:
            report.ok(R, 'when %s: %s.interrupt = True' % (label, slot))
